"""Confirm a seeded change and file it under /verif/seeded/<id>/ (development tool, not a registered check).

usage: python -m harness.seedtool <PID> <k> <id> "<what it needs to manifest>" [check ...]

 1. scratch worktree of /repo HEAD under /tmp; demo must PASS there;
 2. apply the diff; the pinned test suite must still give 37 passed; the demo must FAIL;
 3. remove the worktree;
 4. apply the diff to /repo, run the given checks (default: the property's own), undo it straight afterwards;
 5. write seeded/<id>/{patch.diff, demo.py, meta.json}.
"""
import json
import os
import re
import shutil
import subprocess
import sys

VERIF = os.path.dirname(os.path.dirname(os.path.abspath(__file__)))
REPO = "/repo"


def sh(cmd, **kw):
    return subprocess.run(cmd, shell=True, stdout=subprocess.PIPE, stderr=subprocess.STDOUT, text=True, **kw)


def main():
    pid, k, sid, needs = sys.argv[1:5]
    checks = sys.argv[5:] or [pid]
    inc = os.environ.get("SEED_INCOMING") or os.path.join(VERIF, "seeded", "_incoming", pid)
    diff = os.path.join(inc, f"seed_{pid}_{k}.diff")
    demo = os.path.join(inc, f"demo_{pid}_{k}.py")
    wt = f"/tmp/cs_{sid}"
    sh(f"git -C {REPO} worktree remove --force {wt}")
    r = sh(f"git -C {REPO} worktree add -q --detach {wt} HEAD")
    assert r.returncode == 0, r.stdout
    ran = []
    try:
        src = open(demo).read()
        src = re.sub(r"/tmp/wt_C\d+", wt, src)
        src = re.sub(r"/tmp/seed_C\d+_shims", os.path.join(VERIF, "shims"), src)
        dpath = os.path.join(wt, "demo.py")
        open(dpath, "w").write(src)
        r0 = sh(f"cd {wt} && /venv/bin/python demo.py")
        ran.append("demo on clean worktree: exit %d" % r0.returncode)
        r1 = sh(f"git -C {wt} apply {diff}")
        if r1.returncode != 0:
            print("PATCH DOES NOT APPLY to HEAD:", r1.stdout)
            return 1
        rt = sh(f"cd {wt} && /venv/bin/python -m pytest -q -p no:cacheprovider --timeout=900 --continue-on-collection-errors 2>&1 | tail -1")
        ran.append("pytest with change: " + rt.stdout.strip())
        r2 = sh(f"cd {wt} && /venv/bin/python demo.py")
        ran.append("demo with change: exit %d" % r2.returncode)
        ok = r0.returncode == 0 and r2.returncode != 0 and "37 passed" in rt.stdout
        print("\n".join(ran))
        if not ok:
            print("NOT CONFIRMED", r0.stdout[-500:], r2.stdout[-500:])
            return 1
        demo_src = src.replace(wt, "/repo")
        # run the checks against the scratch tree with the change applied (VERIF_REPO / VERIF_BUILD / VERIF_EVIDENCE
        # are development overrides: /repo itself and /verif's own build and evidence directories are not touched)
        results = {}
        scratch = f"/tmp/cs_out_{sid}"
        shutil.rmtree(scratch, ignore_errors=True)
        os.makedirs(scratch + "/build", exist_ok=True)
        os.makedirs(scratch + "/evidence", exist_ok=True)
        os.remove(dpath)
        for c in checks:
            rc = sh(f"cd {VERIF} && VERIF_REPO={wt} VERIF_BUILD={scratch}/build VERIF_EVIDENCE={scratch}/evidence ./check {c} --tier quick")
            lines = [ln.replace(scratch, "<scratch>") for ln in rc.stdout.splitlines() if ln.startswith("VIOLATION")]
            results[c] = {"exit": rc.returncode, "violation_lines": lines[:3]}
            print(c, "exit", rc.returncode, lines[:1])
        shutil.rmtree(scratch, ignore_errors=True)
    finally:
        sh(f"git -C {REPO} worktree remove --force {wt}")
        shutil.rmtree(wt, ignore_errors=True)
    out = os.path.join(VERIF, "seeded", sid)
    os.makedirs(out, exist_ok=True)
    shutil.copy(diff, os.path.join(out, "patch.diff"))
    open(os.path.join(out, "demo.py"), "w").write(demo_src)
    meta = {
        "id": sid, "breaks_property": pid, "needs_to_manifest": needs,
        "origin": "independent sub-agent given only the property text and a scratch worktree",
        "confirmed": ran,
        "base_commit": sh(f"git -C {REPO} rev-parse --short HEAD").stdout.strip(),
        "how_checked": "patch applied to a scratch worktree of /repo HEAD; checks run with VERIF_REPO pointing at it",
        "checks_run": results,
        "detected_by": [c for c, v in results.items() if v["exit"] == 1],
    }
    json.dump(meta, open(os.path.join(out, "meta.json"), "w"), indent=1)
    print("filed", out, "detected_by", meta["detected_by"])
    return 0


if __name__ == "__main__":
    sys.exit(main())
