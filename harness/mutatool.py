"""Development tool (not a registered check): syntactic mutants of chosen rpylib files, each applied to a scratch worktree of
/repo HEAD and run against the quick checks mapped to the file.  Prints one line per mutant; survivors need a human eye
(they may be equivalent mutants).
usage: python -m harness.mutatool <seed> <n> [file-substring]"""
import os
import random
import re
import shutil
import subprocess
import sys

VERIF = os.path.dirname(os.path.dirname(os.path.abspath(__file__)))
REPO = "/repo"
FILES = {
    "rpylib/numerical/cosmethod.py": ["C18"],
    "rpylib/numerical/fft.py": ["C18"],
    "rpylib/numerical/closedform/cfblackscholes.py": ["C18"],
    "rpylib/model/levymodel/levymodel.py": ["C09", "C10"],
    "rpylib/model/levymodel/mixed/hem.py": ["C09", "C10"],
    "rpylib/model/levymodel/mixed/merton.py": ["C09", "C10"],
    "rpylib/model/levymodel/purejump/variancegamma.py": ["C09", "C10"],
    "rpylib/model/levymodel/purejump/cgmy.py": ["C09", "C10"],
    "rpylib/tools/integral.py": ["C09"],
    "rpylib/process/levycopulaseries.py": ["C15"],
    "rpylib/distribution/levycopula.py": ["C11", "C12"],
    "rpylib/model/levymodel/exponentialoflevymodel.py": ["C18", "C10"],
}
FILES2 = {
    "rpylib/montecarlo/multilevel/engine.py": ["C05", "C06", "C08"],
    "rpylib/montecarlo/multilevel/criteria.py": ["C06"],
    "rpylib/montecarlo/standard/engine.py": ["C07", "C08"],
    "rpylib/montecarlo/statistic/statistic.py": ["C07", "C05"],
    "rpylib/montecarlo/statistic/tools.py": ["C07", "C05"],
    "rpylib/montecarlo/path.py": ["C07", "C05", "C15"],
    "rpylib/process/coupling/couplingmarkovchain.py": ["C03", "C15", "C08"],
    "rpylib/process/coupling/couplinglevycopula.py": ["C03", "C15"],
    "rpylib/process/coupling/couplingsde.py": ["C16", "C03"],
    "rpylib/process/coupling/helper.py": ["C15"],
    "rpylib/process/markovchain/markovchain.py": ["C01", "C04", "C15"],
    "rpylib/process/markovchain/markovchainlevycopula.py": ["C01", "C04", "C15"],
    "rpylib/process/markovchain/markovchainsde.py": ["C16"],
    "rpylib/process/levyprocess.py": ["C15", "C08"],
    "rpylib/grid/spatial.py": ["C13", "C01"],
    "rpylib/grid/grid.py": ["C13"],
    "rpylib/distribution/pairing.py": ["C14"],
    "rpylib/product/payoff.py": ["C17"],
    "rpylib/product/underlying.py": ["C17"],
    "rpylib/model/levycopulamodel.py": ["C12", "C01"],
    "rpylib/numerical/closedform/cflevymodel.py": ["C19"],
    "rpylib/numerical/closedform/cflevycopula.py": ["C19"],
    "rpylib/tools/parameter.py": ["C20"],
    "rpylib/model/utils.py": ["C20"],
    "rpylib/distribution/variate/alias.py": ["C02"],
    "rpylib/distribution/variate/binarysearchtree.py": ["C02"],
    "rpylib/distribution/variate/binarysearchtreeadapted.py": ["C02"],
    "rpylib/distribution/variate/huffmantree.py": ["C02"],
    "rpylib/distribution/variate/inversion.py": ["C02"],
    "rpylib/distribution/variate/table.py": ["C02"],
    "rpylib/model/levydrivensde/levylibormodel.py": ["C16"],
    "rpylib/model/levydrivensde/levyforwardmodel.py": ["C16"],
    "rpylib/model/levymodel/levymodel.py": ["C10", "C04"],
}
if os.environ.get("MUTA_SET") == "2":
    FILES = FILES2
OPS = [(r" \+ ", " - "), (r" - ", " + "), (r" \* ", " / "), (r" / ", " * "), (r" <= ", " < "), (r" < ", " <= "), (r" >= ", " > "),
       (r" > ", " >= "), (r" == ", " != "), (r"\b0\.5\b", "0.25"), (r"\b2 \*\* ", "3 ** "), (r"\bnp\.exp\(-", "np.exp("),
       (r" and ", " or "), (r"\bmin\(", "max("), (r"\bmax\(", "min(")]


def sh(cmd):
    return subprocess.run(cmd, shell=True, stdout=subprocess.PIPE, stderr=subprocess.STDOUT, text=True)


def candidates(path):
    out = []
    src = open(os.path.join(REPO, path)).read().split("\n")
    in_doc = False
    for i, line in enumerate(src):
        st = line.strip()
        if st.count('"""') == 1:
            in_doc = not in_doc
            continue
        if in_doc or st.startswith("#") or st.startswith('"""') or st.startswith("raise") or st.startswith("import") or st.startswith("from") \
                or "logging" in st or st.startswith("def ") or st.startswith("class ") or "__repr__" in st or ".format(" in st or st.startswith('"') \
                or "plt." in st or "plot" in st:
            continue
        for pat, rep in OPS:
            for m in re.finditer(pat, line):
                out.append((i, m.start(), m.end(), rep))
    return src, out


def main():
    seed, n = int(sys.argv[1]), int(sys.argv[2])
    only = sys.argv[3] if len(sys.argv) > 3 else ""
    rng = random.Random(seed)
    pool = []
    for path in FILES:
        if only in path:
            src, cs = candidates(path)
            pool += [(path, c) for c in cs]
    rng.shuffle(pool)
    for k, (path, (i, a, b, rep)) in enumerate(pool[:n]):
        wt, scratch = f"/tmp/mu_{seed}_{k}", f"/tmp/mu_out_{seed}_{k}"
        sh(f"git -C {REPO} worktree remove --force {wt}")
        assert sh(f"git -C {REPO} worktree add -q --detach {wt} HEAD").returncode == 0
        try:
            f = os.path.join(wt, path)
            src = open(f).read().split("\n")
            old = src[i]
            src[i] = old[:a] + rep + old[b:]
            open(f, "w").write("\n".join(src))
            if sh(f"/venv/bin/python -m py_compile {f}").returncode != 0:
                print(f"SKIP(compile) {path}:{i + 1}")
                continue
            os.makedirs(scratch + "/build", exist_ok=True)
            os.makedirs(scratch + "/evidence", exist_ok=True)
            verdicts = []
            for c in FILES[path]:
                p = sh(f"cd {VERIF} && VERIF_REPO={wt} VERIF_BUILD={scratch}/build VERIF_EVIDENCE={scratch}/evidence ./check {c} --tier quick")
                verdicts.append(f"{c}={p.returncode}")
                if p.returncode == 1:
                    break
            killed = any(v.endswith("=1") for v in verdicts)
            print(("KILLED  " if killed else "SURVIVED") + f" {path}:{i + 1} [{old.strip()[:90]}] -> [{src[i].strip()[:90]}] {' '.join(verdicts)}", flush=True)
        finally:
            sh(f"git -C {REPO} worktree remove --force {wt}")
            shutil.rmtree(wt, ignore_errors=True)
            shutil.rmtree(scratch, ignore_errors=True)


if __name__ == "__main__":
    main()
