"""Regenerate specs/README.md: module, checks that run it (directly or through a module extending it), what it describes."""
import glob
import os
import re

VERIF = os.path.dirname(os.path.dirname(os.path.abspath(__file__)))


def main():
    specs = sorted(glob.glob(os.path.join(VERIF, "specs", "*.tla")))
    names = [os.path.basename(p)[:-4] for p in specs]
    ext, desc = {}, {}
    for p, n in zip(specs, names):
        s = open(p).read()
        m = re.search(r"^EXTENDS(.*?)$", s, re.M)
        ext[n] = [x.strip() for x in m.group(1).split(",")] if m else []
        for inst in re.findall(r"INSTANCE\s+(\w+)", s):
            ext[n].append(inst)
        c = re.search(r"\(\*+\)\s*\n\(\*(.*?)\*\)\s*\n\(\*(.*?)\*\)", s, re.S)
        text = ""
        if c:
            text = (c.group(1).strip() + " " + c.group(2).strip())
        else:
            c = re.search(r"\(\*(.*?)\*\)", s, re.S)
            text = c.group(1).strip() if c else ""
        desc[n] = re.sub(r"\s+", " ", text)[:140] if not n.startswith("MC_") else ""
    direct = {n: set() for n in names}
    for p in sorted(glob.glob(os.path.join(VERIF, "harness", "props", "c*.py"))) + [os.path.join(VERIF, "harness", "props", "mlmc_common.py")]:
        src = open(p).read()
        pid = os.path.basename(p)[:-3].upper()
        pids = ["C05", "C06"] if pid == "MLMC_COMMON" else [pid]
        for n in names:
            if re.search(r'"%s"' % re.escape(n), src):
                direct[n].update(pids)
    run_by = {n: set(direct[n]) for n in names}
    changed = True
    while changed:
        changed = False
        for n in names:
            for e in ext[n]:
                if e in run_by and not run_by[n] <= run_by[e]:
                    run_by[e] |= run_by[n]
                    changed = True
    lines = ["# Specification modules", "",
             "Generated index (`python -m harness.specindex`): module, checks that run it directly or through a module that extends it, what it describes. `MC_*` = constants for TLC / Apalache, `Trace_*` = trace validation of recorded runs, `Struct_*` = constructions replayed by TLC and compared with the real objects.",
             "", "| module | run by | describes |", "|---|---|---|"]
    for n in names:
        lines.append(f"| {n} | {', '.join(sorted(run_by[n]))} | {desc[n]} |")
    open(os.path.join(VERIF, "specs", "README.md"), "w").write("\n".join(lines) + "\n")
    print("specs/README.md:", len(names), "modules")


if __name__ == "__main__":
    main()
