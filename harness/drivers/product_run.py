"""C17 driver: evaluation histories on ONE real product object per trace (DESIGN.md C17).

usage: python -m harness.drivers.product_run <out.ndjson> <tier> <seed>
Monetary values are recorded doubled (v = 2 * value) so that half-integer strikes stay integral.
"""
import itertools
import json
import math
import random
import sys
import warnings

import numpy as np

from harness.encode import count_bad, exact_int

warnings.filterwarnings("ignore")
NEVER = 1000000


def build(term, notional):
    from rpylib.product import payoff as P
    from rpylib.product import underlying as U
    from rpylib.product.product import Product
    cls, k = term["cls"], [x / 2.0 for x in term["k"]]
    cp = {"C": P.PayoffType.CALL, "P": P.PayoffType.PUT}.get(term.get("cp"))
    und = U.Spot()
    if cls == "Forward":
        pay = P.Forward(k[0])
    elif cls == "Vanilla":
        pay = P.Vanilla(k[0], cp)
    elif cls == "CallSpread":
        pay = P.CallSpread(k[0], k[1])
    elif cls == "Butterfly":
        pay = P.Butterfly(k[0], k[1], k[2])
    elif cls == "Digital":
        pay = P.Digital(k[0], cp)
    elif cls == "Barrier":
        bt = {"DI": P.BarrierType.DOWN_AND_IN, "DO": P.BarrierType.DOWN_AND_OUT, "UI": P.BarrierType.UP_AND_IN,
              "UO": P.BarrierType.UP_AND_OUT}[term["kind"]]
        pay = P.Barrier(k[0], cp, bt, k[1])
    elif cls == "Asian":
        und, pay = U.Asian(U.Discretisation.MONTHLY), P.Forward(k[0])
    elif cls == "DefaultTime":
        und, pay = U.DefaultTime(k[0]), P.PayoffOnTheFly(lambda x: x)
    elif cls == "NthDefault":
        und, pay = U.NthDefaultTimes(k[:-1], int(term["k"][-1])), P.PayoffOnTheFly(lambda x: x)
    elif cls == "NameDefault":
        und, pay = U.DefaultTimeNthUnderlying(k[:-1], int(term["k"][-1])), P.PayoffOnTheFly(lambda x: x)
    else:
        raise ValueError(cls)
    return Product(und, pay, maturity=1.0, notional=float(notional))


GRIDS = {3: [[0, 1, 2], [0, 1, 5], [0, 3, 4]], 4: [[0, 1, 2, 3], [0, 2, 3, 7], [0, 1, 5, 6]],
         5: [[0, 1, 2, 3, 4], [0, 1, 2, 3, 9], [0, 4, 5, 7, 8]]}


def evaluate(product, term, rep, p=None, pp=None, ts=None):
    """What MCPath.process does: underlying value (which also lets the payoff look at the path), then the payoff."""
    cls = term["cls"]
    log = rep == "log"
    if cls in ("NthDefault", "NameDefault"):
        j = np.array(pp, dtype=float) / 2.0                      # cumulative log-jumps, shape (d, n)
        times = np.array(ts, dtype=float)
        jp = j if log else np.exp(j)
        val = product(product.underlying_value(times, jp, jp))
        return NEVER if np.isinf(val) else exact_int(val)
    if cls == "DefaultTime":
        j = np.array(p, dtype=float) / 2.0
        times = np.array(ts, dtype=float)
        jp = j if log else np.exp(j)
        val = product(product.underlying_value(times, jp, jp))
        return NEVER if np.isinf(val) else exact_int(val)
    s = np.array(p, dtype=float) / 2.0
    times = np.array(ts, dtype=float)
    path = np.log(s) if log else s
    if cls == "Asian":
        path = path.reshape(-1, 1)
        val = product(product.underlying_value(times, path, path))
        return exact_int(2.0 * float(np.ravel(val)[0]) * ts[-1], tol=1e-9)
    val = product(product.underlying_value(times, path, path))
    return exact_int(2.0 * float(val), tol=1e-9)


def terms_and_paths(rng, tier):
    spot_paths = [[6, 8, 4], [6, 2, 10], [6, 6, 6], [6, 12, 7], [10, 9, 8, 7, 14], [4, 4, 16, 4], [8, 3, 3, 12],
                  [12, 20, 2, 9]]
    out = []
    ks = [3, 5, 7, 9, 6, 11]     # doubled strikes: odd = half-integer strike (no ties), 6 = tie with spot 3
    for k in ks:
        out.append(({"cls": "Forward", "k": [k]}, spot_paths))
        for cp in "CP":
            out.append(({"cls": "Vanilla", "cp": cp, "k": [k]}, spot_paths))
            out.append(({"cls": "Digital", "cp": cp, "k": [k]}, spot_paths))
    for k1, k2 in [(3, 7), (5, 9), (7, 15), (6, 8)]:
        out.append(({"cls": "CallSpread", "k": [k1, k2]}, spot_paths))
    for k1, k2, k3 in [(3, 7, 11), (5, 7, 9), (3, 5, 11), (5, 11, 13), (6, 8, 14)]:
        out.append(({"cls": "Butterfly", "k": [k1, k2, k3]}, spot_paths))
    for kd in ("DI", "DO", "UI", "UO"):
        for cp in "CP":
            for k, b in [(5, 3), (7, 9), (9, 11), (5, 15), (7, 5)]:
                out.append(({"cls": "Barrier", "kind": kd, "cp": cp, "k": [k, b]}, spot_paths))
    # paths that END at the same spot but differ in whether (and which) barrier was crossed on the way: the value
    # of a path-dependent product is a function of the whole path, not of where it ends
    same_end = [[[6, 2, 10], [6, 9, 10], [6, 12, 10]], [[10, 3, 4], [10, 8, 4], [6, 13, 4]], [[8, 1, 8, 8], [8, 8, 8, 8], [8, 15, 9, 8]]]
    for kd in ("DI", "DO", "UI", "UO"):
        for cp in "CP":
            for k, b in [(5, 5), (7, 23), (9, 7), (13, 25)]:
                for grp in same_end:
                    out.append(({"cls": "Barrier", "kind": kd, "cp": cp, "k": [k, b]}, grp))
    for k in (0, 5):
        out.append(({"cls": "Asian", "k": [k]}, spot_paths))
    # cumulative log-jump paths (doubled, even steps) and doubled odd negative thresholds
    jump_paths = [[0, -2, -2, -8], [0, 4, 2, 2], [0, -6, -6, -6], [0, 0, 0, 0], [0, 2, -4, -6, -16], [0, -2, -4, -6],
                  [0, -4, 6, 2, -2]]
    for a in (-3, -5, -1, -9):
        out.append(({"cls": "DefaultTime", "k": [a]}, jump_paths))
    return out, jump_paths


def main():
    out, tier, seed = sys.argv[1], sys.argv[2], int(sys.argv[3])
    rng = random.Random(seed)
    tp, jump_paths = terms_and_paths(rng, tier)
    traces = []
    maxlen = 3 if tier == "quick" else 4
    nid = 0
    for term, pool in tp:
        paths = rng.sample(pool, 3)
        ops = ["Ui", "Ul", "E0", "E1", "E2"]
        hists = []
        for n in range(1, maxlen + 1):
            for h in itertools.product(ops, repeat=n):
                if h[-1][0] == "E":
                    hists.append(h)
        for _ in range(6 if tier == "quick" else 40):
            hists.append(tuple(rng.choice(ops) for _ in range(rng.randint(5, 9))) + ("E%d" % rng.randint(0, 2),))
        for h in hists:
            notional = 1 if term["cls"] == "DefaultTime" else rng.choice([1, 1, 1, 3])
            ev = []
            try:
                product = build(term, notional)
                rep = "id"
                for op in h:
                    if op[0] == "U":
                        rep = "id" if op == "Ui" else "log"
                        from rpylib.process.process import ProcessRepresentation as PR
                        product.update(PR.LOG if rep == "log" else PR.IDENDITY)
                        ev.append({"e": "Upd", "r": rep})
                    else:
                        p = paths[int(op[1])]
                        ts = rng.choice(GRIDS[len(p)])
                        v = evaluate(product, term, rep, p=p, ts=ts)
                        ev.append({"e": "Eval", "p": p, "ts": ts, "v": v, "bad": count_bad([v])})
            except Exception as ex:
                ev.append({"e": "Raise", "what": type(ex).__name__})
            nid += 1
            traces.append({"tid": f"p{nid}", "hdr": {"t": term, "notional": notional}, "ev": ev})
    # multi-name default times: d names, k-th default, and each name's own default time
    multi = [[[0, -2, -2, -8], [0, 0, -6, -6], [0, -2, -4, -6]], [[0, 0, 0, 0], [0, -8, -8, -8], [0, 2, 4, -2]],
             [[0, -6, -6, -6, -6], [0, 0, 0, -6, -6], [0, 0, -6, -6, -12]], [[0, 2, 2, 2], [0, 2, 4, 6], [0, 0, 0, 0]],
             [[0, -4, -8, -12], [0, -4, -4, -8], [0, -4, -8, -8]]]
    from rpylib.process.process import ProcessRepresentation as PR
    for levels in ([-3, -3, -3], [-5, -1, -3], [-1, -7, -5]):
        for reps in (["id"], ["log"], ["log", "id"], ["id", "log", "id"]):
            for cls, idxs in (("NthDefault", (1, 2, 3)), ("NameDefault", (1, 2, 3))):
                per_path_vals = {i: [] for i in range(len(multi))}
                for idx in idxs:
                    term = {"cls": cls, "k": levels + [idx]}
                    ev = []
                    try:
                        product = build(term, 1)
                        rep = "id"
                        for r in reps:
                            rep = r
                            product.update(PR.LOG if r == "log" else PR.IDENDITY)
                            ev.append({"e": "Upd", "r": r})
                        for pi, pp in enumerate(multi):
                            ts = GRIDS[len(pp[0])][(pi + idx) % 3 if cls == "NameDefault" else pi % 3]
                            v = evaluate(product, term, rep, pp=pp, ts=ts)
                            per_path_vals[pi].append(v)
                            ev.append({"e": "Eval", "pp": pp, "ts": ts, "v": v, "bad": count_bad([v])})
                    except Exception as ex:
                        ev.append({"e": "Raise", "what": type(ex).__name__})
                    nid += 1
                    traces.append({"tid": f"p{nid}", "hdr": {"t": term, "notional": 1}, "ev": ev})
                if cls == "NthDefault":
                    ev = [{"e": "Mono", "vs": vs} for vs in per_path_vals.values() if len(vs) == 3]
                    nid += 1
                    traces.append({"tid": f"p{nid}", "hdr": {"t": {"cls": "NthDefault", "k": levels + [1]}, "notional": 1},
                                   "ev": ev})
    with open(out, "w") as f:
        for t in traces:
            f.write(json.dumps(t, separators=(",", ":")) + "\n")
    print(len(traces))


if __name__ == "__main__":
    main()
