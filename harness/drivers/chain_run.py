"""C01 / C04 driver: real Markov chains (1-d, copula 2-d / 3-d) over atomic Levy measures.

usage: python -m harness.drivers.chain_run <out.ndjson> <tier> <seed>
Records, per chain: the rate of every state through every public route (rate vector, inversion factory, adapted
tree buckets), the reported intensity, the process drift and the equivalent diffusion coefficient.
Positions are rank-encoded per axis; lattice scenarios also carry positions in lattice units (exact moments).
"""
import itertools
import json
import random
import sys
import warnings

import numpy as np

from harness import atomic
from harness.encode import count_bad, exact_int, ranks

warnings.filterwarnings("ignore")
U = atomic.UNIT


def rank_axes(axes, mids, atom_pos):
    """per-axis rank encoding of states, boundaries and atom coordinates"""
    d = len(axes)
    ax_r, bd_r, at_r = [], [], [[] for _ in atom_pos]
    for k in range(d):
        vals = list(axes[k]) + list(mids[k]) + [p[k] for p in atom_pos]
        rk = ranks(vals)
        n, m = len(axes[k]), len(mids[k])
        ax_r.append(rk[:n])
        bd_r.append(rk[n:n + m])
        for i, r in enumerate(rk[n + m:]):
            at_r[i].append(r)
    return ax_r, bd_r, at_r


def grid_mids(grid):
    return [[float(grid.middle(x, y)) for x, y in zip(a, a[1:])] for a in grid.axes]


def product_for_init():
    from rpylib.product.payoff import Forward
    from rpylib.product.product import Product
    from rpylib.product.underlying import Spot
    return Product(Spot(), Forward(0.0), maturity=1.0)


REPRS = ["ONEONE", "ZERO", "CENTER", "TILDE"]


def scenario_1d(tid, kind, grid, atoms, rng, lattice, unit, a_u=0, repr_name="ONEONE", fv=True, sigma_u=0, prior_grid=None,
                pre_ops=(), pre_trunc=None):
    from rpylib.distribution.sampling import SamplingMethod
    from rpylib.distribution.samplingfactory import create_q_vector
    from rpylib.model.levymodel.levymodel import LevyRepresentation
    from rpylib.process.markovchain.markovchain import MarkovChainProcess
    axes = [np.array(grid.axes[0], dtype=float)]
    mids = grid_mids(grid)
    scale = U if unit is not None else 1.0
    apos = [[k * scale] for k, _ in atoms]
    ax_r, bd_r, at_r = rank_axes(axes, mids, apos)
    org = int(grid.origin_coordinate.value) + 1
    hdr = {"kind": kind, "ax": ax_r, "bd": bd_r, "org": org, "atoms": [[at_r[i], atoms[i][1]] for i in range(len(atoms))],
           "lattice": bool(lattice)}
    if lattice:
        hdr.update(ax_u=[[exact_int(x / U) for x in axes[0]]], bd_u=[[exact_int(x / U) for x in mids[0]]],
                   atoms_u=[[[int(k)], int(w)] for k, w in atoms], one=int(round(1.0 / U)), a_u=[int(a_u)], repr=[repr_name],
                   fv=bool(fv), sigma2_u2=int(sigma_u) ** 2)
    ev = []
    try:
        model = atomic.AtomLevyModel(atoms, sigma=sigma_u * U, a=a_u * U, representation=LevyRepresentation[repr_name],
                                     finite_variation=fv, unit=unit)
        if pre_trunc is not None:
            # the user's model IS the measure restricted to pre_trunc (public truncate_levy_measure): the chain restricts it
            # further to its grid
            model.truncate_levy_measure((pre_trunc[0] * U, pre_trunc[1] * U))
        for op in pre_ops:
            # the user's model went through drift queries / re-declarations before the chain is built; it ends in the
            # representation it was declared in (conversions are reversible: C10)
            if op == "query":
                model.levy_triplet.canonical_drift(); model.levy_triplet.center_drift()
            else:
                model.levy_triplet.set_representation(LevyRepresentation[op])
        if pre_ops:
            model.levy_triplet.set_representation(LevyRepresentation[repr_name])
        if prior_grid is not None:
            # the same model object already served a chain on another (narrower) grid
            MarkovChainProcess(model=model, method=SamplingMethod.BINARYSEARCHTREE, grid=prior_grid).initialisation(product_for_init())
        proc = MarkovChainProcess(model=model, method=SamplingMethod.BINARYSEARCHTREE, grid=grid)
        q = create_q_vector(proc.model.levy_triplet.nu, grid)
        lam = proc.intensity_of_jumps
        r = {"e": "Rates1d", "src": "create_q_vector", "q": [exact_int(x) for x in q], "lam": exact_int(lam)}
        r["bad"] = count_bad(r)
        ev.append(r)
        # the inversion factory's own route to the rates
        pinv = MarkovChainProcess(model=model, method=SamplingMethod.INVERSION, grid=grid)
        o = org - 1
        qi = [0 if j == o else exact_int(pinv.sampling.probability_to_jump_to_state(j - o) * pinv.intensity_of_jumps, tol=1e-7)
              for j in range(len(axes[0]))]
        r = {"e": "Rates1d", "src": "inversion", "q": qi, "lam": exact_int(pinv.intensity_of_jumps)}
        r["bad"] = count_bad(r)
        ev.append(r)
        # the adapted 1-d tree: its left / right split
        pad = MarkovChainProcess(model=model, method=SamplingMethod.BINARYSEARCHTREEADAPTED1D, grid=grid)
        left = exact_int(pad.sampling._proba_left_axis * pad.intensity_of_jumps, tol=1e-7)
        ev.append({"e": "Buckets", "b": [[[1], [o], left]], "lam": exact_int(pad.intensity_of_jumps), "partial": 1,
                   "bad": count_bad([left])})
        if lattice:
            proc.initialisation(product_for_init())
            dr = {"e": "Drift", "drift_u": [exact_int(float(proc.process_drift()) / U, tol=1e-9)],
                  "eqvar_u2": exact_int(float(proc.equivalent_diffusion_coefficient) ** 2 / (U * U), tol=1e-9)}
            dr["bad"] = count_bad(dr)
            ev.append(dr)
        else:
            # non-lattice grid: the mean identity on positions quantised to 1e-5 (thin): ONEONE declaration, a = 0
            from harness.encode import quantise
            proc.initialisation(product_for_init())
            QU = 1e-5
            dq = {"e": "DriftQ", "drift_q": quantise(float(proc.process_drift()), QU), "x_q": [quantise(float(x), QU) for x in axes[0]],
                  "q": [exact_int(x) for x in q], "atoms_q": [[quantise(float(k), QU), int(w)] for k, w in atoms],
                  "lo_q": quantise(float(axes[0][0]), QU), "hi_q": quantise(float(axes[0][-1]), QU), "one_q": quantise(1.0, QU)}
            dq["bad"] = count_bad(dq)
            ev.append(dq)
    except Exception as ex:
        ev.append({"e": "Raise", "what": type(ex).__name__ + ": " + str(ex)[:80]})
    return {"tid": tid, "hdr": hdr, "ev": ev}


def scenario_1d_pretrunc(tid, grid, all_atoms, atoms, cut, rng, a_u, repr_name, fv):
    """the model is built on all_atoms and truncated to `cut` by the user; the specification is told the measure `atoms`"""
    t = scenario_1d(tid, "lattice1d:pretrunc", grid, all_atoms, rng, True, U, a_u=a_u, repr_name=repr_name, fv=fv, pre_trunc=cut)
    t["hdr"]["atoms_u"] = [[[int(k)], int(w)] for k, w in atoms]
    keep = {int(k) for k, _ in atoms}
    t["hdr"]["atoms"] = [x for x, (k, _w) in zip(t["hdr"]["atoms"], all_atoms) if int(k) in keep]
    return t


def scenario_nd(tid, kind, grid, atoms, d, reprs, a_us, lattice=True, prior_grid=None, with_drift=True, fvs=None):
    from rpylib.distribution.sampling import SamplingMethod
    from rpylib.model.levymodel.levymodel import LevyRepresentation
    from rpylib.process.markovchain.markovchainlevycopula import MarkovChainLevyCopula
    axes = [np.array(a, dtype=float) for a in grid.axes]
    mids = grid_mids(grid)
    apos = [[c * (U if lattice else 1.0) for c in k] for k, _ in atoms]
    ax_r, bd_r, at_r = rank_axes(axes, mids, apos)
    oc = grid.origin_coordinate.value
    org = int(oc[0]) + 1
    hdr = {"kind": kind, "ax": ax_r, "bd": bd_r, "org": org, "atoms": [[at_r[i], atoms[i][1]] for i in range(len(atoms))],
           "lattice": bool(lattice)}
    if lattice:
        hdr.update({"ax_u": [[exact_int(x / U) for x in a] for a in axes],
           "bd_u": [[exact_int(x / U) for x in m] for m in mids], "atoms_u": [[list(map(int, k)), int(w)] for k, w in atoms],
           "one": int(round(1.0 / U)), "a_u": [int(x) for x in a_us], "repr": reprs, "fv": True, "sigma2_u2": 0})
    ev = []
    try:
        model = atomic.atom_copula_model(atoms, d, drifts=[x * U for x in a_us],
                                         representations=[LevyRepresentation[r] for r in reprs], unit=(U if lattice else None))
        if fvs is not None:
            # margins of different variation (activity index 0.5 for finite, 1.5 for infinite variation)
            for mm, fv in zip(model.models, fvs):
                nu = mm.levy_triplet.nu
                nu._fv, nu._bg = bool(fv), (0.5 if fv else 1.5)
        if prior_grid is not None:
            MarkovChainLevyCopula(model, prior_grid, SamplingMethod.BINARYSEARCHTREEADAPTED).initialisation(product_for_init())
        pinv = MarkovChainLevyCopula(model, grid, SamplingMethod.INVERSION)
        lam = pinv.intensity_of_jumps
        rows = []
        sizes = [len(a) for a in axes]
        for js in itertools.product(*[range(n) for n in sizes]):
            inc = tuple(j - (org - 1) for j in js)
            if all(v == 0 for v in inc):
                rows.append([[j + 1 for j in js], 0])
                continue
            rows.append([[j + 1 for j in js], exact_int(pinv.sampling.probability_to_jump_to_state(inc) * lam, tol=1e-7)])
        r = {"e": "RatesNd", "src": "inversion", "rows": rows, "lam": exact_int(lam)}
        r["bad"] = count_bad(r)
        ev.append(r)
        pad = MarkovChainLevyCopula(model, grid, SamplingMethod.BINARYSEARCHTREEADAPTED)
        smp = pad.sampling
        b = []
        for p, cs in zip(smp._buckets_probabilities, smp._buckets_coordinates):
            lo = [int(c[0]) + 1 for c in cs]
            hi = [int(c[1]) + 1 for c in cs]
            b.append([lo, hi, exact_int(p * smp.intensity_of_jumps, tol=1e-7)])
        r = {"e": "Buckets", "b": b, "lam": exact_int(pad.intensity_of_jumps), "partial": 0}
        r["bad"] = count_bad(r)
        ev.append(r)
        if lattice and with_drift:
            pinv.initialisation(product_for_init())
            drift = np.ravel(pinv.process_drift())
            dr = {"e": "Drift", "drift_u": [exact_int(float(x) / U, tol=1e-9) for x in drift], "eqvar_u2": 0}
            dr["bad"] = count_bad(dr)
            ev.append(dr)
    except Exception as ex:
        ev.append({"e": "Raise", "what": type(ex).__name__ + ": " + str(ex)[:80]})
    return {"tid": tid, "hdr": hdr, "ev": ev}


def main():
    out, tier, seed = sys.argv[1], sys.argv[2], int(sys.argv[3])
    quick = tier == "quick"
    rng = random.Random(seed)
    from rpylib.grid.spatial import CTMCCredit, CTMCGrid, CTMCGridGeometric, CTMCGridProbabilityStep, CTMCUniformGrid
    from harness.models import levy_models
    traces = []

    def tid():
        return f"k{len(traces)}"

    # ---- 1-d lattice grids, refined in place 0..2 times; every representation x variation flag ----------------------
    shapes = [(1, 1), (2, 1), (1, 3), (3, 3), (4, 2)] + ([] if quick else [(2, 5), (6, 6), (3, 9)])
    combos = [(r, fv) for r in REPRS for fv in (True, False)]
    ci = 0
    for (nl, nr) in shapes:
        for lvl in (0, 1, 2):
            step = 16
            if nl == nr:
                grid = CTMCUniformGrid.create_from_fixed_nb_of_points(h=step * U, nb_of_points=2 * nl + 1)
            else:
                grid = CTMCGrid(h=step * U, origin_coordinate=nl, axes=[np.array([j * step * U for j in range(-nl, nr + 1)])])
            for _ in range(lvl):
                grid.refine()
            lo, hi = int(round(grid.axes[0][0] / U)), int(round(grid.axes[0][-1] / U))
            for rep in range(2 if quick else 4):
                atoms = atomic.atoms_everywhere(lo - 8, hi + 8, rng, wmax=6, density=rng.choice([1.0, 0.7]))
                r, fv = combos[ci % len(combos)]
                ci += 1
                import copy
                traces.append(scenario_1d(tid(), f"lattice1d:l{lvl}", copy.deepcopy(grid), atoms, rng, True, U,
                                          a_u=rng.randint(-40, 40), repr_name=r, fv=fv, sigma_u=rng.choice([0, 8, 16])))
    # large grid reaching beyond |x| = 1 (the |x| >= 1 terms of the representations)
    for rep in range(4 if quick else 12):
        nl, nr = rng.choice([(5, 6), (6, 4), (7, 7)])
        step = 16
        grid = CTMCGrid(h=step * U, origin_coordinate=nl, axes=[np.array([j * step * U for j in range(-nl, nr + 1)])])
        for _ in range(rng.choice([0, 1])):
            grid.refine()
        lo, hi = int(round(grid.axes[0][0] / U)), int(round(grid.axes[0][-1] / U))
        atoms = atomic.atoms_everywhere(lo - 8, hi + 8, rng, wmax=4, density=0.8)
        r, fv = combos[ci % len(combos)]
        ci += 1
        traces.append(scenario_1d(tid(), "lattice1d:wide", grid, atoms, rng, True, U, a_u=rng.randint(-40, 40), repr_name=r,
                                  fv=fv, sigma_u=rng.choice([0, 8])))
    # truncation beyond |x| = 1 on ONE side only, every representation x variation flag on either side
    for (nl, nr) in ((6, 3), (3, 6)):
        for (r, fv) in combos:
            step = 16
            grid = CTMCGrid(h=step * U, origin_coordinate=nl, axes=[np.array([j * step * U for j in range(-nl, nr + 1)])])
            lo, hi = int(round(grid.axes[0][0] / U)), int(round(grid.axes[0][-1] / U))
            atoms = atomic.atoms_everywhere(lo - 8, hi + 8, rng, wmax=4, density=0.8)
            traces.append(scenario_1d(tid(), "lattice1d:onesided", grid, atoms, rng, True, U, a_u=rng.randint(-40, 40), repr_name=r,
                                      fv=fv, sigma_u=rng.choice([0, 8])))
    # the user's model was already truncated (narrower than the grid on one side, wider on the other)
    for rep in range(3 if quick else 10):
        step = 16
        nl, nr = rng.randint(2, 4), rng.randint(2, 4)
        g = CTMCGrid(h=step * U, origin_coordinate=nl, axes=[np.array([j * step * U for j in range(-nl, nr + 1)])])
        allat = atomic.atoms_everywhere(-nl * step - 20, nr * step + 20, rng, wmax=4)
        cut = (-(nl - 1) * step - 6, nr * step + 12) if rep % 2 else (-nl * step - 12, (nr - 1) * step + 10)
        atoms = [(k, w) for (k, w) in allat if cut[0] < k < cut[1]]           # what the user's model is
        r, fv = combos[ci % len(combos)]
        ci += 1
        t = scenario_1d_pretrunc(tid(), g, allat, atoms, cut, rng, a_u=rng.randint(-20, 20), repr_name=r, fv=fv)
        traces.append(t)
    # the model went through drift queries and re-declarations before the chain is built
    for rep in range(4 if quick else 16):
        step = 16
        nl, nr = rng.randint(1, 4), rng.randint(1, 4)
        g = CTMCGrid(h=step * U, origin_coordinate=nl, axes=[np.array([j * step * U for j in range(-nl, nr + 1)])])
        atoms = atomic.atoms_everywhere(-80, 80, rng, wmax=4)           # atoms beyond the grid and beyond +-1 (64 units)
        r, fv = combos[ci % len(combos)]
        ci += 1
        allowed = [x for x in REPRS if fv or x != "ZERO"]
        ops = [rng.choice(["query"] + allowed) for _ in range(rng.randint(1, 3))]
        traces.append(scenario_1d(tid(), "lattice1d:preops", g, atoms, rng, True, U, a_u=rng.randint(-20, 20), repr_name=r, fv=fv, pre_ops=ops))
    # the same model object used for a chain on a narrow grid first, then for the chain under observation on a wider one
    for rep in range(3 if quick else 10):
        step = 16
        nl, nr = rng.randint(2, 4), rng.randint(2, 4)
        wide = CTMCGrid(h=step * U, origin_coordinate=nl, axes=[np.array([j * step * U for j in range(-nl, nr + 1)])])
        narrow = CTMCGrid(h=step * U, origin_coordinate=1, axes=[np.array([j * step * U for j in range(-1, 2)])])
        atoms = atomic.atoms_everywhere(-nl * step - 8, nr * step + 8, rng, wmax=4)
        r, fv = combos[ci % len(combos)]
        ci += 1
        traces.append(scenario_1d(tid(), "lattice1d:reuse", wide, atoms, rng, True, U, a_u=rng.randint(-20, 20), repr_name=r, fv=fv,
                                  prior_grid=narrow))
    # irregular lattice-aligned axes (states at multiples of 4 units, irregular gaps)
    for rep in range(4 if quick else 16):
        nl, nr = rng.randint(1, 4), rng.randint(1, 4)
        h = 16
        left = sorted(rng.sample(range(3, 20), nl - 1)) if nl > 1 else []
        right = sorted(rng.sample(range(3, 20), nr - 1)) if nr > 1 else []
        ks = [-8 * j for j in reversed(left)] + [-h, 0, h] + [8 * j for j in right]
        ks = sorted(set(ks))
        grid = CTMCGrid(h=h * U, origin_coordinate=ks.index(0), axes=[np.array([k * U for k in ks])])
        for _ in range(rng.choice([0, 1])):
            grid.refine()
        lo, hi = int(round(grid.axes[0][0] / U)), int(round(grid.axes[0][-1] / U))
        atoms = atomic.atoms_everywhere(lo - 4, hi + 4, rng, wmax=5)
        r, fv = combos[ci % len(combos)]
        ci += 1
        traces.append(scenario_1d(tid(), "irregular1d", grid, atoms, rng, True, U, a_u=rng.randint(-9, 9), repr_name=r, fv=fv))
    # ---- 1-d non-lattice grids: atoms placed after seeing the grid, one per elementary interval -------------------
    lm = levy_models()

    def elementary_atoms(grid):
        a = grid.axes[0]
        # the grid's own cell boundaries AND the arithmetic mid-points (and quarter points): a cell boundary computed by
        # any other rule than grid.middle() then has an atom on its wrong side
        pts = set(float(x) for x in a) | set(float(grid.middle(x, y)) for x, y in zip(a, a[1:]))
        for x, y in zip(a, a[1:]):
            pts |= {0.5 * (x + y), 0.75 * x + 0.25 * y, 0.25 * x + 0.75 * y}
        pts = sorted(pts)
        pts = [pts[0]] + [q for p_, q in zip(pts, pts[1:]) if q - p_ > 1e-9 * max(1.0, abs(q))]
        pos = [0.5 * (x + y) for x, y in zip(pts, pts[1:])]
        pos = [a[0] - 0.01] + pos + [a[-1] + 0.01]
        return [(p, rng.randint(1, 7)) for p in pos]

    for kind, make in (
        ("geombounds", lambda: CTMCGridGeometric.create_with_bounds(h=0.05, truncations=(-0.8, 1.1), dimension=1, nb_of_points_on_each_side=rng.choice([2, 3, 5]))),
        ("probstep", lambda: CTMCGridProbabilityStep(h=0.04, model=lm[rng.choice(["hem", "merton", "cgmy05"])], minimum_probability_step=0.1)),
        ("credit1d", lambda: CTMCCredit(h=0.02, level_a=-0.15, model=lm["hem"])),
        ("uniform", lambda: CTMCUniformGrid(h=0.1, model=lm["hem"], truncation_probability=0.999)),
    ):
        for lvl in (0, 1) if quick else (0, 1, 2):
            try:
                grid = make()
                for _ in range(lvl):
                    grid.refine()
                atoms = elementary_atoms(grid)
            except Exception as ex:
                traces.append({"tid": tid(), "hdr": {"kind": kind}, "ev": [{"e": "Raise", "what": "grid: " + type(ex).__name__}]})
                continue
            traces.append(scenario_1d(tid(), f"{kind}:l{lvl}", grid, atoms, rng, False, None))
    # ---- copula chains: 2-d and 3-d, shared axis, refined 0..1 times ------------------------------------------------
    cases = [(2, 1, 1), (2, 2, 1), (2, 1, 2), (2, 2, 2), (3, 1, 1)] + ([] if quick else [(2, 3, 2), (3, 1, 2), (3, 2, 1)])
    for (d, nl, nr) in cases:
        for lvl in (0, 1):
            if d == 3 and lvl == 1 and (quick or nl + nr > 2):
                continue
            step = 16
            axis = np.array([j * step * U for j in range(-nl, nr + 1)])
            grid = CTMCGrid(h=step * U, origin_coordinate=nl, axes=[axis] * d)      # aliased storage, as the constructors do
            for _ in range(lvl):
                grid.refine()
            lo, hi = int(round(grid.axes[0][0] / U)), int(round(grid.axes[0][-1] / U))
            atoms = atomic.joint_atoms_in_box([lo] * d, [hi] * d, d, rng, 50 if d == 2 else 70, wmax=4)
            reprs = [rng.choice(REPRS) for _ in range(d)]
            traces.append(scenario_nd(tid(), f"copula{d}d:l{lvl}", grid, atoms, d, reprs, [rng.randint(-9, 9) for _ in range(d)]))
    for rep in range(2 if quick else 6):
        d, step = 2, 16
        axis = np.array([j * step * U for j in range(-2, 3)])
        wide = CTMCGrid(h=step * U, origin_coordinate=2, axes=[axis] * d)
        narrow = CTMCGrid(h=step * U, origin_coordinate=1, axes=[np.array([j * step * U for j in range(-1, 2)])] * d)
        atoms = atomic.joint_atoms_in_box([-32] * d, [32] * d, d, rng, 50, wmax=4)
        traces.append(scenario_nd(tid(), "copula2d:reuse", wide, atoms, d, [rng.choice(REPRS) for _ in range(d)],
                                  [rng.randint(-9, 9) for _ in range(d)], prior_grid=narrow))
    # margins of different variation in one copula chain (declared in the canonical or the centred representation)
    for fvs in ((True, False), (False, True), (False, False)):
        d, nl, nr, step = 2, 5, 5, 16
        axis = np.array([j * step * U for j in range(-nl, nr + 1)])
        grid = CTMCGrid(h=step * U, origin_coordinate=nl, axes=[axis.copy(), axis.copy()])
        pts = list(range(-79, 80, 6))
        atoms = [((a, b), rng.randint(1, 3)) for a in pts for b in pts if rng.random() < 0.3]
        traces.append(scenario_nd(tid(), "copula2d:mixedvar", grid, atoms, d, [rng.choice(["ONEONE", "CENTER"]) for _ in range(d)],
                                  [rng.randint(-9, 9) for _ in range(d)], fvs=fvs))
    # joint atoms also BEYOND the truncation box (in one or in all coordinates): they belong to no cell and not to the
    # intensity (rates and intensity only; the drift of the margins is judged on measures supported by the box)
    for rep in range(3 if quick else 8):
        d, step = (2 if rep % 3 else 3), 16
        axis = np.array([j * step * U for j in range(-1, 2)]) if d == 3 else np.array([j * step * U for j in range(-2, 3)])
        grid = CTMCGrid(h=step * U, origin_coordinate=len(axis) // 2, axes=[axis] * d)
        edge = int(round(axis[-1] / U))
        atoms = atomic.joint_atoms_in_box([-edge - 24] * d, [edge + 24] * d, d, rng, 90, wmax=4)
        traces.append(scenario_nd(tid(), f"copula{d}d:beyond", grid, atoms, d, ["ONEONE"] * d, [0] * d, with_drift=False))
    # ---- copula chains on grids with one distinct axis per dimension (user-built lattice grids, credit grids) --------
    for rep in range(3 if quick else 10):
        d = rng.choice([2, 2, 3])
        nl, nr = (rng.randint(1, 2), rng.randint(1, 2)) if d == 3 else (rng.randint(1, 3), rng.randint(1, 3))
        axes = []
        for _k in range(d):
            left = sorted(rng.sample(range(3, 12), nl - 1)) if nl > 1 else []
            right = sorted(rng.sample(range(3, 12), nr - 1)) if nr > 1 else []
            ks = [-96] + [-8 * j for j in reversed(left)] + [-16, 0, 16] + [8 * j for j in right] + [96]
            axes.append(np.array([k * U for k in sorted(set(ks))]))
        if len({len(a) for a in axes}) != 1:
            continue
        grid = CTMCGrid(h=16 * U, origin_coordinate=list(axes[0]).index(0.0), axes=axes)
        atoms = atomic.joint_atoms_in_box([-96] * d, [96] * d, d, rng, 60, wmax=4)
        traces.append(scenario_nd(tid(), f"peraxis{d}d", grid, atoms, d, [rng.choice(REPRS) for _ in range(d)],
                                  [rng.randint(-9, 9) for _ in range(d)]))
    from harness.models import copula_models
    cm = copula_models()
    for name in (["clayton2_hem_merton"] if quick else ["clayton2_hem_merton", "clayton2_hem_hem2", "clayton3"]):
        m = cm[name]
        d = m.dimension_model()
        for sym in (True, False):
            try:
                from rpylib.grid.spatial import compute_truncation
                l, r = compute_truncation(model=m, h=0.02)
                grid = CTMCCredit(h=0.02, level_a=[l * f for f in (0.3, 0.6, 0.45)[:d]], model=m, symmetric_grid=sym)
                per_axis = []
                for k, a in enumerate(grid.axes):
                    pts = sorted(set(list(a) + [grid.middle(x, y) for x, y in zip(a, a[1:])]))
                    per_axis.append([0.5 * (x + y) for x, y in zip(pts, pts[1:])])
                cells = list(itertools.product(*per_axis))
                rng.shuffle(cells)
                atoms = [(tuple(c), rng.randint(1, 4)) for c in cells[:70]]
                traces.append(scenario_nd(tid(), f"credit{d}d:{'sym' if sym else 'asym'}", grid, atoms, d, ["ONEONE"] * d, [0] * d, lattice=False))
            except Exception as ex:
                traces.append({"tid": tid(), "hdr": {"kind": f"credit{d}d"}, "ev": [{"e": "Raise", "what": "grid: " + type(ex).__name__ + str(ex)[:60]}]})
    # ---- real models (quantised, thin): the reported intensity is the sum of the rates -----------------------------
    from rpylib.distribution.sampling import SamplingMethod
    from rpylib.distribution.samplingfactory import create_q_vector
    from rpylib.model.utils import create_levy_model, ModelType
    from rpylib.process.markovchain.markovchain import MarkovChainProcess
    real = dict(lm)
    real["merton_far"] = create_levy_model(ModelType.MERTON)(sigma=0.05, sigma_j=0.02, mu_j=0.2, intensity=3)
    for name, m in real.items():
        for gk in ("fixed", "probstep", "uniform"):
            for lvl in (0, 1, 2, 3) if gk == "fixed" else (0, 1):
                ev = []
                try:
                    if gk == "fixed":
                        grid = CTMCUniformGrid.create_from_fixed_nb_of_points(h=0.1, nb_of_points=7)
                    elif gk == "probstep":
                        grid = CTMCGridProbabilityStep(h=0.04, model=m, minimum_probability_step=0.1)
                    else:
                        grid = CTMCUniformGrid(h=0.05, model=m, truncation_probability=0.999)
                    for _ in range(lvl):
                        grid.refine()
                    proc = MarkovChainProcess(model=m, method=SamplingMethod.BINARYSEARCHTREE, grid=grid)
                    q = create_q_vector(proc.model.levy_triplet.nu, grid)
                    from harness.encode import quantise
                    ev.append({"e": "RealRates", "q": [quantise(x, 1e-7) for x in q], "lam": quantise(proc.intensity_of_jumps, 1e-7),
                               "slack": len(q) + 5, "bad": 0})
                except Exception as ex:
                    ev.append({"e": "Raise", "what": type(ex).__name__ + ": " + str(ex)[:80]})
                traces.append({"tid": tid(), "hdr": {"kind": f"real:{name}:{gk}:l{lvl}", "ax": [], "bd": [], "org": 0, "atoms": []}, "ev": ev})
    # ---- C04, infinite variation, copula chain: the variance (and covariance) of the jumps inside the central cell that is
    # added to the diffusion matrix (vol_adjustment_ij) against an independent integration of the model's own rectangle
    # masses (C12): int 2 |s| nu([s, h/2] x cell) ds per margin, int int sgn(x) sgn(y) nu([x, .] x [y, .]) dx dy across
    traces.append(var_adjust_trace(tid()))
    with open(out, "w") as f:
        for t in traces:
            f.write(json.dumps(t, separators=(",", ":")) + "\n")
    print(len(traces))


def var_adjust_trace(tid):
    from scipy.integrate import dblquad, quad
    from harness.encode import quantise
    from rpylib.model.utils import create_clayton_copula, create_levy_copula_model, create_levy_model, ModelType
    ev = []
    try:
        from rpylib.process.markovchain.markovchainlevycopula import vol_adjustment_ij
        m = create_levy_copula_model([create_levy_model(ModelType.CGMY)(c=0.019, g=2, m=4, y=1.2), create_levy_model(ModelType.HEM)()],
                                     create_clayton_copula())
        rows = []
        for h in (0.2, 0.1):
            lo, hi = -h / 2, h / 2
            for (i, j) in ((0, 0), (1, 1), (0, 1)):
                v = float(vol_adjustment_ij(i, j, h, m))
                if i == j:
                    o = 1 - i

                    def f(s):
                        a, b = [0.0, 0.0], [0.0, 0.0]
                        a[o], b[o] = lo, hi
                        a[i], b[i] = (s, hi) if s > 0 else (lo, s)
                        return 2 * abs(s) * m.mass(a=a, b=b)
                    ref = quad(f, lo, 0, epsabs=1e-11, limit=200)[0] + quad(f, 0, hi, epsabs=1e-11, limit=200)[0]
                else:
                    def g(y, x):
                        a, b = [0.0, 0.0], [0.0, 0.0]
                        a[0], b[0] = (x, hi) if x > 0 else (lo, x)
                        a[1], b[1] = (y, hi) if y > 0 else (lo, y)
                        return np.sign(x) * np.sign(y) * m.mass(a=a, b=b)
                    ref = sum(dblquad(g, ax, bx, lambda _: ay, lambda _: by, epsabs=1e-10)[0]
                              for (ax, bx) in ((lo, 0), (0, hi)) for (ay, by) in ((lo, 0), (0, hi)))
                u = 1e-5 * max(abs(v), abs(ref), 1e-9)
                rows.append([int(round(h * 100)), i, j, quantise(v, u), quantise(ref, u)])
        ev.append({"e": "VarAdj", "rows": rows, "bad": 0})
    except Exception as ex:
        ev.append({"e": "Raise", "what": type(ex).__name__ + ": " + str(ex)[:80]})
    return {"tid": tid, "hdr": {"kind": "real:cgmy12_hem:var-adjust", "ax": [], "bd": [], "org": 0, "atoms": []}, "ev": ev}


if __name__ == "__main__":
    main()
