"""C07 driver: the real standard engine on scripted path sets (integer payoffs), with 0-2 control variates.

usage: python -m harness.drivers.stdmc_run <out.ndjson> <tier> <seed>
"""
import itertools
import json
import random
import sys
import warnings

import numpy as np

from harness.encode import count_bad, exact_int, quantise

warnings.filterwarnings("ignore")


class _Model:
    def dimension(self):
        return 1

    def dimension_model(self):
        return 1

    def df(self, t):
        return 1.0


class ScriptedProcess:
    """quacks like a Process: path k ends at the k-th scripted terminal value"""

    def __init__(self, terminals, df):
        from rpylib.process.process import ProcessRepresentation
        self.process_representation = ProcessRepresentation.IDENDITY
        self.model = _Model()
        self.terminals = list(terminals)
        self._df = df
        self.k = 0
        self.log = []

    def dimension(self):
        return 1

    def initialisation(self, product, max_step_epsilon=None):
        pass

    def pre_computation(self, mc_paths, product):
        self.log.append(("pre", int(mc_paths)))

    def deterministic_path(self, times):
        return np.zeros(shape=np.shape(times))

    def df(self, t):
        return self._df

    def simulate_one_path(self):
        from rpylib.montecarlo.path import StochasticJumpPath
        s = self.terminals[self.k % len(self.terminals)]
        self.k += 1
        if isinstance(s, (list, tuple)):      # (value at the middle date, value at maturity)
            return StochasticJumpPath(np.array([0.0, 0.5, 1.0]), np.zeros(3), np.array([0.0, float(s[0]), float(s[1])]))
        return StochasticJumpPath(np.array([0.0, 1.0]), np.zeros(2), np.array([0.0, float(s)]))


def run_case(tid, terms, strikes, cv_strikes, notional, df, spot_stats, cv_price_mode="mean", nproc=1, barrier=None, offset=0):
    """nproc > 1: the multi-process branch (every path carries the same terminal value: which worker simulates which index
    is not scripted); barrier = (kind, level): an up-and-out / up-and-in call on three-date paths (terms are pairs);
    offset: a large common part of the terminal values (quiet samples: mean >> standard deviation)"""
    """payoff component c = max(S - strikes[c], 0); control j = call struck at cv_strikes[j]"""
    import rpylib.montecarlo.standard.engine as eng
    from rpylib.montecarlo.configuration import ConfigurationStandard
    from rpylib.product.payoff import PayoffType, Vanilla
    from rpylib.product.product import ControlVariates, Product
    from rpylib.product.underlying import Spot
    n, dim = len(terms), len(strikes)
    if barrier is not None:
        def bpay(pair, k):
            hit = max(pair) > barrier[1]
            alive = (not hit) if barrier[0] == "UO" else hit
            return max(pair[1] - k, 0) if alive else 0
        ys = [[bpay(p_, k) for p_ in terms] for k in strikes]
    else:
        ys = [[max(s - k, 0) for s in terms] for k in strikes]
    def cvpay(s, k):      # k >= 0: call struck at k ; k < 0: put struck at -k
        return max(s - k, 0) if k >= 0 else max(-k - s, 0)
    # a control given as a list of strikes is a vector-strike product: one control payoff per payoff component
    def comp_strike(k, c):
        return k[c] if isinstance(k, (list, tuple)) else k
    xs = [[[cvpay(s, comp_strike(k, c)) for s in terms] for c in range(dim)] for k in cv_strikes]   # xs[control][component][path]
    hdr = {"kind": f"dim{dim}:cv{len(cv_strikes)}" + (":np%d" % nproc if nproc > 1 else "") + (":barrier" if barrier else "") + (":quiet" if offset else ""),
           "n": n, "dim": dim, "ys": ys, "xs": xs, "ncv": len(cv_strikes), "multi": nproc > 1,
           "yd": [[y - (offset - strikes[c]) for y in ys[c]] for c in range(dim)] if offset else ys}
    scale = notional * df
    ev = []
    try:
        if barrier is not None:
            from rpylib.product.payoff import Barrier, BarrierType
            payoff = Barrier(float(strikes[0]), PayoffType.CALL, BarrierType.UP_AND_OUT if barrier[0] == "UO" else BarrierType.UP_AND_IN, float(barrier[1]))
        else:
            payoff = Vanilla(strike=float(strikes[0]) if dim == 1 else [float(k) for k in strikes], payoff_type=PayoffType.CALL)
        product = Product(Spot(), payoff, maturity=1.0, notional=float(notional))
        cv = None
        if cv_strikes:
            from rpylib.product.underlying import Mean

            def mk(k, j=1):
                if isinstance(k, (list, tuple)):
                    return Product(Spot(), Vanilla(strike=[float(x) for x in k], payoff_type=PayoffType.CALL), maturity=1.0, notional=float(notional))
                # with several scalar controls the FIRST one is written on an underlying of another type than the product's
                # (the mean over one asset is that asset): controls and their market prices are paired by position
                und = Mean() if (j == 0 and len(cv_strikes) >= 2 and dim == 1 and barrier is None) else Spot()
                return Product(und, Vanilla(strike=float(abs(k)), payoff_type=PayoffType.CALL if k >= 0 else PayoffType.PUT),
                               maturity=1.0, notional=float(notional))
            prods = [mk(k, j) for j, k in enumerate(cv_strikes)]
            # price of a control = its discounted sample mean (then the adjusted mean must equal the raw mean)
            prices = [(np.array([np.mean(xs[j][c]) * scale for c in range(dim)]) if isinstance(k, (list, tuple))
                       else float(np.mean(xs[j][0]) * scale)) for j, k in enumerate(cv_strikes)]
            cv = ControlVariates(prods, prices)
        conf = ConfigurationStandard(mc_paths=n, seed=3, control_variates=cv, activate_spot_statistics=spot_stats, nb_of_processes=nproc)
        proc = ScriptedProcess(terms, df)
        engine = eng.Engine(conf, proc)
        real_create = eng.create_mc_statistics
        adds = []

        def create(*a, **k):
            st = real_create(*a, **k)
            r_add = st.add

            def add(simulation, path_manager):
                r_add(simulation, path_manager)
                y = np.atleast_1d(np.asarray(path_manager.payoff, dtype=float))
                adds.append({"e": "Add", "idx": int(simulation), "s": proc.k, "y": [exact_int(v / scale) for v in y]})
            st.add = add
            return st
        eng.create_mc_statistics = create
        try:
            stats = engine.price(product)
        finally:
            eng.create_mc_statistics = real_create
        ev += adds
        raw = stats._payoff_statistics.stats
        price_raw = np.atleast_1d(stats.price(no_control_variates=True))
        err_raw = np.atleast_1d(stats.mc_stddev(no_control_variates=True))
        r = {"e": "Ret", "rows": [[exact_int(v / scale) for v in np.atleast_1d(row)] for row in raw],
             "priceN": [exact_int(p * n / scale, tol=1e-9) for p in price_raw],
             "errN": [exact_int((e / scale) ** 2 * n * n * (n - 1), tol=1e-7) for e in err_raw] if n > 1 else [0] * dim}
        if cv_strikes:
            price_cv = np.atleast_1d(stats.price())
            err_cv = np.atleast_1d(stats.mc_stddev())
            adj = stats._payoff_statistics_with_cv.stats        # (n, dim)
            r["cvPriceN"] = [exact_int(p * n / scale, tol=1e-7) for p in price_cv]
            r["rawVarQ"] = [quantise((e / scale) ** 2, 1e-6) for e in err_raw]
            r["cvVarQ"] = [quantise((e / scale) ** 2, 1e-6) for e in err_cv]
            if len(cv_strikes) == 2:
                # exact adjusted samples for two controls: a_i * det * n, det = determinant of the n^2-scaled covariance
                adj2 = []
                for c in range(dim):
                    x1 = np.array(xs[0][c], dtype=float)
                    x2 = np.array(xs[1][c], dtype=float)
                    c11 = n * float(np.sum(x1 * x1)) - float(np.sum(x1)) ** 2
                    c22 = n * float(np.sum(x2 * x2)) - float(np.sum(x2)) ** 2
                    c12 = n * float(np.sum(x1 * x2)) - float(np.sum(x1)) * float(np.sum(x2))
                    det = c11 * c22 - c12 * c12
                    adj2.append([exact_int(a / scale * det * n, tol=1e-6) if abs(det * n) < 2 ** 28 else 0 for a in adj[:, c]])
                r["adj2N"] = adj2
            if len(cv_strikes) == 1:
                adjN = []
                for c in range(dim):
                    x = np.array(xs[0][c], dtype=float)
                    bden = n * float(np.sum(x * x)) - float(np.sum(x)) ** 2
                    adjN.append([exact_int(a / scale * bden * n, tol=1e-6) for a in adj[:, c]])
                r["adjN"] = adjN
        r["bad"] = count_bad(r) + count_bad(adds)
        ev.append(r)
    except Exception as ex:
        ev.append({"e": "Raise", "what": type(ex).__name__ + ": " + str(ex)[:80]})
    return {"tid": tid, "hdr": hdr, "ev": ev}


def main():
    import logging
    logging.disable(logging.CRITICAL)
    out, tier, seed = sys.argv[1], sys.argv[2], int(sys.argv[3])
    quick = tier == "quick"
    rng = random.Random(seed)
    traces = []
    alphabet = [2, 3, 5]
    nmax = 3 if quick else 4
    sets = []
    for n in range(1, nmax + 1):
        sets += [list(t) for t in itertools.product(alphabet, repeat=n)]
    for _ in range(10 if quick else 60):
        sets.append([rng.randint(0, 9) for _ in range(rng.randint(5, 12))])
    for terms in sets:
        for (strikes, cvk) in (([0], []), ([1], [2]), ([0, 2], []), ([0, 2], [1]), ([1], [0, 3]), ([0, 1], [2, 4]), ([1], [2, -4]),
                               ([0, 3], [-3, 1]), ([0, 2], [[1, 3]]), ([0, 1], [[2, 4], [3, 1]])):
            if len(terms) < 2 and cvk:
                continue
            notional, df = rng.choice([1, 2, 4]), rng.choice([1.0, 0.5, 0.25])
            traces.append(run_case(f"m{len(traces)}", terms, strikes, cvk, notional, df, spot_stats=rng.random() < 0.3))
    # the multi-process branch: every index 0 .. n-1 filled exactly once, also when n is no multiple of the workers' chunks
    for (n, nproc) in ((25, 2), (7, 2), (10, 3)) if quick else ((25, 2), (7, 2), (10, 3), (33, 4), (1000, 16), (26, 2)):
        traces.append(run_case(f"m{len(traces)}", [7] * n, [2], [], 1, 0.5, spot_stats=False, nproc=nproc))
    # path-dependent payoff, spot statistics on and off (three-date paths, some crossing the barrier at the middle date only)
    pairs = [(4, 6), (9, 5), (5, 9), (3, 3), (10, 10), (6, 4), (8, 7), (2, 8)]
    for kind in ("UO", "UI"):
        for spot_stats in (False, True):
            for rep in range(2 if quick else 6):
                terms = [rng.choice(pairs) for _ in range(rng.randint(3, 8))]
                traces.append(run_case(f"m{len(traces)}", terms, [rng.choice([3, 5])], [], rng.choice([1, 2]), 0.5, spot_stats=spot_stats,
                                       barrier=(kind, 7.5)))
    # quiet samples: a large common part (mean / standard deviation of 1e6)
    for rep in range(3 if quick else 10):
        M = 1000000
        terms = [M + rng.randint(0, 3) for _ in range(rng.randint(4, 10))]
        traces.append(run_case(f"m{len(traces)}", terms, [0] if rep % 2 == 0 else [0, 1], [], 1, 1.0, spot_stats=False, offset=M))
    with open(out, "w") as f:
        for t in traces:
            f.write(json.dumps(t, separators=(",", ":")) + "\n")
    print(len(traces))


if __name__ == "__main__":
    main()
