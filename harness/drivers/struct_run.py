"""C02 driver (specification -> code): the internal structures rpylib builds for explicit weight vectors with a dyadic
sum (all probabilities exact in floating point), for Struct_Alias / Struct_Bst / Struct_Huffman.tla.

usage: python -m harness.drivers.struct_run <out.ndjson> <tier> <seed> <alias|bst|huffman|table>
"""
import itertools
import json
import random
import sys
import warnings

import numpy as np

from harness.encode import exact_int

warnings.filterwarnings("ignore")


def shape(node):
    if node.is_leaf:
        return int(node.state) + 1
    return [shape(node.left_node), shape(node.right_node)]


def main():
    out, tier, seed = sys.argv[1], sys.argv[2], int(sys.argv[3])
    only = sys.argv[4]
    quick = tier == "quick"
    rng = random.Random(seed)
    from rpylib.distribution.variate.alias import AliasMethod
    from rpylib.distribution.variate.binarysearchtree import BinarySearchTree
    from rpylib.distribution.variate.huffmantree import HuffmanTree
    from rpylib.distribution.variate.table import TableMethod
    maxlen = 4 if quick else 5
    vectors = []
    for n in range(2, maxlen + 1):
        for w in itertools.product(range(0, 9), repeat=n):
            if sum(w) in (1, 2, 4, 8):
                vectors.append(list(w))
    for _ in range(10 if quick else 60):
        n = rng.choice([6, 7, 9, 12])
        w = [0] * n
        for _k in range(32):
            w[rng.randrange(n)] += 1
        vectors.append(w)
    rng.shuffle(vectors)
    vectors = vectors[:250 if quick else 3000]
    if only == "table":
        # sums 512 / 1024: the probabilities are exact and 256 p_i has a fractional part (the embedded alias method is used)
        for _ in range(60 if quick else 600):
            n = rng.choice([2, 3, 4, 5, 7])
            S = rng.choice([512, 1024])
            cuts = sorted(rng.sample(range(1, S), n - 1))
            w = [b - a for a, b in zip([0] + cuts, cuts + [S])]
            vectors.append(w)
    states = lambda k: np.array(k)
    traces = []
    for w in vectors:
        S = sum(w)
        p = np.array(w, dtype=float) / S
        for kind in (only,):
            hdr = {"kind": kind, "W": w}
            try:
                if kind == "alias":
                    smp = AliasMethod(p.copy(), states)
                    ev = {"q": [exact_int(float(x) * S) for x in smp.q], "J": [int(x) + 1 for x in smp.J]}
                elif kind == "bst":
                    smp = BinarySearchTree(p.copy(), states)
                    ev = {"bst": [exact_int(float(x) * S) for x in smp.bst]}
                elif kind == "table":
                    smp = TableMethod(p.copy(), states)
                    am = smp.alias_method
                    th = [(256 * x) % S for x in w]
                    sth = sum(th)
                    # the embedded alias tables in units of 1 / sum(theta): q_l * sum(theta) is an integer
                    ev = {"table": [int(x) + 1 if int(x) >= 0 else -1 for x in smp.J],
                          "q": [exact_int(float(x) * sth) for x in am.q] if am is not None else [],
                          "J": [int(x) + 1 for x in am.J] if am is not None else []}
                else:
                    smp = HuffmanTree(p.copy(), states)
                    ev = {"shape": shape(smp.head)}
            except Exception as ex:
                ev = {"q": [], "J": [], "bst": [], "shape": [], "table": [], "raise": type(ex).__name__}
            traces.append({"tid": f"s{len(traces)}", "hdr": hdr, "ev": [ev]})
    with open(out, "w") as f:
        for t in traces:
            f.write(json.dumps(t, separators=(",", ":")) + "\n")
    print(len(traces))


if __name__ == "__main__":
    main()
