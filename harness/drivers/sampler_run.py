"""C02 driver: every discrete sampler as a function of the uniform it consumes, on a lattice of uniforms.

usage: python -m harness.drivers.sampler_run <out.ndjson> <tier> <seed>
Weights are integers (p_k = W_k / S); the lattice u_i = (2i+1)/(2N), N a multiple of K*S, never meets a threshold.
"""
import itertools
import json
import random
import sys
import warnings

import numpy as np

from harness import atomic

warnings.filterwarnings("ignore")


class ScriptedUniform:
    """stands in for numpy.random inside rpylib.distribution.univariate.uniform (batch entry points)"""

    def __init__(self):
        self.queue = []

    def uniform(self, low=0.0, high=1.0, size=1):
        n = int(size)
        vals, self.queue = self.queue[:n], self.queue[n:]
        if len(vals) < n:
            raise RuntimeError("scripted uniforms exhausted")
        return low + (high - low) * np.array(vals, dtype=float)


class ScriptedRandom:
    """stands in for the `random` module inside rpylib.distribution.variate.table"""

    def __init__(self):
        self.queue = []

    def getrandbits(self, n):
        return self.queue.pop(0)


def lattice(N):
    return [(2 * i + 1) / (2.0 * N) for i in range(N)]


def vec_traces(rng, quick):
    """alias / table / binary search tree / Huffman tree on explicit probability vectors"""
    import rpylib.distribution.univariate.uniform as um
    import rpylib.distribution.variate.table as tm
    from rpylib.distribution.variate.alias import AliasMethod
    from rpylib.distribution.variate.binarysearchtree import BinarySearchTree
    from rpylib.distribution.variate.huffmantree import HuffmanTree, sample_with_u as huff_u
    from rpylib.distribution.variate.table import TableMethod

    maxlen, maxsum = (4, 6) if quick else (5, 8)
    vectors = []
    for n in range(1, maxlen + 1):
        for w in itertools.product(range(0, maxsum + 1), repeat=n):
            if 1 <= sum(w) <= maxsum:
                vectors.append(list(w))
    # longer vectors: zeros, ties, tiny and dominant entries
    for _ in range(12 if quick else 80):
        n = rng.choice([6, 7, 9, 16, 17, 31, 64])
        kind = rng.choice(["ties", "dominant", "sparse", "ramp"])
        if kind == "ties":
            w = [rng.choice([0, 1, 1, 2]) for _ in range(n)]
        elif kind == "dominant":
            w = [rng.choice([0, 1]) for _ in range(n)]
            w[rng.randrange(n)] = 50
        elif kind == "sparse":
            w = [0] * n
            for _k in range(rng.randint(1, 3)):
                w[rng.randrange(n)] = rng.randint(1, 9)
        else:
            w = [(j % 5) for j in range(n)]
        if sum(w) == 0:
            w[0] = 1
        vectors.append(w)
    scripted, srandom = ScriptedUniform(), ScriptedRandom()
    um.npr = scripted
    real_random = tm.random
    tm.random = srandom
    traces = []
    try:
        for w in vectors:
            K, S = len(w), sum(w)
            pivot = rng.randrange(K)          # the factory maps index k to the state increment -pivot + k
            states = (lambda piv: (lambda k: -piv + np.array(k)))(pivot)
            p = np.array(w, dtype=float) / S
            for method in ("alias", "bst", "huffman", "table"):
                N = K * S * (2 if K * S < 40 else 1)
                us = lattice(N)
                hdr = {"method": method, "W": w, "N": N, "slack": 0}
                ev = []
                try:
                    if method == "alias":
                        smp = AliasMethod(p, states)
                        one = lambda u: int(smp._draw_with_u(u)) + 1
                    elif method == "bst":
                        smp = BinarySearchTree(p, states)
                        one = lambda u: int(smp.sample_with_u(u)) + pivot + 1
                    elif method == "huffman":
                        smp = HuffmanTree(p, states)
                        one = lambda u: int(huff_u(u, smp.head)[0]) + 1
                    else:
                        smp = TableMethod(p, states)
                        # 32-bit integers: all 256 low bytes x a lattice of high parts
                        M = max(4, (2 * N) // 256 + 1) * (1 if quick else 4)
                        ints = [(((2 * j + 1) * (1 << 24)) // (2 * M)) * 256 + lo for lo in range(256) for j in range(M)]
                        N = len(ints)
                        hdr["N"] = N
                        hdr["slack"] = 2 * K + 2      # discretisation of the embedded alias draw (resolution 2^-24)
                        srandom.queue = list(ints)
                        out = smp.sample(size=N)
                        ks = [int(v) + pivot + 1 for v in np.ravel(out)]
                        ev.append({"e": "Sweep", "is": list(range(N)), "ks": ks})
                        traces.append({"tid": f"v{len(traces)}", "hdr": hdr, "ev": ev})
                        continue
                    # history: arbitrary order with repetitions, through the single-uniform entry point
                    order = [rng.randrange(N) for _ in range(min(12, N))]
                    ev.append({"e": "Hist", "is": order, "ks": [one(us[i]) for i in order]})
                    ev.append({"e": "Sweep", "is": list(range(N)), "ks": [one(u) for u in us]})
                    # the batch entry point with the generator scripted (a permutation of the same lattice)
                    perm = list(range(N))
                    rng.shuffle(perm)
                    scripted.queue = [us[i] for i in perm]
                    out = smp.sample(size=N)
                    ks = [int(v) + pivot + 1 for v in np.ravel(out)]
                    ev.append({"e": "Sweep", "is": perm, "ks": ks})
                except Exception as ex:
                    ev.append({"e": "Raise", "what": type(ex).__name__ + ": " + str(ex)[:60]})
                traces.append({"tid": f"v{len(traces)}", "hdr": hdr, "ev": ev})
    finally:
        tm.random = real_random
    return traces


def chain_traces_1d(rng, quick):
    """chains built through the public factory (MarkovChainProcess) on atomic models: every SamplingMethod in 1-d"""
    import rpylib.distribution.univariate.uniform as um
    import rpylib.distribution.variate.table as tm
    from rpylib.distribution.sampling import SamplingMethod
    from rpylib.grid.spatial import CTMCGrid
    from rpylib.process.markovchain.markovchain import MarkovChainProcess

    scripted, srandom = ScriptedUniform(), ScriptedRandom()
    um.npr = scripted
    real_random = tm.random
    tm.random = srandom
    traces = []
    shapes = [(1, 1), (2, 1), (1, 3), (3, 3), (4, 2), (2, 5)] + ([] if quick else [(6, 6), (3, 9), (12, 4), (40, 5)])
    try:
        for (nl, nr) in shapes:
            for step in (8, 16):
                for lvl in (0, 1):
                    unit = atomic.UNIT
                    st = step // (2 ** lvl)
                    # lattice grid: states at multiples of `st` units (st >= 4: even), cell boundaries at even units
                    ks_states = [j * st for j in range(-nl * 2 ** lvl, nr * 2 ** lvl + 1)]
                    axis = np.array([k * unit for k in ks_states])
                    origin = nl * 2 ** lvl
                    atoms = atomic.atoms_everywhere(ks_states[0] - 6, ks_states[-1] + 6, rng, wmax=5,
                                                    density=rng.choice([1.0, 0.6]))
                    # exact target: mass of each state's cell (boundaries: mid-points; end cells stop at the end state)
                    W = []
                    for j, k in enumerate(ks_states):
                        if j == origin:
                            W.append(0)
                            continue
                        lo = (ks_states[max(0, j - 1)] + k) / 2
                        hi = (k + ks_states[min(len(ks_states) - 1, j + 1)]) / 2
                        W.append(sum(w for (a, w) in atoms if lo < a < hi))
                    S = sum(W)
                    if S == 0:
                        continue
                    K = len(W)
                    N = K * S * (2 if K * S < 200 else 1)
                    us = lattice(N)
                    N_alias, us_alias = N, us
                    for method in SamplingMethod:
                        if method == SamplingMethod.BINARYSEARCHTREEADAPTED:
                            continue        # n-d only (the factory refuses it for a 1-d model)
                        # thresholds of the alias construction are multiples of 1/(K S); all others of 1/S
                        if method in (SamplingMethod.ALIAS, SamplingMethod.TABLE):
                            N, us = N_alias, us_alias
                        else:
                            N = S * (4 if S < 400 else 2)
                            us = lattice(N)
                        hdr = {"method": "chain1d:" + method.name, "W": W, "N": N, "slack": 0, "shape": [nl, nr, lvl]}
                        ev = []
                        try:
                            grid = CTMCGrid(h=st * unit, origin_coordinate=origin, axes=[axis.copy()])
                            model = atomic.AtomLevyModel(atoms, sigma=0.0)
                            proc = MarkovChainProcess(model=model, method=method, grid=grid)
                            smp = proc.sampling

                            def idx(inc):
                                inc = int(np.ravel(inc)[0]) if not isinstance(inc, (int, np.integer)) else int(inc)
                                j = origin + inc
                                return j + 1 if 0 <= j < K else 0

                            if method == SamplingMethod.TABLE:
                                M = max(4, (2 * N) // 256 + 1)
                                ints = [(((2 * j + 1) * (1 << 24)) // (2 * M)) * 256 + lo for lo in range(256) for j in range(M)]
                                hdr["N"], hdr["slack"] = len(ints), 2 * K + 2
                                srandom.queue = list(ints)
                                out = smp.sample(size=len(ints))
                                ev.append({"e": "Sweep", "is": list(range(len(ints))), "ks": [idx(v) for v in out]})
                            else:
                                perm = list(range(N))
                                rng.shuffle(perm)
                                if method in (SamplingMethod.INVERSION, SamplingMethod.BINARYSEARCHTREEADAPTED1D):
                                    # stateful samplers: a history first (single-uniform entry point), then the sweep
                                    order = [rng.randrange(N) for _ in range(min(10, N))]
                                    ev.append({"e": "Hist", "is": order, "ks": [idx(smp.sample_with_u(us[i])) for i in order]})
                                    ev.append({"e": "Sweep", "is": list(range(N)), "ks": [idx(smp.sample_with_u(u)) for u in us]})
                                scripted.queue = [us[i] for i in perm]
                                out = smp.sample(size=N)
                                ev.append({"e": "Sweep", "is": perm, "ks": [idx(v) for v in out]})
                        except Exception as ex:
                            ev.append({"e": "Raise", "what": type(ex).__name__ + ": " + str(ex)[:80]})
                        traces.append({"tid": f"c{len(traces)}", "hdr": hdr, "ev": ev})
                    # the inversion sampler with a small storage cap: draws beyond the stored prefix restart the
                    # enumeration; the law must not depend on the history of such draws
                    N = S * (4 if S < 400 else 2)
                    us = lattice(N)
                    for cap in (2, 5):
                        hdr = {"method": f"chain1d:INVERSION:cap{cap}", "W": W, "N": N, "slack": 0, "shape": [nl, nr, lvl]}
                        ev = []
                        try:
                            grid = CTMCGrid(h=st * unit, origin_coordinate=origin, axes=[axis.copy()])
                            smp = MarkovChainProcess(model=atomic.AtomLevyModel(atoms, sigma=0.0), method=SamplingMethod.INVERSION, grid=grid).sampling
                            if not hasattr(smp, "_max_storage"):
                                raise AttributeError("'InversionMethod' object has no attribute '_max_storage'")
                            smp._max_storage = cap
                            order = [rng.choice([N - 1, N - 2, N // 2, rng.randrange(N)]) for _ in range(12)]
                            ev.append({"e": "Hist", "is": order, "ks": [idx(smp.sample_with_u(us[i])) for i in order]})
                            ev.append({"e": "Sweep", "is": list(range(N)), "ks": [idx(smp.sample_with_u(u)) for u in us]})
                            back = list(range(N - 1, -1, -1))
                            ev.append({"e": "Sweep", "is": back, "ks": [idx(smp.sample_with_u(us[i])) for i in back]})
                        except Exception as ex:
                            ev.append({"e": "Raise", "what": type(ex).__name__ + ": " + str(ex)[:80]})
                        traces.append({"tid": f"c{len(traces)}", "hdr": hdr, "ev": ev})
    finally:
        tm.random = real_random
    return traces


def chain_traces_nd(rng, quick):
    """copula chains (d = 2, 3) built through MarkovChainLevyCopula on atomic copula models"""
    import itertools
    import rpylib.distribution.univariate.uniform as um
    from rpylib.distribution.sampling import SamplingMethod
    from rpylib.grid.spatial import CTMCGrid
    from rpylib.process.markovchain.markovchainlevycopula import MarkovChainLevyCopula

    scripted = ScriptedUniform()
    um.npr = scripted
    traces = []
    cases = [(2, 2, 2), (2, 1, 3), (2, 3, 1), (2, 1, 1), (3, 1, 1)] + ([] if quick else [(2, 3, 3), (2, 4, 2), (3, 2, 1), (3, 1, 2), (3, 2, 2)])
    for (d, nl, nr) in cases:
        for rep in range(1 if quick else 2):
            st = 8
            ks_states = [j * st for j in range(-nl, nr + 1)]
            axis = np.array([k * atomic.UNIT for k in ks_states])
            n1 = len(ks_states)
            atoms = atomic.joint_atoms_in_box([ks_states[0]] * d, [ks_states[-1]] * d, d, rng, 40 if d == 2 else 60, wmax=4)

            def cell(j):
                lo = (ks_states[max(0, j - 1)] + ks_states[j]) / 2
                hi = (ks_states[j] + ks_states[min(n1 - 1, j + 1)]) / 2
                return lo, hi
            W, index = [], {}
            for js in itertools.product(range(n1), repeat=d):
                index[tuple(j - nl for j in js)] = len(W) + 1
                if all(j == nl for j in js):
                    W.append(0)
                    continue
                bounds = [cell(j) for j in js]
                W.append(sum(w for (a, w) in atoms if all(b[0] < ai < b[1] for ai, b in zip(a, bounds))))
            S, K = sum(W), len(W)
            if S == 0:
                continue
            N = S * (4 if S < 200 else 2)      # thresholds of both n-d samplers are multiples of 1/S
            us = lattice(N)
            for method in (SamplingMethod.BINARYSEARCHTREEADAPTED, SamplingMethod.INVERSION):
                hdr = {"method": f"chain{d}d:" + method.name, "W": W, "N": N, "slack": 0, "shape": [d, nl, nr]}
                ev = []
                try:
                    grid = CTMCGrid(h=st * atomic.UNIT, origin_coordinate=nl, axes=[axis.copy() for _ in range(d)])
                    model = atomic.atom_copula_model(atoms, d)
                    smp = MarkovChainLevyCopula(model, grid, method).sampling
                    idx = lambda inc: index.get(tuple(int(v) for v in inc), 0)
                    order = [rng.randrange(N) for _ in range(10)]
                    if method == SamplingMethod.INVERSION:
                        ev.append({"e": "Hist", "is": order, "ks": [idx(smp.sample_with_u(us[i])) for i in order]})
                        ev.append({"e": "Sweep", "is": list(range(N)), "ks": [idx(smp.sample_with_u(u)) for u in us]})
                    else:
                        ev.append({"e": "Hist", "is": order, "ks": [idx(v) for v in smp.sample_with_us(np.array([us[i] for i in order]))]})
                        ev.append({"e": "Sweep", "is": list(range(N)), "ks": [idx(v) for v in smp.sample_with_us(np.array(us))]})
                    perm = list(range(N))
                    rng.shuffle(perm)
                    scripted.queue = [us[i] for i in perm]
                    out = smp.sample(size=N)
                    ev.append({"e": "Sweep", "is": perm, "ks": [idx(v) for v in out]})
                except Exception as ex:
                    ev.append({"e": "Raise", "what": type(ex).__name__ + ": " + str(ex)[:80]})
                traces.append({"tid": f"n{len(traces)}", "hdr": hdr, "ev": ev})
            for cap in (4, 9):
                hdr = {"method": f"chain{d}d:INVERSION:cap{cap}", "W": W, "N": N, "slack": 0, "shape": [d, nl, nr]}
                ev = []
                try:
                    grid = CTMCGrid(h=st * atomic.UNIT, origin_coordinate=nl, axes=[axis.copy() for _ in range(d)])
                    smp = MarkovChainLevyCopula(atomic.atom_copula_model(atoms, d), grid, SamplingMethod.INVERSION).sampling
                    if not hasattr(smp, "_max_storage"):
                        raise AttributeError("'InversionMethod' object has no attribute '_max_storage'")
                    smp._max_storage = cap
                    idx = lambda inc: index.get(tuple(int(v) for v in inc), 0)
                    order = [rng.choice([N - 1, N - 2, N // 2, rng.randrange(N)]) for _ in range(12)]
                    ev.append({"e": "Hist", "is": order, "ks": [idx(smp.sample_with_u(us[i])) for i in order]})
                    ev.append({"e": "Sweep", "is": list(range(N)), "ks": [idx(smp.sample_with_u(u)) for u in us]})
                except Exception as ex:
                    ev.append({"e": "Raise", "what": type(ex).__name__ + ": " + str(ex)[:80]})
                traces.append({"tid": f"n{len(traces)}", "hdr": hdr, "ev": ev})
    return traces


def chain_traces_nonlattice(rng, quick):
    """chains on grids whose own cell boundary is not the arithmetic mid-point (probability-step grid) and on geometric
    grids: the target law is the mass of the cells the GRID defines (grid.middle), for every sampling method"""
    import rpylib.distribution.univariate.uniform as um
    import rpylib.distribution.variate.table as tm
    from harness.models import levy_models
    from rpylib.distribution.sampling import SamplingMethod
    from rpylib.grid.spatial import CTMCGridGeometric, CTMCGridProbabilityStep
    from rpylib.process.markovchain.markovchain import MarkovChainProcess
    scripted, srandom = ScriptedUniform(), ScriptedRandom()
    um.npr = scripted
    real_random = tm.random
    tm.random = srandom
    lm = levy_models()
    traces = []
    makers = [("probstep", lambda: CTMCGridProbabilityStep(h=0.04, model=lm[rng.choice(["hem", "merton"])], minimum_probability_step=0.15)),
              ("geombounds", lambda: CTMCGridGeometric.create_with_bounds(h=0.05, truncations=(-0.8, 1.1), dimension=1, nb_of_points_on_each_side=3))]
    try:
        for kind, make in makers:
            for lvl in (0, 1):
                grid = make()
                for _ in range(lvl):
                    grid.refine()
                a = [float(x) for x in grid.axes[0]]
                mids = [float(grid.middle(x, y)) for x, y in zip(a, a[1:])]
                pts = set(a) | set(mids)
                for x, y in zip(a, a[1:]):
                    pts |= {0.5 * (x + y), 0.75 * x + 0.25 * y, 0.25 * x + 0.75 * y}
                pts = sorted(pts)
                pts = [pts[0]] + [q for p_, q in zip(pts, pts[1:]) if q - p_ > 1e-9]
                atoms = [(0.5 * (x + y), rng.randint(1, 4)) for x, y in zip(pts, pts[1:])]
                atoms = [(a[0] - 0.01, 2)] + atoms + [(a[-1] + 0.01, 3)]
                origin = int(grid.origin_coordinate.value)
                K = len(a)
                W = []
                for j in range(K):
                    if j == origin:
                        W.append(0)
                        continue
                    lo = a[0] if j == 0 else mids[j - 1]
                    hi = a[-1] if j == K - 1 else mids[j]
                    W.append(sum(w for (x, w) in atoms if lo < x < hi))
                S = sum(W)
                for method in SamplingMethod:
                    if method == SamplingMethod.BINARYSEARCHTREEADAPTED:
                        continue
                    N = K * S * 2 if method in (SamplingMethod.ALIAS, SamplingMethod.TABLE) else 4 * S
                    us = lattice(N)
                    hdr = {"method": f"chain1d:{kind}:l{lvl}:" + method.name, "W": W, "N": N, "slack": 0, "shape": [K, origin, lvl]}
                    ev = []
                    try:
                        import copy
                        model = atomic.AtomLevyModel(atoms, sigma=0.0, unit=None)
                        smp = MarkovChainProcess(model=model, method=method, grid=copy.deepcopy(grid)).sampling

                        def idx(inc):
                            inc = int(np.ravel(inc)[0]) if not isinstance(inc, (int, np.integer)) else int(inc)
                            j = origin + inc
                            return j + 1 if 0 <= j < K else 0
                        if method == SamplingMethod.TABLE:
                            M = max(4, (2 * N) // 256 + 1)
                            ints = [(((2 * j + 1) * (1 << 24)) // (2 * M)) * 256 + lo for lo in range(256) for j in range(M)]
                            hdr["N"], hdr["slack"] = len(ints), 2 * K + 2
                            srandom.queue = list(ints)
                            out = smp.sample(size=len(ints))
                            ev.append({"e": "Sweep", "is": list(range(len(ints))), "ks": [idx(v) for v in out]})
                        else:
                            scripted.queue = list(us)
                            out = smp.sample(size=N)
                            ev.append({"e": "Sweep", "is": list(range(N)), "ks": [idx(v) for v in out]})
                    except Exception as ex:
                        ev.append({"e": "Raise", "what": type(ex).__name__ + ": " + str(ex)[:80]})
                    traces.append({"tid": f"g{len(traces)}", "hdr": hdr, "ev": ev})
    finally:
        tm.random = real_random
    return traces


def normalise(traces):
    """sweeps are sent in lattice order (ks[i] = state of lattice point i); a sweep that is not a permutation of the
    lattice is sent as it is with its points (the specification then rejects its length / content)"""
    for t in traces:
        for e in t["ev"]:
            if e["e"] == "Sweep":
                pts = e.pop("is")
                if sorted(pts) == list(range(len(pts))):
                    ks = [0] * len(pts)
                    for i, k in zip(pts, e["ks"]):
                        ks[i] = k
                    e["ks"] = ks
    return traces


def main():
    import logging
    logging.disable(logging.CRITICAL)
    out, tier, seed = sys.argv[1], sys.argv[2], int(sys.argv[3])
    quick = tier == "quick"
    rng = random.Random(seed)
    traces = normalise(vec_traces(rng, quick) + chain_traces_1d(rng, quick) + chain_traces_nd(rng, quick) + chain_traces_nonlattice(rng, quick))
    with open(out, "w") as f:
        for t in traces:
            f.write(json.dumps(t, separators=(",", ":")) + "\n")
    print(len(traces))


if __name__ == "__main__":
    main()
