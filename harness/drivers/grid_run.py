"""C13 driver: every grid constructor, then 0..k refinements; one event per specification action.

usage: python -m harness.drivers.grid_run <out.ndjson> <tier> <seed>
Floats are rank-encoded per trace (order and equality survive exactly); h and origin are exact integers.
"""
import json
import random
import sys
import warnings

import numpy as np

from harness.encode import exact_int, quantise, ranks
from harness.models import copula_models, levy_models

warnings.filterwarnings("ignore")


class Pool:
    """Collects floats of one trace; replaced by ranks at the end."""

    def __init__(self):
        self.vals = []

    def add(self, x):
        self.vals.append(float(x))
        return ("R", len(self.vals) - 1)

    def seq(self, xs):
        return [self.add(x) for x in xs]

    def resolve(self, obj, rk=None):
        if rk is None:
            rk = ranks(self.vals)
        if isinstance(obj, tuple) and len(obj) == 2 and obj[0] == "R":
            return rk[obj[1]]
        if isinstance(obj, dict):
            return {k: self.resolve(v, rk) for k, v in obj.items()}
        if isinstance(obj, (list, tuple)):
            return [self.resolve(v, rk) for v in obj]
        return obj


def snapshot(grid, pool, h0, lvl):
    h = grid.h
    d = len(grid.axes)
    oc = grid.origin_coordinate
    ov = list(oc.value) if isinstance(oc.value, tuple) else [oc.value] * d
    ids = {}
    alias = []
    for a in grid.axes:
        alias.append(ids.setdefault(id(a), len(ids) + 1))
    return {
        "axes": [pool.seq(a) for a in grid.axes],
        "nbrs": neighbours(grid, pool),
        "origin": [int(x) for x in ov],
        "zero": pool.add(0.0), "hm": pool.add(-h), "hp": pool.add(h),
        "trunc": [[pool.add(t[0]), pool.add(t[1])] for t in grid.truncations],
        "hq": exact_int(h * 2 ** lvl / h0, tol=1e-12),
        "alias": alias, "dim": d,
        # number of states of the grid as the grid reports it, modulo three primes below 2^15 (TLC multiplies the axis lengths)
        "cnt": count_mods(grid),
    }


PRIMES = (32749, 32719, 32717)


def count_mods(grid):
    try:
        n = int(grid.number_of_points())
    except Exception:
        return [-1, -1, -1]
    return [n % p for p in PRIMES]


def neighbours(grid, pool):
    """what the grid's own helpers say about every state of every axis: [left_point, right_point, outside] (the diagonal
    coordinate (k, .., k) is used on grids of several dimensions; -1 / n must be outside, 0 .. n-1 inside)"""
    from rpylib.grid.grid import CoordinateND
    d = len(grid.axes)
    n = min(len(a) for a in grid.axes)
    out = {"left": [[] for _ in range(d)], "right": [[] for _ in range(d)], "inside": [], "beyond": []}
    for k in range(n):
        c = k if d == 1 else CoordinateND([k] * d)
        lp, rp = grid.left_point(c), grid.right_point(c)
        lp = [lp] if d == 1 else list(lp)
        rp = [rp] if d == 1 else list(rp)
        for j in range(d):
            out["left"][j].append(pool.add(float(lp[j])))
            out["right"][j].append(pool.add(float(rp[j])))
        out["inside"].append(0 if bool(grid.outside(c)) else 1)
    for k in (-1, max(len(a) for a in grid.axes)):
        c = k if d == 1 else CoordinateND([k] * d)
        try:
            out["beyond"].append(1 if bool(grid.outside(c)) else 0)
        except Exception:
            out["beyond"].append(1)
    return out


def mids_of(grid, pool):
    out = []
    for a in grid.axes:
        out.append([pool.add(grid.middle(x, y)) for x, y in zip(a, a[1:])])
    return out


def scenario(tid, kind, make, nref, extra=None):
    pool = Pool()
    ev = []
    try:
        grid = make()
        h0 = grid.h
        c = snapshot(grid, pool, h0, 0)
        c["e"] = "Construct"
        if extra:
            c.update(extra(grid, pool))
        ev.append(c)
        for k in range(nref):
            mids = mids_of(grid, pool)
            grid.refine()
            r = snapshot(grid, pool, h0, k + 1)
            r["e"] = "Refine"
            r["mids"] = mids
            ev.append(r)
    except Exception as ex:
        ev.append({"e": "Raise", "what": type(ex).__name__ + ": " + str(ex)[:80]})
    return {"tid": tid, "hdr": {"kind": kind}, "ev": pool.resolve(ev)}


def tail_extra(margins, h, p, onedim):
    def f(grid, pool):
        l, r = grid.truncations[0]
        out = []
        for m in margins:
            nu = m.levy_triplet.nu
            rr = nu.integrate(h / 2, r) / nu.integrate(h / 2, np.inf)
            ll = nu.integrate(l, -h / 2) / nu.integrate(-np.inf, -h / 2)
            out += [quantise(rr - p, 1e-12), quantise(ll - p, 1e-12)]
        return {"tailq": out, "tail_exact": bool(onedim)}
    return f


def step_extra(model, h, p):
    def f(grid, pool):
        nu = model.levy_triplet.nu
        lam = nu.integrate(-np.inf, -h / 2) + nu.integrate(h / 2, np.inf)
        ax = grid.axes[0]
        qs = [quantise(nu.integrate(a, b) / lam - p, 1e-9) for a, b in zip(ax, ax[1:])]
        return {"stepq": qs}
    return f


def main():
    out, tier, seed = sys.argv[1], sys.argv[2], int(sys.argv[3])
    from rpylib.grid.spatial import (CTMCCredit, CTMCGrid, CTMCGridGeometric, CTMCGridProbabilityStep, CTMCUniformGrid)
    from rpylib.grid.time import TimeGrid
    rng = random.Random(seed)
    quick = tier == "quick"
    lm, cm = levy_models(), copula_models()
    traces = []
    nref = 3 if quick else 4

    def add(kind, make, n=nref, extra=None):
        traces.append(scenario(f"g{len(traces)}", kind, make, n, extra))

    # fixed-size uniform grids (lattice): every small shape, dimensions 1..3
    for nb in ([2, 3, 4, 5, 8, 9] if quick else list(range(2, 14))):
        for dim in (1, 2, 3):
            h = rng.choice([0.5, 0.1, 0.03, 1.0])
            add("fixed", lambda h=h, nb=nb, dim=dim: CTMCUniformGrid.create_from_fixed_nb_of_points(h=h, nb_of_points=nb, dimension=dim),
                n=nref + 1 if dim == 1 else nref)
    # geometric with bounds
    for nbs in (2, 3, 5):
        for dim in (1, 2, 3):
            h = rng.choice([0.1, 0.01])
            tr = (-rng.choice([0.5, 1.0, 2.5]), rng.choice([0.7, 1.0, 3.0]))
            add("geombounds", lambda h=h, tr=tr, dim=dim, nbs=nbs: CTMCGridGeometric.create_with_bounds(h=h, truncations=tr, dimension=dim, nb_of_points_on_each_side=nbs))
    # model-based constructors, 1-d
    hs = [0.05, 0.02] if quick else [0.1, 0.05, 0.02, 0.01]
    from rpylib.grid.spatial import compute_truncation

    def in_domain(m, h, p):
        """precondition of the truncation-based constructors: the truncation lies beyond the first state +-h"""
        l, r = compute_truncation(model=m, h=h, truncation_probability=p)
        return abs(l) > 1.0001 * h and r > 1.0001 * h

    for name, m in lm.items():
        for h in hs + [0.1]:
            p = rng.choice([0.99999, 0.999, 0.99])
            if not in_domain(m, h, p):
                continue
            add("uniform", lambda h=h, m=m, p=p: CTMCUniformGrid(h=h, model=m, truncation_probability=p), n=2,
                extra=tail_extra([m], h, p, True))
            add("geometric", lambda h=h, m=m, p=p: CTMCGridGeometric(h=h, model=m, nb_of_points_on_each_side=rng.choice([2, 3, 6]), truncation_probability=p),
                extra=tail_extra([m], h, p, True))
        hp = rng.choice([0.02, 0.04])
        ps = rng.choice([0.05, 0.1])
        add("probstep", lambda hp=hp, m=m, ps=ps: CTMCGridProbabilityStep(h=hp, model=m, minimum_probability_step=ps), n=2 if quick else 3,
            extra=step_extra(m, hp, ps))
        add("probstep2d", lambda hp=hp, m=m, ps=ps: CTMCGridProbabilityStep(h=hp, model=m, minimum_probability_step=ps, dimension=2), n=2)
        l, _ = None, None
        for frac in (0.5, 0.9, 0.2, 0.99):
            def credit1(m=m, frac=frac):
                from rpylib.grid.spatial import compute_truncation
                l, r = compute_truncation(model=m, h=0.02)
                return CTMCCredit(h=0.02, level_a=float(min(l * frac, -0.021)), model=m)
            add("credit1d", credit1)
    # copula models: shared axis (uniform / geometric) and per-axis storage (credit)
    for name, m in cm.items():
        d = m.dimension_model()
        add("uniform_nd", lambda m=m: CTMCUniformGrid(h=0.1, model=m, truncation_probability=0.999), n=1,
            extra=tail_extra(m.models, 0.1, 0.999, False))
        add("geometric_nd", lambda m=m: CTMCGridGeometric(h=0.05, model=m, nb_of_points_on_each_side=3), n=2,
            extra=tail_extra(m.models, 0.05, 0.99999, False))
        for sym in (True, False):
            for fr in ([0.3, 0.5, 0.7], [0.8, 0.1, 0.4], [0.6, 0.6, 0.6]):
                def creditn(m=m, sym=sym, fr=fr, d=d):
                    from rpylib.grid.spatial import compute_truncation
                    l, r = compute_truncation(model=m, h=0.02)
                    return CTMCCredit(h=0.02, level_a=[l * f for f in fr[:d]], model=m, symmetric_grid=sym)
                add("credit_nd", creditn, n=2)
            # thresholds deep in the tail, close to the left truncation
            def deep(m=m, sym=sym, d=d):
                from rpylib.grid.spatial import compute_truncation
                l, r = compute_truncation(model=m, h=0.02)
                lv = [l * 0.97, l * 0.8, l * 0.5][:d]
                return CTMCCredit(h=0.02, level_a=lv, model=m, symmetric_grid=sym)
            add("credit_nd_deep", deep, n=2)
    # user-built grids with distinct per-axis arrays
    for _ in range(6 if quick else 30):
        d = rng.choice([1, 2, 3])
        nl, nr = rng.randint(1, 4), rng.randint(1, 4)
        h = 0.25

        def custom(d=d, nl=nl, nr=nr, h=h, s=rng.randint(0, 10 ** 6)):
            r2 = random.Random(s)
            axes = []
            for _k in range(d):   # distinct interior states per axis, equal end points, same origin index
                left = sorted(r2.sample([-h - j * 0.125 for j in range(1, 40)], nl - 1))
                right = sorted(r2.sample([h + j * 0.125 for j in range(1, 40)], nr - 1))
                axes.append(np.array([-6.0] + left + [-h, 0.0, h] + right + [6.0]))
            return CTMCGrid(h=h, origin_coordinate=nl + 1, axes=axes)
        add("custom", custom, n=2)
    # time grids
    tg = []
    for (s, e, n) in [(0.0, 1.0, 2), (0.0, 1.0, 13), (0.5, 2.0, 4), (0.0, 1 / 12, 3), (1.0, 1.0, 1), (0.0, 3.0, 7)]:
        try:
            g = TimeGrid(start=s, end=e, num=n)
            pool = Pool()
            ev = [{"e": "TimeGrid", "grid": pool.seq(g.grid), "start": pool.add(s), "end": pool.add(e), "num": n, "len": int(len(g)),
                   "stepq": [quantise((b - a) - (e - s) / max(n - 1, 1), 1e-12) for a, b in zip(g.grid, g.grid[1:])]}]
            tg.append({"tid": f"t{len(tg)}", "hdr": {"kind": "time"}, "ev": pool.resolve(ev)})
        except Exception as ex:
            tg.append({"tid": f"t{len(tg)}", "hdr": {"kind": "time"}, "ev": [{"e": "Raise", "what": type(ex).__name__}]})
    for (s, e, n, kind) in [(-1.0, 1.0, 2, "neg"), (2.0, 1.0, 2, "rev")]:
        try:
            TimeGrid(start=s, end=e, num=n)
            tg.append({"tid": f"t{len(tg)}", "hdr": {"kind": "time"}, "ev": [{"e": "TimeGridAccepted", "why": kind}]})
        except ValueError:
            tg.append({"tid": f"t{len(tg)}", "hdr": {"kind": "time"}, "ev": [{"e": "TimeGridRefused", "why": kind}]})
    # the number of states of a very large grid (3 axes of 2^21 + 1 states: beyond 2^63 in total), by its residues
    try:
        n1 = 2 ** 21 + 1
        hbig = 2.0 ** -20
        axis = (np.arange(n1) - 2 ** 20) * hbig
        big = CTMCGrid(h=hbig, origin_coordinate=2 ** 20, axes=[axis] * 3)
        tg.append({"tid": f"t{len(tg)}", "hdr": {"kind": "count"}, "ev": [{"e": "Count", "sizes": [n1, n1, n1], "cnt": count_mods(big)}]})
    except Exception as ex:
        tg.append({"tid": f"t{len(tg)}", "hdr": {"kind": "count"}, "ev": [{"e": "Raise", "what": type(ex).__name__ + ": " + str(ex)[:60]}]})
    with open(out, "w") as f:
        for t in traces + tg:
            f.write(json.dumps(t, separators=(",", ":")) + "\n")
    print(len(traces) + len(tg))


if __name__ == "__main__":
    main()
