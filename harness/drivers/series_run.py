"""C15 driver for the series-representation simulator (rpylib/process/levycopulaseries.py) with every random source
scripted: numpy.random.poisson returns the scripted counts, numpy.random.uniform hands out the scripted stream
(numerators over 64) in order, the j-th normal drawn is j.  The copula's inverse conditional distribution and the
model's inverse tail integrals are replaced on the (real) LevyCopulaModel object by the integer stand-ins of Series.tla.

usage: python -m harness.drivers.series_run <out.ndjson> <tier> <seed>
"""
import json
import random
import sys
import warnings

import numpy as np

from harness import atomic
from harness.encode import count_bad, exact_int

warnings.filterwarnings("ignore")
U = atomic.UNIT
TICKS = 8
DEN = 64
TAU = 32.0


class Script:
    def __init__(self, counts, stream):
        self.counts = list(counts)
        self.stream = list(stream)
        self.pos = 0
        self.normals = 0
        self.poisson_calls = 0
        self.short = False

    def poisson(self, lam=1.0, size=None):
        self.poisson_calls += 1
        n = int(np.prod(size)) if size is not None else 1
        vals = (self.counts + [0] * n)[:n]
        return np.array(vals, dtype=int) if size is not None else int(vals[0])

    def uniform(self, low=0.0, high=1.0, size=None):
        n = int(np.prod(size)) if size is not None else 1
        if self.pos + n > len(self.stream):
            self.short = True
            self.stream += [0] * (self.pos + n - len(self.stream))
        vals = np.array(self.stream[self.pos:self.pos + n], dtype=float) / DEN
        self.pos += n
        vals = low + (high - low) * vals
        return vals if size is not None else float(vals[0])

    def normal(self, loc=0.0, scale=1.0, size=None):
        n = int(np.prod(size)) if size is not None else 1
        vals = np.arange(self.normals + 1, self.normals + n + 1, dtype=float)
        self.normals += n
        return vals.reshape(size) if size is not None else float(vals[0])


KEEP = {}


def inv_stub(g, y):
    return np.asarray(g, dtype=float) + DEN * np.asarray(y, dtype=float) - 32.0


def ivt_stub(i, x):
    x = float(x)
    return ((i + 1) * x + (3.0 if x >= 0 else -3.0)) * U


def product_for(n_dates, maturity_ticks):
    from rpylib.grid.time import TimeGrid
    from rpylib.product.payoff import Forward
    from rpylib.product.product import Product
    from rpylib.product.underlying import Spot

    class UniformDatedSpot(Spot):
        def compute_times_grid(self, maturity):
            return TimeGrid(start=0.0, end=maturity, num=n_dates)
    return Product(UniformDatedSpot(), Forward(0.0), maturity=maturity_ticks / TICKS)


def one(rng, quick):
    from rpylib.process.levycopulaseries import LevyCopula2dSeriesRepresentation
    n1, n2 = rng.randint(0, 5), rng.randint(0, 5)
    nint = rng.choice([1, 2, 4])
    step = rng.choice([1, 2, 3, 4])
    dates = [k * step for k in range(nint + 1)]
    stream = [rng.randrange(DEN) for _ in range(6 * (n1 + n2) + 8)]
    # some scripts put jump times exactly on a date, at 0, and acceptance draws exactly at the threshold
    for j in range(len(stream)):
        if rng.random() < 0.15:
            stream[j] = rng.choice([0, 16, 32, 48, 63])
    sig = [rng.choice([0, 8, 16]), rng.choice([0, 8, 16])]
    hdr = {"kind": "series", "n": [n1, n2], "dates": dates, "stream": stream, "sig": sig}
    ev = []
    sc = Script([n1, n2], stream)
    saved = (np.random.poisson, np.random.uniform, np.random.normal)
    try:
        # most scripts re-use the simulator object of the previous one (re-initialised for the new product and the new
        # diffusion coefficients), some start from a fresh one
        if KEEP.get("proc") is None or rng.random() < 0.3:
            atoms = [((1, 1), 1), ((-1, -1), 1), ((3, -3), 1), ((-3, 3), 1)]
            model = atomic.atom_copula_model(atoms, 2, finite_variation=True)
            model.copula.inverse_conditional_distribution = inv_stub
            model.inverse_tail_integral = lambda i, x: ivt_stub(i, x)
            KEEP["model"], KEEP["proc"] = model, LevyCopula2dSeriesRepresentation(model, tau=TAU)
            hdr["fresh"] = 1
        model, proc = KEEP["model"], KEEP["proc"]
        for m, s in zip(model.models, sig):
            m.levy_triplet.sigma = s * U
        np.random.poisson, np.random.uniform, np.random.normal = sc.poisson, sc.uniform, sc.normal
        proc.initialisation(product_for(nint + 1, dates[-1]))
        npaths = 2
        for _ in range(npaths):
            sc.pos, sc.normals = 0, 0
            path = proc.simulate_one_path()
            times = np.asarray(path.jump_times.grid if hasattr(path.jump_times, "grid") else path.jump_times, dtype=float)
            jp = np.asarray(path.jump_path, dtype=float)
            dp = np.asarray(path.diffusion_path, dtype=float)
            e = {"e": "SeriesPath", "times": [exact_int(t * TICKS, tol=1e-9) for t in times],
                 "jump": [[exact_int(v / U, tol=1e-9) for v in row] for row in jp],
                 "used": sc.pos, "short": 1 if sc.short else 0, "normals": sc.normals}
            dsq = []
            for row, sg in zip(dp, sig):
                d = np.diff(row)
                dsq.append([exact_int((x / (sg * U)) ** 2 * TICKS, tol=1e-7) if sg else exact_int(x) for x in d])
            e["dsq"] = dsq
            e["d0"] = [exact_int(row[0]) for row in dp]
            e["bad"] = count_bad(e)
            ev.append(e)
    except Exception as ex:
        KEEP.clear()
        ev.append({"e": "Raise", "what": type(ex).__name__ + ": " + str(ex)[:80]})
    finally:
        np.random.poisson, np.random.uniform, np.random.normal = saved
    return {"hdr": hdr, "ev": ev}


def dates_trace():
    """the observation dates of the spot and of the Asian underlying of every discretisation, maturities in quarters"""
    from rpylib.product.underlying import Asian, Discretisation, Spot
    from harness.encode import quantise
    rows = []
    try:
        for m4 in (1, 2, 3, 4, 6, 8, 12, 20):
            mat = m4 / 4.0
            cases = [("spot", "", Spot())] + [("asian", d.name, Asian(d)) for d in Discretisation]
            for kind, disc, und in cases:
                row = {"kind": kind, "disc": disc, "m4": m4, "raised": 0, "n": 0, "first": 0, "last": 0, "uneven": 0}
                try:
                    g = np.asarray(und.compute_times_grid(maturity=mat).grid, dtype=float)
                    steps = np.diff(g)
                    row.update(n=int(len(g)), first=quantise(g[0], 1e-6), last=quantise(g[-1], 1e-6),
                               uneven=quantise(float(np.max(np.abs(steps - steps.mean()))), 1e-12))
                except ValueError:
                    row["raised"] = 1
                rows.append(row)
        ev = [{"e": "Dates", "rows": rows}]
        # the jump times of an interval given their number (levyprocess.jump_times_from_nb_of_jumps): n uniforms scaled by
        # the length of the interval, sorted; numpy's uniform source scripted with numerators over 64, dt in eighths
        from rpylib.process.levyprocess import LevyProcess
        saved = np.random.random_sample
        jt = []
        try:
            import random as _r
            rr = _r.Random(7)
            for k in (1, 2, 5, 8, 24):
                for n in (0, 1, 2, 5):
                    js = [rr.randrange(64) for _ in range(n)]
                    np.random.random_sample = lambda size=None, js=js: np.array(js[:size], dtype=float) / 64.0
                    res = LevyProcess.jump_times_from_nb_of_jumps(k / 8.0, n)
                    jt.append({"k": k, "js": js, "res": [exact_int(float(t) * 512.0, tol=1e-9) for t in np.ravel(res)]})
        finally:
            np.random.random_sample = saved
        ev.append({"e": "JumpTimes", "rows": jt})
    except Exception as ex:
        ev = [{"e": "Raise", "what": type(ex).__name__ + ": " + str(ex)[:80]}]
    return {"hdr": {"kind": "product-dates"}, "ev": ev}


def main():
    out, tier, seed = sys.argv[1], sys.argv[2], int(sys.argv[3])
    quick = tier == "quick"
    rng = random.Random(seed + 71)
    traces = [one(rng, quick) for _ in range(120 if quick else 1500)]
    with open(out, "w") as f:
        for k, t in enumerate(traces):
            f.write(json.dumps({"tid": f"s{k}", "hdr": t["hdr"], "ev": t["ev"]}) + "\n")
    if len(sys.argv) > 4:
        with open(sys.argv[4], "w") as f:
            t = dates_trace()
            f.write(json.dumps({"tid": "d0", "hdr": t["hdr"], "ev": t["ev"]}) + "\n")
    print(json.dumps({"traces": len(traces)}))


if __name__ == "__main__":
    main()
