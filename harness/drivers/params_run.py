"""C20 driver (decided half): assignment histories on real parameter objects + re-initialisation vs direct construction;
the calibration contract.   usage: python -m harness.drivers.params_run <out.ndjson> <tier> <seed>
"""
import copy
import itertools
import json
import random
import sys
import warnings

import numpy as np

from harness.encode import quantise, ranks

warnings.filterwarnings("ignore")


def fingerprint_values(obj):
    """every numeric attribute of a parameter object (cached ones included), sorted by name"""
    out = []
    for k in sorted(vars(obj)):
        v = vars(obj)[k]
        if isinstance(v, (int, float, np.floating, np.integer)):
            out.append(float(v))
    return out


def model_values(exp_cls, params):
    m = exp_cls(spot=100.0, r=0.03, d=0.01, parameters=params)
    vals = [float(m.omega)]
    for x in (0.3, 1.0, -0.7):
        z = m.levy_model.levy_exponent(x)
        vals += [float(np.real(z)), float(np.imag(z))]
    try:
        vals.append(float(m.levy_model.levy_triplet.nu.integrate(0.05, 0.4)))
        vals.append(float(m.levy_model.levy_triplet.nu.integrate(-0.5, -0.02)))
    except Exception:
        vals.append(float("nan"))
    try:
        vals.append(float(m.levy_model.cumulant.cumulant2(1.0)))
    except Exception:
        pass
    return vals


def main():
    out, tier, seed = sys.argv[1], sys.argv[2], int(sys.argv[3])
    quick = tier == "quick"
    rng = random.Random(seed)
    from rpylib.model.levymodel.mixed.blackscholes import BlackScholesParameters, BlackScholesModel as ExponentialOfBlackScholesModel
    from rpylib.model.levymodel.mixed.hem import ExponentialOfHEMModel, HEMParameters
    from rpylib.model.levymodel.mixed.merton import ExponentialOfMertonModel, MertonParameters
    from rpylib.model.levymodel.purejump.cgmy import CGMYParameters, ExponentialOfCGMYModel
    from rpylib.model.levymodel.purejump.variancegamma import ExponentialOfVarianceGammaModel, VGParameters
    classes = {
        "HEM": (HEMParameters, ExponentialOfHEMModel, dict(sigma=0.1, p=0.6, eta1=25.0, eta2=40.0, intensity=5.0),
                dict(sigma=[0.05, 0.2, -0.1], p=[0.3, 0.8, 0.0], eta1=[12.0, 30.0, -1.0], eta2=[20.0, 50.0, 0.0], intensity=[2.0, 7.0, -3.0])),
        "VG": (VGParameters, ExponentialOfVarianceGammaModel, dict(sigma=0.1, nu=0.06, theta=0.1),
               dict(sigma=[0.15, 0.3, -0.2], nu=[0.02, 0.1], theta=[0.05, -0.1])),
        "CGMY": (CGMYParameters, ExponentialOfCGMYModel, dict(c=1.0, g=15.0, m=20.0, y=0.5),
                 dict(c=[0.5, 2.0, 0.0], g=[10.0, 25.0, -1.0], m=[12.0, 30.0, -2.0], y=[0.2, 0.8, 1.3, 2.5])),
        "MERTON": (MertonParameters, ExponentialOfMertonModel, dict(sigma=0.1, mu_j=0.01, sigma_j=0.05, intensity=5.0),
                   dict(sigma=[0.2, 0.05, -0.1], mu_j=[0.05, 0.0, -0.2], sigma_j=[0.1, 0.02, 0.0], intensity=[1.0, 8.0, -1.0])),
        "BS": (BlackScholesParameters, ExponentialOfBlackScholesModel, dict(sigma=0.2), dict(sigma=[0.1, 0.35, -0.3])),
    }
    traces = []
    for cname, (pcls, ecls, start, choices) in classes.items():
        names = list(start)
        assigns = [(k, v) for k in names for v in choices[k]]
        hists = []
        for n in (1, 2, 3):
            combos = list(itertools.product(assigns, repeat=n))
            rng.shuffle(combos)
            hists += combos[:(15 if quick else 80)]
        # all ordered batches of distinct names (every "assign several fields, then initialise once" history)
        for n in range(1, len(names) + 1):
            for perm in itertools.permutations(names, n):
                hists.append(tuple((k, choices[k][0]) for k in perm))
        ev = []
        for h in hists:
            try:
                obj = pcls(**start)
                cur = dict(start)
                rejected = []
                for (k, v) in h:
                    before = getattr(obj, k)
                    try:
                        setattr(obj, k, v)
                        ok_assigned = True
                    except ValueError:
                        ok_assigned = False
                    # admissibility as the constructor sees it: a fresh object with this value can be built or not
                    try:
                        pcls(**dict(start, **{k: v}))
                        admissible = True
                    except ValueError:
                        admissible = False
                    rejected.append([1 if admissible else 0, 1 if ok_assigned else 0, 1 if (ok_assigned or getattr(obj, k) == before) else 0])
                    if ok_assigned:
                        cur[k] = v
                    if rng.random() < 0.3:
                        obj.initialisation()
                obj.initialisation()
                fresh = pcls(**cur)
                a = fingerprint_values(obj) + model_values(ecls, obj)
                b = fingerprint_values(fresh) + model_values(ecls, fresh)
                if len(a) != len(b):
                    ev.append({"e": "Rebuild", "pairs": [[0, 1]], "assign": rejected})
                    continue
                rk = ranks(a + b)
                ev.append({"e": "Rebuild", "pairs": [[rk[i], rk[len(a) + i]] for i in range(len(a))], "assign": rejected})
            except Exception as ex:
                ev.append({"e": "Raise", "what": type(ex).__name__ + ": " + str(ex)[:80]})
        for i in range(0, len(ev), 100):
            traces.append({"tid": f"y{len(traces)}", "hdr": {"kind": "params:" + cname}, "ev": ev[i:i + 100]})
    # ---- declared domains: the constraint attached to every parameter, probed below / at / above its bound --------------
    # (kind, bound) as declared in the parameter classes: pos = ">= 0", spos = "> 0", slt = "< bound"
    declared = {
        "HEM": dict(sigma=("pos", 0), p=("spos", 0), eta1=("spos", 0), eta2=("spos", 0), intensity=("pos", 0)),
        "VG": dict(sigma=("pos", 0)),
        "CGMY": dict(c=("spos", 0), g=("pos", 0), m=("pos", 0), y=("slt", 2)),
        "MERTON": dict(sigma=("pos", 0), mu_j=("pos", 0), sigma_j=("spos", 0), intensity=("pos", 0)),
        "BS": dict(sigma=("pos", 0)),
    }
    for cname, (pcls, ecls, start, choices) in classes.items():
        ev = []
        for field, (kind, bound) in declared[cname].items():
            for tenths in (-5, -1, 0, 1, 5):
                v = bound + tenths / 10.0
                for where in ("assign", "construct"):
                    try:
                        if where == "assign":
                            obj = pcls(**start)
                            setattr(obj, field, v)
                            ok = getattr(obj, field) == v
                        else:
                            pcls(**dict(start, **{field: v}))
                            ok = True
                    except ValueError:
                        ok = False
                    except Exception:
                        ok = True          # accepted by the constraint; what the model makes of the value is another matter
                    ev.append({"e": "Domain", "field": field, "ckind": kind, "bound10": int(bound * 10), "v10": int(round(v * 10)),
                               "where": where, "accepted": bool(ok)})
        traces.append({"tid": f"y{len(traces)}", "hdr": {"kind": "domain:" + cname}, "ev": ev})
    # ---- calibration contract ------------------------------------------------------------------------------------
    from harness.models import exp_models
    from rpylib.model.utils import default_calibration, run_default_calibration, create_exponential_of_levy_model, ModelType
    from rpylib.numerical.closedform.cfblackscholes import CFBlackScholes
    from rpylib.numerical.cosmethod import COSPricer
    from rpylib.product.payoff import PayoffType, Vanilla
    from rpylib.product.product import Product
    from rpylib.product.underlying import Spot
    em = exp_models()
    ev = []
    for name in ("hem", "hem2", "merton", "merton2", "vg", "cgmy05"):
        for (T, vol) in ((1.0, 0.2), (0.5, 0.3)) if quick else ((1.0, 0.2), (0.5, 0.3), (2.0, 0.25), (0.25, 0.4)):
            model = em[name]
            before = repr(model.levy_model.parameters) + repr(fingerprint_values(model.levy_model.parameters))
            try:
                cal = run_default_calibration(model, maturity=T, bs_sigma=vol)
                conf = default_calibration[model.model_type]
                value = float(getattr(cal.levy_model.parameters, conf.parameter))
                call = Product(Spot(), Vanilla(strike=model.spot, payoff_type=PayoffType.CALL), maturity=T)
                price = float(np.ravel(COSPricer(cal).price(product=call))[0])
                bs = create_exponential_of_levy_model(ModelType.BLACKSCHOLES)(spot=model.spot, r=model.r, d=model.d, sigma=vol)
                target = float(np.ravel(CFBlackScholes(bs).call(strike=model.spot, maturity=T))[0])
                after = repr(model.levy_model.parameters) + repr(fingerprint_values(model.levy_model.parameters))
                ev.append({"e": "Calib", "name": name, "lo": quantise(conf.parameter_interval[0], 1e-6), "hi": quantise(conf.parameter_interval[1], 1e-6),
                           "res": quantise(value, 1e-6), "resid": quantise((price - target) / target, 1e-9),
                           "same_type": type(cal) is type(model), "input_unchanged": before == after,
                           "market_same": bool(cal.spot == model.spot and cal.r == model.r and cal.d == model.d)})
            except ValueError as ex:
                ev.append({"e": "CalibRaised", "name": name, "what": str(ex)[:60]})
            except Exception as ex:
                ev.append({"e": "Raise", "what": name + " " + type(ex).__name__ + ": " + str(ex)[:80]})
    traces.append({"tid": f"y{len(traces)}", "hdr": {"kind": "calibration"}, "ev": ev})
    with open(out, "w") as f:
        for t in traces:
            f.write(json.dumps(t, separators=(",", ":")) + "\n")
    print(len(traces))


if __name__ == "__main__":
    main()
