"""C15 driver: every path simulator with all its random sources scripted; the refinement functions on integer arrays.

usage: python -m harness.drivers.path_run <out.ndjson> <tier> <seed>
Times are multiples of 1/TICKS; jump sizes multiples of the lattice unit; the j-th normal increment drawn is j
(so every step's Brownian increment is recognisable: (delta diffusion)^2 = sigma^2 * dt * j^2).
"""
import itertools
import json
import random
import sys
import warnings
from collections import deque

import numpy as np

from harness import atomic
from harness.encode import count_bad, exact_int

warnings.filterwarnings("ignore")
U = atomic.UNIT
TICKS = 8


class ScriptedNormal:
    """np.random.normal replacement: the j-th number drawn since the last reset is j (1, 2, 3, ...)"""

    def __init__(self):
        self.count = 0

    def __call__(self, loc=0.0, scale=1.0, size=None):
        n = int(np.prod(size)) if size is not None else 1
        vals = np.arange(self.count + 1, self.count + n + 1, dtype=float)
        self.count += n
        if size is None:
            return float(vals[0])
        return vals.reshape(size)


def product_for(dates_ticks, stochastic):
    """a product whose time grid is exactly the given dates (ticks)"""
    from rpylib.product.payoff import Forward, PayoffDates
    from rpylib.product.product import Product
    from rpylib.product.underlying import Spot

    class DatedSpot(Spot):
        def compute_times_grid(self, maturity):
            class G:
                def __init__(self, g):
                    self.grid = np.array(g, dtype=float)

                def __len__(self):
                    return len(self.grid)

                def __getitem__(self, i):
                    return self.grid[i]

                def __iter__(self):
                    return iter(self.grid)
            return G([t / TICKS for t in dates_ticks])
    pay = Forward(0.0)
    if stochastic:
        pay.payoff_dates_type = PayoffDates.STOCHASTIC
    return Product(DatedSpot(), pay, maturity=dates_ticks[-1] / TICKS)


def build_levy(atoms, sigma_u, sizes_script):
    class Direct(atomic.AtomLevyModel):
        def jump_increment(self, n):
            out = [sizes_script.popleft() * U for _ in range(int(n))]
            return np.array(out, dtype=float)

        def intensity(self):
            return 1.0
    return Direct(atoms, sigma=sigma_u * U)


DTS_SEEN = []


def counting(counts):
    """scripted number of jumps of an interval; the length of the interval the simulator asks for is recorded"""
    def nb_jump_dt(dt):
        DTS_SEEN.append(float(dt))
        return counts.popleft()
    return nb_jump_dt


def record(kind, mode, dates, jumps, eps, sigma_u, path, ncomp):
    """path: StochasticJumpPath; jumps: list of [time_tick, [size per component]];
    sigma_u: one coefficient for all rows, or one per row (rows: fine dimensions, then coarse dimensions)"""
    times = np.asarray(path.jump_times, dtype=float)
    jp = np.asarray(path.jump_path, dtype=float)
    dp = np.asarray(path.diffusion_path, dtype=float)
    jp = jp.reshape((-1, jp.shape[-1])) if jp.ndim >= 2 else np.atleast_2d(jp)
    dp = dp.reshape((-1, dp.shape[-1])) if dp.ndim >= 2 else np.atleast_2d(dp)
    sig_rows = list(sigma_u) if isinstance(sigma_u, (list, tuple)) else [sigma_u] * len(dp)
    ev = {"e": "Path", "times": [exact_int(t * TICKS, tol=1e-9) for t in times],
          "jump": [[exact_int(v / U, tol=1e-9) for v in row] for row in jp]}
    # (delta diffusion)^2 * TICKS / sigma^2 = dt_ticks * j^2 for the j-th increment drawn
    dsq = []
    for row, sg in zip(dp, sig_rows + [0] * len(dp)):
        d = np.diff(row)
        if sg:
            dsq.append([exact_int((x / (sg * U)) ** 2 * TICKS, tol=1e-7) for x in d])
        else:
            dsq.append([exact_int(x) for x in d])
    ev["dsq"] = dsq
    ev["d0"] = [exact_int(row[0]) for row in dp]
    # the interval lengths the simulator asked jump counts for (ticks), in the order asked
    ev["dts"] = [exact_int(x * TICKS, tol=1e-9) for x in DTS_SEEN]
    del DTS_SEEN[:]
    ev["bad"] = count_bad(ev)
    return ev


def run_case(tid, kind, mode, dates, per_interval, eps, sigma_u, rng):
    """dates: product dates in ticks (first = 0); per_interval[i] = list of (offset_ticks, size_units) in interval i
    mode in fixed / jump / maxstep;  kind in levy / chain / coupling"""
    from rpylib.distribution.sampling import SamplingMethod
    from rpylib.grid.spatial import CTMCGrid
    from rpylib.process.levyprocess import LevyProcess
    from rpylib.process.markovchain.markovchain import MarkovChainProcess
    from rpylib.process.coupling.couplingmarkovchain import CouplingMarkovChain
    jumps = []
    for i, lst in enumerate(per_interval):
        for (off, size) in lst:
            jumps.append([dates[i] + off, size])
    jumps.sort()
    counts = deque(len(lst) for lst in per_interval)
    offsets = deque([off / TICKS for (off, _s) in sorted(lst)] for lst in per_interval)
    sizes = deque(s for i, lst in enumerate(per_interval) for (_o, s) in sorted(lst))
    hdr = {"kind": f"{kind}:{mode}", "dates": dates, "maturity": dates[-1], "eps": eps if mode == "maxstep" else 0,
           "sigma": sigma_u, "mode": mode, "ncomp": 2 if kind == "coupling" else 1, "d": 1,
           "sigs": [sigma_u] * (2 if kind == "coupling" else 1)}
    normal = ScriptedNormal()
    np.random.normal = normal
    ev = []
    try:
        product = product_for(dates, stochastic=(mode != "fixed"))
        max_eps = eps / TICKS if mode == "maxstep" else None
        atoms = [(k, 1) for k in range(-63, 64, 2)]
        step = 16
        axis = np.array([j * step * U for j in range(-3, 4)])
        if kind == "levy":
            proc = LevyProcess(build_levy(atoms, sigma_u, sizes))
            hdr["jumps"] = [[t, [s]] for t, s in jumps]
        else:
            # chain: jump sizes are state increments times the grid step
            grid = CTMCGrid(h=step * U, origin_coordinate=3, axes=[axis])
            model = atomic.AtomLevyModel(atoms, sigma=sigma_u * U)
            incs = deque(int(s) for s in sizes)          # sizes are state increments here (-3..3, non-zero)
            if kind == "chain":
                proc = MarkovChainProcess(model=model, method=SamplingMethod.BINARYSEARCHTREE, grid=grid)
                proc.sampling.sample = lambda size=1: [incs.popleft() for _ in range(int(size))]
                hdr["jumps"] = [[t, [s * step]] for t, s in jumps]
            else:
                proc = CouplingMarkovChain(model=model, method=SamplingMethod.BINARYSEARCHTREE, grid=grid)
        if kind == "coupling":
            from rpylib.montecarlo.configuration import ConfigurationMultiLevel
            from rpylib.montecarlo.path import create_path
            proc.initialisation(product, max_step_epsilon=max_eps)
            pms = [create_path(ConfigurationMultiLevel(), proc.fine_process.deterministic_path)]
            proc.fine_process.nb_jump_dt = lambda dt: 0
            proc.pre_computation(mc_paths=1, product=product)
            proc.next_level(mc_paths=1, path_managers=pms, product=product, max_step_epsilon=max_eps)
            fine = proc.fine_process
            # fine grid now has step 8 units; scripted fine increments (in fine steps), coupling uniform fixed at 0.25
            fincs = deque(int(s) for s in sizes)
            fine.sampling.sample = lambda size=1: [fincs.popleft() for _ in range(int(size))]
            # the path simulation objects captured the old sampler: re-initialise on the same objects
            proc.initialisation(product, max_step_epsilon=max_eps)
            fine.nb_jump_dt = counting(counts)
            fine.jump_times_from_nb_of_jumps = lambda dt, n: np.array(offsets.popleft()[:n], dtype=float)

            class U25:
                sampling_cost = 0

                def sample(self, size=1):
                    return np.array([0.25])

                def reset_sampling_cost(self):
                    pass
            proc.uniform = U25()
            normal.count = 0
            proc.pre_computation(mc_paths=1, product=product)
            sim = proc._path_coupling_simulation
            # expected coarse increments: even fine increments copied, odd ones moved by the coupling (recorded from the
            # coupling map itself, validated by C03); here only the running-sum structure is judged
            cj = []
            for t, s in jumps:
                cj.append([t, [s * (step // 2), exact_int(float(sim.coupling_state(int(s))) / U)]])
            hdr["jumps"] = cj
            path = proc.simulate_one_path_with_coupling()
            hdr["sig2"] = [exact_int(float(proc.equivalent_diffusion_coefficient_fine) ** 2 / (U * U), tol=1e-9),
                           exact_int(float(proc.equivalent_diffusion_coefficient_coarse) ** 2 / (U * U), tol=1e-9)]
            ev.append(record(kind, mode, dates, jumps, eps, sigma_u, path, 2))
        else:
            proc.nb_jump_dt = counting(counts)
            proc.jump_times_from_nb_of_jumps = lambda dt, n: np.array(offsets.popleft()[:n], dtype=float)
            proc.initialisation(product, max_step_epsilon=max_eps)
            normal.count = 0
            proc.pre_computation(mc_paths=1, product=product)
            path = proc.simulate_one_path()
            hdr["sig2"] = [int(sigma_u) ** 2]
            ev.append(record(kind, mode, dates, jumps, eps, sigma_u, path, 1))
    except Exception as ex:
        import traceback
        ev.append({"e": "Raise", "what": type(ex).__name__ + ": " + str(ex)[:100]})
    return {"tid": tid, "hdr": hdr, "ev": ev}


def run_case_copula(tid, kind, mode, dates, per_interval, eps, sigmas, rng):
    """the 2-d copula chain (kind copchain) and the copula coupling (kind copcoupling);
    per_interval[i] = list of (offset_ticks, (inc_1, inc_2)) with state increments in grid steps"""
    from rpylib.distribution.sampling import SamplingMethod
    from rpylib.grid.spatial import CTMCGrid
    from rpylib.process.coupling.couplinglevycopula import CouplingProcessLevyCopula
    from rpylib.process.markovchain.markovchainlevycopula import MarkovChainLevyCopula
    d = 2
    jumps = sorted([dates[i] + off, inc] for i, lst in enumerate(per_interval) for (off, inc) in lst)
    counts = deque(len(lst) for lst in per_interval)
    offsets = deque([off / TICKS for (off, _s) in sorted(lst)] for lst in per_interval)
    incs = deque(tuple(inc) for lst in per_interval for (_o, inc) in sorted(lst))
    coupled = kind == "copcoupling"
    hdr = {"kind": f"{kind}:{mode}", "dates": dates, "maturity": dates[-1], "eps": eps if mode == "maxstep" else 0,
           "sigma": max(sigmas), "mode": mode, "ncomp": 2 * d if coupled else d, "d": d,
           "sigs": list(sigmas) * (2 if coupled else 1)}
    normal = ScriptedNormal()
    np.random.normal = normal
    ev = []
    try:
        product = product_for(dates, stochastic=(mode != "fixed"))
        max_eps = eps / TICKS if mode == "maxstep" else None
        step = 16
        axis = np.array([j * step * U for j in range(-3, 4)])
        grid = CTMCGrid(h=step * U, origin_coordinate=3, axes=[axis] * d)
        # every cell of the grid and of its refinement carries mass (the scripted increments may name any state)
        pts = list(range(-47, 48, 4))
        atoms = [((a, b), rng.randint(1, 3)) for a in pts for b in pts]
        model = atomic.atom_copula_model(atoms, d)
        for m, sg in zip(model.models, sigmas):
            m.levy_triplet.sigma = sg * U
        if not coupled:
            proc = MarkovChainLevyCopula(model, grid, SamplingMethod.BINARYSEARCHTREEADAPTED)
            proc.sampling.sample = lambda size=1: [incs.popleft() for _ in range(int(size))]
            proc.nb_jump_dt = counting(counts)
            proc.jump_times_from_nb_of_jumps = lambda dt, n: np.array(offsets.popleft()[:n], dtype=float)
            proc.initialisation(product, max_step_epsilon=max_eps)
            normal.count = 0
            proc.pre_computation(mc_paths=1, product=product)
            hdr["jumps"] = [[t, [i * step for i in inc]] for t, inc in jumps]
            path = proc.simulate_one_path()
        else:
            from rpylib.montecarlo.configuration import ConfigurationMultiLevel
            from rpylib.montecarlo.path import create_path
            proc = CouplingProcessLevyCopula(levy_copula_model=model, grid=grid, method=SamplingMethod.BINARYSEARCHTREEADAPTED)
            proc.initialisation(product, max_step_epsilon=max_eps)
            pms = [create_path(ConfigurationMultiLevel(), proc.fine_process.deterministic_path)]
            proc.fine_process.nb_jump_dt = lambda dt: 0
            proc.pre_computation(mc_paths=1, product=product)
            proc.next_level(mc_paths=1, path_managers=pms, product=product, max_step_epsilon=max_eps)
            fine = proc.fine_process
            fine.sampling.sample = lambda size=1: [incs.popleft() for _ in range(int(size))]
            fine.nb_jump_dt = counting(counts)
            fine.jump_times_from_nb_of_jumps = lambda dt, n: np.array(offsets.popleft()[:n], dtype=float)

            class U25:
                sampling_cost = 0

                def sample(self, size=1):
                    return np.array([0.25])

                def reset_sampling_cost(self):
                    pass
            if not hasattr(proc, "_uniform"):
                raise AttributeError("'CouplingProcessLevyCopula' object has no attribute '_uniform'")
            proc._uniform = U25()
            normal.count = 0
            proc.pre_computation(mc_paths=1, product=product)
            sim = proc._path_coupling_simulation
            state_of = getattr(sim, "_CouplingLevyCopulaSimulation__coupling_state")
            fstep = step // 2
            hdr["jumps"] = [[t, [i * fstep for i in inc] + [exact_int(float(v) / U) for v in np.ravel(state_of(tuple(inc)))]]
                            for t, inc in jumps]
            path = proc.simulate_one_path_with_coupling()
        ev.append(record(kind, mode, dates, jumps, eps, hdr["sigs"], path, hdr["ncomp"]))
    except Exception as ex:
        import traceback
        ev.append({"e": "Raise", "what": type(ex).__name__ + ": " + str(ex)[:100], "tb": traceback.format_exc()[-700:]})
    return {"tid": tid, "hdr": hdr, "ev": ev}


def finer_grid_cases(rng, quick):
    """the refinement functions called directly on integer arrays (times in ticks)"""
    from rpylib.process.coupling.helper import create_build_finer_grid_fun
    from rpylib.process.levyprocess import SimulationMaximumStep
    out = []
    maturity = 16
    sets = []
    for n in (1, 2, 3):
        for c in itertools.combinations(range(1, maturity), n):
            sets.append(list(c))
    rng.shuffle(sets)
    for jt in sets[:40 if quick else 400]:
        for eps in (1, 2, 3, 5, 7, 16, 20):
            vals = [rng.randint(-5, 5) for _ in jt]
            cum = [int(x) for x in np.cumsum(vals)]
            for variant in ("single", "coupled"):
                hdr = {"kind": "finer:" + variant, "eps": eps, "maturity": maturity}
                try:
                    if variant == "single":
                        f = SimulationMaximumStep.create_build_finer_grid_fun(epsilon=float(eps), maturity=float(maturity))
                        t, v = f(None, np.array(jt, dtype=float), np.array(cum, dtype=float))
                        comps = [list(v)]
                    else:
                        f = create_build_finer_grid_fun(epsilon=float(eps), maturity=float(maturity))
                        c2 = [2 * x + 1 for x in cum]
                        t, v, w = f(None, np.array(jt, dtype=float), np.array(cum, dtype=float), np.array(c2, dtype=float))
                        comps = [list(v), list(w)]
                    ev = {"e": "Finer", "in_t": jt, "in_v": [cum] + ([[2 * x + 1 for x in cum]] if variant == "coupled" else []),
                          "t": [exact_int(x) for x in t], "v": [[exact_int(x) for x in c] for c in comps]}
                    ev["bad"] = count_bad(ev)
                    out.append({"tid": "", "hdr": hdr, "ev": [ev]})
                except Exception as ex:
                    out.append({"tid": "", "hdr": hdr, "ev": [{"e": "Raise", "what": type(ex).__name__ + ": " + str(ex)[:80]}]})
    return out


def main():
    out, tier, seed = sys.argv[1], sys.argv[2], int(sys.argv[3])
    quick = tier == "quick"
    rng = random.Random(seed)
    traces = []
    real_normal = np.random.normal
    date_sets = [[0, 8], [0, 8, 40], [0, 8, 40, 112], [0, 32, 40], [0, 6, 16, 40, 48], [0, 4, 8, 12, 16, 40]]
    try:
        for kind in ("levy", "chain", "coupling"):
            for mode in ("fixed", "jump", "maxstep"):
                for dates in date_sets:
                    for rep in range(2 if quick else 6):
                        per = []
                        for i in range(len(dates) - 1):
                            width = dates[i + 1] - dates[i]
                            n = rng.choice([0, 0, 1, 2, 3]) if rep else rng.choice([0, 1, 2])
                            offs = sorted(rng.sample(range(1, width), min(n, width - 1)))
                            if kind == "levy":
                                per.append([(o, rng.choice([-5, -2, 1, 3, 7])) for o in offs])
                            else:
                                per.append([(o, rng.choice([-3, -2, -1, 1, 2, 3])) for o in offs])
                        if rep == 0 and mode != "fixed":
                            per = [[] for _ in per] if rng.random() < 0.5 else per        # the no-jump path
                        if rep == 1:
                            # every interval carries jumps (running sums must be carried across all of them)
                            per = []
                            for i in range(len(dates) - 1):
                                width = dates[i + 1] - dates[i]
                                offs = sorted(rng.sample(range(1, width), min(rng.choice([1, 2, 3]), width - 1)))
                                per.append([(o, rng.choice([-5, -2, 1, 3, 7]) if kind == "levy" else rng.choice([-3, -2, -1, 1, 2, 3])) for o in offs])
                        eps = rng.choice([1, 3, 5, 8, 20, 200])
                        traces.append(run_case(f"p{len(traces)}", kind, mode, dates, per, eps, rng.choice([0, 4, 8]), rng))
        for kind in ("copchain", "copcoupling"):
            for mode in ("fixed", "jump", "maxstep"):
                for dates in date_sets:
                    for rep in range(2 if quick else 5):
                        per = []
                        for i in range(len(dates) - 1):
                            width = dates[i + 1] - dates[i]
                            n = rng.choice([1, 2, 3]) if rep == 1 else rng.choice([0, 0, 1, 2])
                            offs = sorted(rng.sample(range(1, width), min(n, width - 1)))
                            lst = []
                            for o in offs:
                                inc = (0, 0)
                                while inc == (0, 0):
                                    inc = (rng.randint(-3, 3), rng.randint(-3, 3))
                                lst.append((o, inc))
                            per.append(lst)
                        if rep == 0 and mode != "fixed" and rng.random() < 0.4:
                            per = [[] for _ in per]
                        eps = rng.choice([1, 3, 5, 8, 20, 200])
                        traces.append(run_case_copula(f"p{len(traces)}", kind, mode, dates, per, eps, rng.choice([(0, 0), (4, 8), (8, 4)]), rng))
    finally:
        np.random.normal = real_normal
    fg = finer_grid_cases(rng, quick)
    for t in fg:
        t["tid"] = f"p{len(traces)}"
        traces.append(t)
    with open(out, "w") as f:
        for t in traces:
            f.write(json.dumps(t, separators=(",", ":")) + "\n")
    print(len(traces))


if __name__ == "__main__":
    main()
