"""C11 driver: the REAL Levy copulas evaluated on lattices of arguments.

usage: python -m harness.drivers.copula_run <out.ndjson> <tier> <seed>
 exact traces : independent / complete-dependence copulas and Clayton at theta = 1 (rational values, recorded as reduced
                fractions), the volume() and margin() operators of levycopulamodel applied to them, the Clayton
                conditional distribution at theta = 1;
 thin traces  : Clayton at other theta: values quantised to 1e-7 on the lattice (TLC forms the volumes and margins from
                the table), conditional distribution monotone within [0, 1] and inverted by its stated inverse.
"""
import itertools
import json
import random
import sys
import warnings
from fractions import Fraction

import numpy as np

from harness.encode import quantise

warnings.filterwarnings("ignore")
INF = 1000000
L2 = [-INF, -4, -2, -1, 0, 1, 2, 4, INF]
L3 = [-INF, -2, -1, 0, 1, 3, INF]
QU = 1e-7


def real(u):
    return np.inf if u == INF else (-np.inf if u == -INF else float(u))


def frac(x):
    """reduced fraction <<num, den>> of a float that is a small rational by construction; [0, 0] otherwise"""
    if not np.isfinite(x):
        return [0, 0]
    f = Fraction(float(x)).limit_denominator(100000)
    if abs(float(f) - x) > 1e-11 * max(1.0, abs(x)):
        return [0, 0]
    return [f.numerator, f.denominator]


def make(kind, theta, eta):
    from rpylib.distribution.levycopula import ClaytonCopula, DependentComponentsCopula, IndependentComponentsCopula
    if kind == "indep":
        return IndependentComponentsCopula()
    if kind == "dep":
        return DependentComponentsCopula()
    return ClaytonCopula(theta=theta, eta=eta)


def main():
    out, tier, seed = sys.argv[1], sys.argv[2], int(sys.argv[3])
    quick = tier == "quick"
    rng = random.Random(seed)
    from rpylib.model.levycopulamodel import margin, volume
    traces = []
    etas = [(0, 1), (3, 10), (1, 2), (1, 1)] + ([] if quick else [(1, 10), (9, 10), (2, 3)])
    # ---- exact ---------------------------------------------------------------------------------------------------
    # one copula object serves both dimensions, in either order (the helpers share one copula between 2-d and 3-d models)
    shared = {}
    for d in (2, 3, 2):
        lat = L2 if d == 2 else L3
        for kind in ("clayton1", "indep", "dep"):
            for (en, ed) in (etas if kind == "clayton1" else [(1, 2)]):
                key = (kind, en, ed)
                hdr = {"kind": f"exact:{kind}:d{d}", "cop": kind, "eta": [en, ed], "d": d, "lat": lat}
                ev = []
                try:
                    # (an admissible parameter the constructor refuses is a recorded exception, not a crash of the driver)
                    if key not in shared:
                        shared[key] = make(kind, 1.0, en / ed)
                    cop = shared[key]
                    tab = []
                    for u in itertools.product(lat, repeat=d):
                        if all(abs(x) == INF for x in u):
                            continue
                        v = cop(np.array([real(x) for x in u]))
                        tab.append([list(u), frac(float(v))])
                    ev.append({"e": "Table", "tab": tab})
                    # the volume / margin operators of the model module applied to the real copula
                    ops = []
                    pts = [p for p in itertools.product(lat, repeat=d)]
                    for _ in range(40 if quick else 300):
                        a, b = rng.choice(pts), rng.choice(pts)
                        lo = [min(x, y) for x, y in zip(a, b)]
                        hi = [max(x, y) for x, y in zip(a, b)]
                        if any(x == y for x, y in zip(lo, hi)) or not any(abs(x) != INF and abs(y) != INF for x, y in zip(lo, hi)):
                            continue
                        v = volume(lambda us: cop(np.array(list(us))), [real(x) for x in lo], [real(x) for x in hi])
                        ops.append({"op": "vol", "a": lo, "b": hi, "k": 0, "x": 0, "v": frac(float(v))})
                    for k in range(d):
                        for x in lat:
                            if abs(x) == INF:
                                continue
                            m = margin(cop, [k], d)
                            ops.append({"op": "marg", "a": [], "b": [], "k": k + 1, "x": x, "v": frac(float(m([real(x)])))})
                    ev.append({"e": "Ops", "ops": ops})
                    if kind == "clayton1" and d == 2:
                        cs = []
                        for eps in (-3, -1, 2, 5):
                            for x in (-8, -4, -2, -1, 1, 2, 4, 8):
                                cs.append([eps, x, frac(float(cop.conditional_distribution(float(eps), np.array([float(x)]))[0]))])
                        ev.append({"e": "Cond1", "cs": cs})
                except Exception as ex:
                    ev.append({"e": "Raise", "what": type(ex).__name__ + ": " + str(ex)[:80]})
                traces.append({"tid": f"q{len(traces)}", "hdr": hdr, "ev": ev})
    # ---- thin: Clayton at other parameters ---------------------------------------------------------------------------
    # moderate parameters: for very small / large theta the closed-form inverse loses digits next to the plateaux of the
    # conditional distribution (floating point, not structure)
    thetas = [0.5, 0.7, 2.0, 5.0] + ([] if quick else [0.35, 1.0, 1.5, 3.0, 4.0])
    shared_q = {}
    for d in (3, 2, 3):
        lat = L2 if d == 2 else L3
        for theta in thetas:
            for (en, ed) in etas:
                key = (theta, en, ed)
                hdr = {"kind": f"thin:clayton:d{d}", "cop": "clayton", "eta": [en, ed], "d": d, "lat": lat, "theta100": int(round(theta * 100))}
                ev = []
                try:
                    if key not in shared_q:
                        shared_q[key] = make("clayton", theta, en / ed)
                    cop = shared_q[key]
                    n = len(lat)
                    flat = []
                    for u in itertools.product(lat, repeat=d):
                        if all(abs(x) == INF for x in u):
                            flat.append(0)
                            continue
                        flat.append(quantise(float(cop(np.array([real(x) for x in u]))), QU))
                    ev.append({"e": "TableQ", "flat": flat, "n": n})
                    if d == 2:
                        rows = []
                        xs = [-64.0, -8.0, -2.0, -0.5, -0.01, 0.01, 0.5, 2.0, 8.0, 64.0]
                        for eps in (-3.0, -0.5, 0.7, 4.0):
                            vals = [float(cop.conditional_distribution(eps, np.array([x]))[0]) for x in xs]
                            inv = [float(np.ravel(cop.inverse_conditional_distribution(np.array(eps), np.array([v])))[0]) for v in vals]
                            lim = [float(cop.conditional_distribution(eps, np.array([-np.inf]))[0]), float(cop.conditional_distribution(eps, np.array([np.inf]))[0])]
                            xz = [-64.0, -2.0, -0.5, -0.01, 0.0, 0.01, 0.5, 2.0, 64.0]
                            vz = [float(cop.conditional_distribution(eps, np.array([x]))[0]) for x in xz]
                            rows.append({"vz": [quantise(v, QU) for v in vz], "vals": [quantise(v, QU) for v in vals],
                                         "back": [quantise(i / x, 1e-6) for i, x in zip(inv, xs)],
                                         "lim": [quantise(v, 1e-4) for v in lim]})
                        ev.append({"e": "CondQ", "rows": rows, "one": quantise(1.0, QU)})
                    # the stated mixed derivative next to central mixed differences of the copula itself, in every orthant:
                    # row = [stated, difference quotient, difference quotient * prod u] on the row's own scale
                    # (moderate theta and magnitudes: for a stiff copula the difference quotient loses its digits to cancellation)
                    rows = []
                    for signs in (itertools.product((1.0, -1.0), repeat=d) if theta <= 2.0 else ()):
                        for _ in range(2):
                            u = np.array([sg * rng.uniform(0.5, 2.0) for sg in signs])
                            hs = 1e-3 * np.abs(u)
                            fdq = 0.0
                            for st in itertools.product((1.0, -1.0), repeat=d):
                                fdq += float(np.prod(st)) * float(cop(u + np.array(st) * hs))
                            fdq /= float(np.prod(2 * hs))
                            v = float(cop.x_first_derivative(u))
                            unit = 1e-6 * max(abs(fdq), abs(v), 1e-12)
                            rows.append([quantise(v, unit), quantise(fdq, unit),
                                         quantise(fdq * float(np.prod(u)), unit)])
                    if rows:
                        ev.append({"e": "Deriv", "rows": rows})
                except Exception as ex:
                    ev.append({"e": "Raise", "what": type(ex).__name__ + ": " + str(ex)[:80]})
                traces.append({"tid": f"q{len(traces)}", "hdr": hdr, "ev": ev})
    with open(out, "w") as f:
        for t in traces:
            f.write(json.dumps(t, separators=(",", ":")) + "\n")
    print(len(traces))


if __name__ == "__main__":
    main()
