"""C10 driver (decided half): representation changes on real LevyTriplet objects, and the drift routes of exponential models.

usage: python -m harness.drivers.repr_run <out.ndjson> <tier> <seed>
"""
import copy
import itertools
import json
import random
import sys
import warnings

import numpy as np

from harness import atomic
from harness.encode import count_bad, exact_int, quantise, ranks

warnings.filterwarnings("ignore")
U = atomic.UNIT
REPRS = ["ONEONE", "ZERO", "CENTER", "TILDE"]


def main():
    out, tier, seed = sys.argv[1], sys.argv[2], int(sys.argv[3])
    quick = tier == "quick"
    rng = random.Random(seed)
    from harness.models import exp_models, levy_models
    from rpylib.model.levymodel.exponentialoflevymodel import ExponentialOfLevyModel
    from rpylib.model.levymodel.levymodel import LevyRepresentation as LR
    from rpylib.process.levyprocess import LevyProcess
    traces = []
    maxlen = 3 if quick else 4
    seqs = [list(s) for n in range(1, maxlen + 1) for s in itertools.product(REPRS, repeat=n)]
    # ---- atomic measures: exact integers ---------------------------------------------------------------------------
    for rep in range(3 if quick else 10):
        atoms = [(k, rng.randint(1, 5)) for k in range(-95, 96, 2) if rng.random() < 0.5]     # positions up to +-1.48
        for fv in (True, False):
            for rep0 in REPRS:
                a0 = rng.randint(-30, 30)
                hdr = {"kind": "atomic", "atoms_u": [[k, w] for k, w in atoms], "one": int(round(1 / U)), "fv": fv, "a0": a0, "rep0": rep0}
                ev = []
                sub = rng.sample(seqs, 25 if quick else 80)
                for sq in sub:
                    try:
                        m = atomic.AtomLevyModel(atoms, a=a0 * U, representation=LR[rep0], finite_variation=fv)
                        steps = []
                        for r in sq:
                            m.levy_triplet.set_representation(LR[r])
                            steps.append([r, exact_int(m.levy_triplet.a / U, tol=1e-9)])
                        ev.append({"e": "Seq", "steps": steps, "bad": count_bad(steps)})
                    except Exception as ex:
                        ev.append({"e": "Raise", "what": type(ex).__name__ + ": " + str(ex)[:80]})
                # histories with a truncation of the measure in the middle: from then on the compensators are those of the
                # truncated measure (and drift queries made before the truncation must leave no trace)
                for sq in rng.sample(seqs, 10 if quick else 40):
                    try:
                        m = atomic.AtomLevyModel(atoms, a=a0 * U, representation=LR[rep0], finite_variation=fv)
                        pre = []
                        for r in sq[:len(sq) // 2]:
                            m.levy_triplet.set_representation(LR[r])
                            pre.append([r, exact_int(m.levy_triplet.a / U, tol=1e-9)])
                        m.levy_triplet.canonical_drift(); m.levy_triplet.center_drift()
                        if not (m.levy_triplet.representation == LR.ZERO and not fv):
                            m.levy_triplet.tilde_drift()
                        cut = [-2 * rng.randint(8, 40), 2 * rng.randint(8, 40)]
                        at_cut = [m.levy_triplet.representation.name, exact_int(m.levy_triplet.a / U, tol=1e-9)]
                        m.truncate_levy_measure((cut[0] * U, cut[1] * U))
                        post = [[m.levy_triplet.representation.name, exact_int(m.levy_triplet.a / U, tol=1e-9)]]
                        for r in sq[len(sq) // 2:]:
                            m.levy_triplet.set_representation(LR[r])
                            post.append([r, exact_int(m.levy_triplet.a / U, tol=1e-9)])
                        ev.append({"e": "SeqT", "pre": pre, "cut": cut, "at_cut": at_cut, "post": post, "bad": count_bad([pre, post, at_cut])})
                    except Exception as ex:
                        ev.append({"e": "Raise", "what": "truncation history: " + type(ex).__name__ + ": " + str(ex)[:80]})
                traces.append({"tid": f"q{len(traces)}", "hdr": hdr, "ev": ev})
    # ---- real measures: path independence and reversibility as equality classes (rel 1e-9) ----------------------------
    lm = levy_models()
    for name, model in lm.items():
        ev = []
        # the ZERO representation (and TILDE = ZERO) does not exist for jumps of infinite variation
        allowed = REPRS if model.jump_of_finite_variation() else ["ONEONE", "CENTER", "TILDE"]
        pool = [sq for sq in seqs if all(r in allowed for r in sq)]
        for sq in rng.sample(pool, min(len(pool), 20 if quick else 80)):
            try:
                m = copy.deepcopy(model)
                vals = [m.levy_triplet.a, m.levy_triplet.canonical_drift()]
                steps = [[m.levy_triplet.representation.name, 0, 1]]
                for r in sq:
                    m.levy_triplet.set_representation(LR[r])
                    steps.append([r, len(vals), len(vals) + 1])
                    vals += [m.levy_triplet.a, m.levy_triplet.canonical_drift()]
                rk = ranks(vals, rel=1e-9)
                ev.append({"e": "SeqQ", "steps": [[s[0], rk[s[1]], rk[s[2]]] for s in steps], "bad": 0})
            except Exception as ex:
                ev.append({"e": "Raise", "what": type(ex).__name__ + ": " + str(ex)[:80]})
        traces.append({"tid": f"q{len(traces)}", "hdr": {"kind": "real:" + name, "atoms_u": [], "one": 64, "fv": True, "a0": 0, "rep0": "ZERO"}, "ev": ev})
    # ---- exponential models: the martingale routes ------------------------------------------------------------------
    em = exp_models()
    ev = []
    for name, model in em.items():
        for T in (0.25, 1.0, 2.5):
            try:
                fwd = model.spot * np.exp((model.r - model.d) * T)
                phi = model.log_characteristic_function(t=T, x=-1j)
                e = {"e": "Martingale", "name": name, "route": "charfun", "q": quantise(phi.real / fwd - 1.0, 1e-12), "qi": quantise(phi.imag / fwd, 1e-12)}
                ev.append(e)
            except Exception as ex:
                ev.append({"e": "Raise", "what": name + " " + type(ex).__name__ + ": " + str(ex)[:80]})
        from rpylib.model.levymodel.levymodel import LevyModel
        if type(model).process_drift is LevyModel.process_drift:
            continue          # no direct simulation offered for this model (no process_drift / jump_increment of its own)
        try:
            # direct simulation simulates the jumps uncompensated: its deterministic drift must be r - d + omega + drift of L
            # in the ZERO representation (generic conversion of the model's own triplet)
            slope = float(np.ravel(LevyProcess(model).deterministic_path(np.ones(1)) - LevyProcess(model).deterministic_path(np.zeros(1)))[0])
            trip = copy.deepcopy(model.levy_model.levy_triplet)
            rhs = model.r - model.d + model.omega + trip.zero_drift()
            ev.append({"e": "Martingale", "name": name, "route": "direct", "q": quantise(slope - rhs, 1e-12), "qi": 0})
            # the same after the model's own triplet was converted in place: the process has not changed
            allowed = REPRS if model.levy_model.jump_of_finite_variation() else ["ONEONE", "CENTER", "TILDE"]
            for _ in range(3 if quick else 10):
                mm = copy.deepcopy(model)
                hist = [rng.choice(allowed) for _ in range(rng.randint(1, 3))]
                for r in hist:
                    mm.levy_triplet.set_representation(LR[r])
                slope2 = float(np.ravel(LevyProcess(mm).deterministic_path(np.ones(1)) - LevyProcess(mm).deterministic_path(np.zeros(1)))[0])
                phi2 = mm.log_characteristic_function(t=1.0, x=-1j)
                fwd2 = mm.spot * np.exp(mm.r - mm.d)
                ev.append({"e": "Martingale", "name": name + ">" + ">".join(hist), "route": "direct-after-conversion", "q": quantise(slope2 - slope, 1e-12), "qi": 0})
                ev.append({"e": "Martingale", "name": name + ">" + ">".join(hist), "route": "charfun-after-conversion",
                           "q": quantise(phi2.real / fwd2 - 1.0, 1e-12), "qi": quantise(phi2.imag / fwd2, 1e-12)})
        except Exception as ex:
            ev.append({"e": "Raise", "what": name + " direct " + type(ex).__name__ + ": " + str(ex)[:80]})
    traces.append({"tid": f"q{len(traces)}", "hdr": {"kind": "exp:real", "atoms_u": [], "one": 64, "fv": True, "a0": 0, "rep0": "ZERO"}, "ev": ev})
    # atomic exponential models wrapped AFTER a history of representation changes
    ev = []
    for _ in range(30 if quick else 150):
        try:
            atoms = [(k, rng.randint(1, 4)) for k in range(-95, 96, 2) if rng.random() < 0.3]
            rep0 = rng.choice(REPRS)
            m = atomic.AtomLevyModel(atoms, a=rng.randint(-20, 20) * U, sigma=rng.choice([0, 8]) * U, representation=LR[rep0],
                                     finite_variation=rng.random() < 0.5)
            hist = [rng.choice(REPRS) for _ in range(rng.randint(0, 3))]
            for r in hist:
                m.levy_triplet.set_representation(LR[r])
            em1 = ExponentialOfLevyModel(spot=100.0, r=0.03, d=0.01, levy_model=m)
            for r in [rng.choice(REPRS) for _ in range(rng.randint(0, 2))]:
                em1.levy_triplet.set_representation(LR[r])
            T = rng.choice([0.5, 1.0])
            fwd = 100.0 * np.exp(0.02 * T)
            phi = em1.log_characteristic_function(t=T, x=-1j)
            ev.append({"e": "Martingale", "name": "atomic:" + rep0 + ">" + ">".join(hist), "route": "charfun",
                       "q": quantise(phi.real / fwd - 1.0, 1e-12), "qi": quantise(phi.imag / fwd, 1e-12)})
        except Exception as ex:
            ev.append({"e": "Raise", "what": type(ex).__name__ + ": " + str(ex)[:80]})
    traces.append({"tid": f"q{len(traces)}", "hdr": {"kind": "exp:atomic", "atoms_u": [], "one": 64, "fv": True, "a0": 0, "rep0": "ZERO"}, "ev": ev})
    with open(out, "w") as f:
        for t in traces:
            f.write(json.dumps(t, separators=(",", ":")) + "\n")
    print(len(traces))


if __name__ == "__main__":
    main()
