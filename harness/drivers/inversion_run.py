"""C02 driver (implementation-shaped): the inversion sampler of real copula chains, observed draw by draw together with
its internal state (stored prefix, skip pointer of the enumeration), for Trace_Inversion.tla / Inversion.tla.

usage: python -m harness.drivers.inversion_run <out.ndjson> <tier> <seed>
Raw indices are those of the pairing function the sampler was built with; admissibility and the raw order are read from
the sampler's own StatesManager (the pairing functions themselves are the subject of C14).
"""
import itertools
import json
import random
import sys
import warnings

import numpy as np

from harness import atomic
from harness.encode import count_bad, exact_int

warnings.filterwarnings("ignore")


def observe(smp, raw_of, lam):
    sm = smp.state_manager
    cum = [exact_int(float(c) * lam, tol=1e-6) for c in getattr(smp, "_cumulative_probabilities", [])]
    stored = [raw_of.get(tuple(int(v) for v in np.ravel(s)), -1) for s in getattr(smp, "_simulated_state_increments", [])]
    before = getattr(sm, "_index_before_max_logged", None)
    return {"cum": cum, "stored": stored, "last": int(getattr(sm, "_last_projected_index", -9)),
            "before": -2 if before is None else int(before)}


def scenario(tid, d, sizes, atoms, cap, rng, ndraws):
    from rpylib.distribution.sampling import SamplingMethod
    from rpylib.grid.spatial import CTMCGrid
    from rpylib.process.markovchain.markovchain import MarkovChainProcess
    from rpylib.process.markovchain.markovchainlevycopula import MarkovChainLevyCopula
    st = 8
    nl, nr = sizes
    ks_states = [j * st for j in range(-nl, nr + 1)]
    axis = np.array([k * atomic.UNIT for k in ks_states])
    n1 = len(ks_states)
    hdr = {"kind": f"inversion{d}d:cap{cap}", "cap": cap}
    ev = []
    try:
        grid = CTMCGrid(h=st * atomic.UNIT, origin_coordinate=nl, axes=[axis.copy() for _ in range(d)])
        if d == 1:
            proc = MarkovChainProcess(model=atomic.AtomLevyModel(atoms, sigma=0.0), method=SamplingMethod.INVERSION, grid=grid)
        else:
            proc = MarkovChainLevyCopula(atomic.atom_copula_model(atoms, d), grid, SamplingMethod.INVERSION)
        smp = proc.sampling
        lam = float(proc.intensity_of_jumps)
        sm = smp.state_manager
        bound = int(sm.max_frontier_indices)

        def cell(j):
            return (ks_states[max(0, j - 1)] + ks_states[j]) / 2, (ks_states[j] + ks_states[min(n1 - 1, j + 1)]) / 2

        def weight(inc):
            js = [i + nl for i in inc]
            b = [cell(j) for j in js]
            if d == 1:
                return sum(w for (a, w) in atoms if b[0][0] < a < b[0][1])
            return sum(w for (a, w) in atoms if all(bb[0] < ai < bb[1] for ai, bb in zip(a, b)))
        adm, w, raw_of = [], [], {}
        for r in range(bound + 1):
            inc = sm.pairing.project(r)
            inc_t = tuple(int(v) for v in np.ravel(inc))
            ok = not sm.is_outside(inc if d > 1 else inc_t[0]) if d > 1 else not sm.is_outside(inc)
            adm.append(1 if ok else 0)
            w.append(int(weight(inc_t)) if ok else 0)
            if ok:
                raw_of[inc_t] = r
        S = sum(w)
        hdr.update({"adm": adm, "w": w, "S": S})
        if abs(S - lam) > 1e-6:
            hdr["S"] = -1               # the sampler's intensity is not the mass of the admissible states: Numeric
        if not hasattr(smp, "_max_storage"):
            raise AttributeError("'InversionMethod' object has no attribute '_max_storage'")
        smp._max_storage = cap
        ev.append(dict(observe(smp, raw_of, lam), e="Built"))
        for _ in range(ndraws):
            i = rng.choice([S - 1, S - 2, 0, rng.randrange(S), rng.randrange(S)])
            i = max(0, min(S - 1, i))
            u2 = 2 * i + 1
            out = smp.sample_with_u(u2 / (2.0 * S))
            res = raw_of.get(tuple(int(v) for v in np.ravel(out)), -1)
            ev.append(dict(observe(smp, raw_of, lam), e="Draw", u2=u2, res=res))
        for e in ev:
            e["bad"] = count_bad(e)
    except Exception as ex:
        import traceback
        ev.append({"e": "Raise", "what": type(ex).__name__ + ": " + str(ex)[:80], "tb": traceback.format_exc()[-500:]})
    return {"tid": tid, "hdr": hdr, "ev": ev}


def main():
    out, tier, seed = sys.argv[1], sys.argv[2], int(sys.argv[3])
    quick = tier == "quick"
    rng = random.Random(seed)
    traces = []
    cases = [(1, (2, 3)), (1, (4, 1)), (2, (1, 1)), (2, (2, 1)), (2, (1, 3)), (3, (1, 1))] + ([] if quick else [(2, (3, 3)), (2, (4, 2)), (3, (2, 1)), (3, (1, 2))])
    for (d, (nl, nr)) in cases:
        for cap in ([2, 5, 1000000] if quick else [1, 2, 3, 5, 9, 1000000]):
            for rep in range(1 if quick else 3):
                lo, hi = -nl * 8, nr * 8
                if d == 1:
                    atoms = atomic.atoms_everywhere(lo - 6, hi + 6, rng, wmax=4, density=rng.choice([1.0, 0.7]))
                else:
                    atoms = atomic.joint_atoms_in_box([lo] * d, [hi] * d, d, rng, 30 if d == 2 else 45, wmax=3)
                traces.append(scenario(f"i{len(traces)}", d, (nl, nr), atoms, cap, rng, 14 if quick else 30))
    with open(out, "w") as f:
        for t in traces:
            f.write(json.dumps(t, separators=(",", ":")) + "\n")
    print(len(traces))


if __name__ == "__main__":
    main()
