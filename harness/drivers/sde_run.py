"""C16 driver: the real Euler schemes (MarkovChainSDE, CouplingSDE) on scripted driver paths, and df(t) of every model.

usage: python -m harness.drivers.sde_run <out.ndjson> <tier> <seed>
Driver increments are quarters, times quarters, the chain drift a quarter: everything is exact in sixteenths.
"""
import itertools
import json
import random
import sys
import warnings

import numpy as np

from harness import atomic
from harness.encode import count_bad, exact_int, quantise

warnings.filterwarnings("ignore")
U = atomic.UNIT


def product_for_init():
    from rpylib.product.payoff import Forward
    from rpylib.product.product import Product
    from rpylib.product.underlying import Spot
    return Product(Spot(), Forward(0.0), maturity=1.0)


def make_grid():
    from rpylib.grid.spatial import CTMCGrid
    step = 32
    return CTMCGrid(h=step * U, origin_coordinate=2, axes=[np.array([j * step * U for j in range(-2, 3)])])


def sde_case(tid, coef, x0, mu4, dts4, dW4, dL4, coupled, mu4c=None, dW4c=None, dL4c=None, beta=0):
    from rpylib.distribution.sampling import SamplingMethod
    from rpylib.model.levydrivensde.levydrivensde import Constant, DiagX, LevyDrivenSDEModel
    from rpylib.montecarlo.configuration import ConfigurationMultiLevel
    from rpylib.montecarlo.path import StochasticJumpPath, create_path
    from rpylib.process.coupling.couplingsde import CouplingSDE
    from rpylib.process.markovchain.markovchainsde import MarkovChainSDE
    n = len(dts4)
    times = np.concatenate(([0.0], np.cumsum(dts4) / 4.0))
    dy16 = [mu4 * dts4[i] + 4 * (dW4[i] + dL4[i]) for i in range(n)]
    t4 = [0] + [int(v) for v in np.cumsum(dts4)]
    bdt16 = [beta * t4[i] * dts4[i] for i in range(n)]            # sde drift b(t, x) = beta * t at the LEFT end point, times dt
    hdr = {"kind": ("coupledsde:" if coupled else "sde:") + coef[0] + (":tdrift" if beta else ""), "coef": coef[0], "c": coef[1],
           "x0": x0, "dy16": [dy16], "bdt16": bdt16}
    ev = []
    try:
        atoms = [(k, 1) for k in range(-63, 64, 2)]
        driver = atomic.AtomLevyModel(atoms, sigma=0.0, bg_index=1.0)
        a = Constant(m=1, d=1, constant=float(coef[1])) if coef[0] == "const" else DiagX(1)
        class TimeDrift(LevyDrivenSDEModel):
            def drift(self, t=0, x=0):
                return np.zeros_like(x) + beta * t
        model = (TimeDrift if beta else LevyDrivenSDEModel)(driver=driver, x0=float(x0), a=a)
        grid = make_grid()
        product = product_for_init()
        if not coupled:
            proc = MarkovChainSDE(model=model, method=SamplingMethod.BINARYSEARCHTREE, grid=grid)
            proc.initialisation(product)
            diff = np.concatenate(([0.0], np.cumsum(dW4) / 4.0))
            jump = np.concatenate(([0.0], np.cumsum(dL4) / 4.0))
            proc.markov_chain.simulate_one_path = lambda: StochasticJumpPath(times, diff, jump)
            proc.markov_chain.process_drift = lambda: mu4 / 4.0
            path = proc.simulate_one_path()
            val = np.atleast_2d(path.value())[0]
            xs = [[float(x0) + v for v in val]]
            # a second path from the same process object starts from x0 again
            val_again = np.atleast_2d(proc.simulate_one_path().value())[0]
            xs_again = [[float(x0) + v for v in val_again]]
            eps_u = exact_int(proc.epsilon / U)
            h_u = exact_int(grid.h / U)
            eps_drv_u = h_u
        else:
            dy16c = [mu4c * dts4[i] + 4 * (dW4c[i] + dL4c[i]) for i in range(n)]
            hdr["dy16"] = [dy16, dy16c]
            cs = CouplingSDE(model=model, grid=grid, method=SamplingMethod.BINARYSEARCHTREE)
            cs.initialisation(product)
            pms = [create_path(ConfigurationMultiLevel(), cs.fine_process.deterministic_path)]
            cs.pre_computation(mc_paths=1, product=product)
            cs.next_level(1, pms, product)
            diff = np.array([np.concatenate(([0.0], np.cumsum(dW4) / 4.0)), np.concatenate(([0.0], np.cumsum(dW4c) / 4.0))])
            jump = np.array([np.concatenate(([0.0], np.cumsum(dL4) / 4.0)), np.concatenate(([0.0], np.cumsum(dL4c) / 4.0))])
            cs.driver_coupling_process.simulate_one_path_with_coupling = lambda: StochasticJumpPath(times, diff, jump)
            cs.mc_drift_h, cs.mc_drift_2h = mu4 / 4.0, mu4c / 4.0
            path = cs.simulate_one_path_with_coupling()
            val = np.asarray(path.value())          # (2, dim, n)
            xs = [[float(x0) + v for v in val[0][0]], [float(x0) + v for v in val[1][0]]]
            eps_u = exact_int(cs.epsilon / U)
            h_u = exact_int(cs.driver_coupling_process.grid.h / U)
            # the maximum time step the DRIVER coupling actually simulates with at this level
            eps_drv_u = exact_int(cs.driver_coupling_process._path_coupling_simulation.epsilon / U)
        # scaled integers: Constant: X * 16 ; DiagX: X_i * 16^i
        rec = []
        for comp in xs:
            if coef[0] == "const":
                rec.append([exact_int(x * 16) for x in comp])
            else:
                rec.append([exact_int(x * 16 ** i, tol=1e-9) for i, x in enumerate(comp)])
        r = {"e": "Euler", "x": rec, "times4": [exact_int(t * 4) for t in np.asarray(path.times())], "eps_u": eps_u, "h_u": h_u, "eps_drv_u": eps_drv_u}
        r["bad"] = count_bad(r)
        ev.append(r)
        if not coupled:
            rec2 = []
            for comp in xs_again:
                if coef[0] == "const":
                    rec2.append([exact_int(x * 16) for x in comp])
                else:
                    rec2.append([exact_int(x * 16 ** i, tol=1e-9) for i, x in enumerate(comp)])
            r2 = dict(r, x=rec2)
            r2["bad"] = count_bad(r2)
            ev.append(r2)
    except Exception as ex:
        ev.append({"e": "Raise", "what": type(ex).__name__ + ": " + str(ex)[:100]})
    return {"tid": tid, "hdr": hdr, "ev": ev}


def sde_case_2d(tid, coef, x0s, mu4, dts4, dW4, dL4, coupled, mu4c=None, dW4c=None, dL4c=None):
    """two-dimensional copula driver: coef ("diag", 0) = DiagX(2); ("const", c, m) = Constant(m, 2, c).
    mu4 / dW4 / dL4: per driver dimension (lists of 2)."""
    from rpylib.distribution.sampling import SamplingMethod
    from rpylib.grid.spatial import CTMCGrid
    from rpylib.model.levydrivensde.levydrivensde import Constant, DiagX, LevyDrivenSDEModel
    from rpylib.montecarlo.configuration import ConfigurationMultiLevel
    from rpylib.montecarlo.path import StochasticJumpPath, create_path
    from rpylib.process.coupling.couplingsde import CouplingSDE
    from rpylib.process.markovchain.markovchainsde import MarkovChainSDE
    n = len(dts4)
    times = np.concatenate(([0.0], np.cumsum(dts4) / 4.0))

    def dy(mu, dW, dL):
        return [[mu[j] * dts4[i] + 4 * (dW[j][i] + dL[j][i]) for i in range(n)] for j in range(2)]
    m = 2 if coef[0] == "diag" else coef[2]

    def rows_of(dyj):
        # effective increment of each component of X: its own driver (DiagX) or c * (sum of the drivers) (Constant)
        if coef[0] == "diag":
            return [dyj[0], dyj[1]]
        return [[dyj[0][i] + dyj[1][i] for i in range(n)] for _ in range(m)]
    eff = rows_of(dy(mu4, dW4, dL4))
    hdr = {"kind": ("coupledsde2d:" if coupled else "sde2d:") + coef[0], "coef": coef[0], "c": coef[1], "x0": 0,
           "x0s": list(x0s[:m]) * (2 if coupled else 1), "dy16": eff, "bdt16": [0] * n}
    ev = []
    try:
        pts = list(range(-47, 48, 4))
        atoms = [((a, b), 1) for a in pts for b in pts]
        driver = atomic.atom_copula_model(atoms, 2)
        # margins of different activity: the index of the copula model is the largest one (epsilon = h ^ index = h)
        driver.models[0].blumenthal_getoor_index = lambda: 0.5
        driver.models[1].blumenthal_getoor_index = lambda: 1.0
        a = DiagX(2) if coef[0] == "diag" else Constant(m=m, d=2, constant=float(coef[1]))
        model = LevyDrivenSDEModel(driver=driver, x0=np.array([float(x) for x in x0s[:m]]), a=a)
        step = 32
        axis = np.array([j * step * U for j in range(-1, 2)])
        grid = CTMCGrid(h=step * U, origin_coordinate=1, axes=[axis] * 2)
        product = product_for_init()
        cum = lambda rows: np.array([np.concatenate(([0.0], np.cumsum(r) / 4.0)) for r in rows])
        col = lambda mu: np.array([[mu[0] / 4.0], [mu[1] / 4.0]])
        if not coupled:
            proc = MarkovChainSDE(model=model, method=SamplingMethod.BINARYSEARCHTREEADAPTED, grid=grid)
            proc.initialisation(product)
            proc.markov_chain.simulate_one_path = lambda: StochasticJumpPath(times, cum(dW4), cum(dL4))
            proc.markov_chain.process_drift = lambda: col(mu4)
            proc.simulate_one_path()            # an earlier path on the same process object must leave no trace
            path = proc.simulate_one_path()
            val = np.atleast_2d(path.value())
            xs = [[float(x0s[k]) + v for v in val[k]] for k in range(m)]
            eps_u, h_u = exact_int(proc.epsilon / U), exact_int(grid.h / U)
            eps_drv_u = h_u
        else:
            effc = rows_of(dy(mu4c, dW4c, dL4c))
            hdr["dy16"] = eff + effc
            cs = CouplingSDE(model=model, grid=grid, method=SamplingMethod.BINARYSEARCHTREEADAPTED)
            cs.initialisation(product)
            pms = [create_path(ConfigurationMultiLevel(), cs.fine_process.deterministic_path)]
            cs.pre_computation(mc_paths=1, product=product)
            cs.next_level(1, pms, product)
            diff = np.array([cum(dW4), cum(dW4c)])
            jump = np.array([cum(dL4), cum(dL4c)])
            cs.driver_coupling_process.simulate_one_path_with_coupling = lambda: StochasticJumpPath(times, diff, jump)
            cs.mc_drift_h, cs.mc_drift_2h = col(mu4), col(mu4c)
            path = cs.simulate_one_path_with_coupling()
            val = np.asarray(path.value())          # (2, m, n + 1)
            xs = [[float(x0s[k]) + v for v in val[c][k]] for c in range(2) for k in range(m)]
            eps_u, h_u = exact_int(cs.epsilon / U), exact_int(cs.driver_coupling_process.grid.h / U)
            eps_drv_u = exact_int(cs.driver_coupling_process._path_coupling_simulation.epsilon / U)
        rec = []
        for comp in xs:
            if coef[0] == "const":
                rec.append([exact_int(x * 16) for x in comp])
            else:
                rec.append([exact_int(x * 16 ** i, tol=1e-9) for i, x in enumerate(comp)])
        r = {"e": "Euler", "x": rec, "times4": [exact_int(t * 4) for t in np.asarray(path.times())], "eps_u": eps_u, "h_u": h_u, "eps_drv_u": eps_drv_u}
        r["bad"] = count_bad(r)
        ev.append(r)
    except Exception as ex:
        import traceback
        ev.append({"e": "Raise", "what": type(ex).__name__ + ": " + str(ex)[:100], "tb": traceback.format_exc()[-500:]})
    return {"tid": tid, "hdr": hdr, "ev": ev}


def libor_case(tid, x0, tenors4, sig8, zz, mu4, dts4, dY4, rng):
    """the Levy Libor model with a one-dimensional driver: rates x0, tenors in quarters, volatilities in eighths;
    scripted driver path (time steps dts4 quarters, increments dY4 quarters, chain drift mu4 / 4); zz given"""
    from fractions import Fraction
    from rpylib.distribution.sampling import SamplingMethod
    from rpylib.model.levydrivensde.levylibormodel import LevyLiborModel
    from rpylib.montecarlo.path import StochasticJumpPath
    from rpylib.process.markovchain.markovchainsde import MarkovChainLevyLiborModel
    from harness.encode import ranks
    n = len(dts4)
    times = np.concatenate(([0.0], np.cumsum(dts4) / 4.0))
    fr = lambda a, b: [Fraction(a, b).numerator, Fraction(a, b).denominator]
    hdr = {"kind": "libor", "x0": [fr(int(v * 4), 4) for v in x0], "tenors": [fr(t, 4) for t in tenors4],
           "deltas": [fr(b - a, 4) for a, b in zip(tenors4, tenors4[1:])], "sig": [fr(v, 8) for v in sig8], "zz": fr(int(zz * 4), 4),
           "mu": fr(mu4, 4), "dt1": fr(dts4[0], 4), "dY1": fr(dY4[0], 4), "times4": [int(v) for v in np.cumsum([0] + dts4)]}
    ev = []
    try:
        atoms = [(k, 1) for k in range(-63, 64, 2)]
        driver = atomic.AtomLevyModel(atoms, sigma=0.0, bg_index=1.0)
        model = LevyLiborModel(libor_rates=np.array([float(v) for v in x0]), tenors=[t / 4.0 for t in tenors4],
                               sigma=np.array([[v / 8.0] for v in sig8]), driver=driver)
        proc = MarkovChainLevyLiborModel(model=model, method=SamplingMethod.BINARYSEARCHTREE, grid=make_grid())
        proc._integral_zz = lambda: np.array([[float(zz)]])
        proc.initialisation(product_for_init())
        jump = np.concatenate(([0.0], np.cumsum(dY4) / 4.0))
        proc.markov_chain.simulate_one_path = lambda: StochasticJumpPath(times, np.zeros(n + 1), jump)
        proc.markov_chain.process_drift = lambda: mu4 / 4.0
        path = proc.simulate_one_path()
        val = np.atleast_2d(path.value())
        xs = [[float(x0[k]) + float(v) for v in val[k]] for k in range(len(x0))]
        first = []
        for k in range(len(x0)):
            f = Fraction(xs[k][1]).limit_denominator(1 << 20)
            first.append([f.numerator, f.denominator] if abs(float(f) - xs[k][1]) < 1e-12 else [0, 0])
        flat = [v for row in xs for v in row]
        rk = ranks(flat)
        ev.append({"e": "Libor", "first": first, "xr": [rk[k * (n + 1):(k + 1) * (n + 1)] for k in range(len(x0))]})
    except Exception as ex:
        import traceback
        ev.append({"e": "Raise", "what": type(ex).__name__ + ": " + str(ex)[:100], "tb": traceback.format_exc()[-400:]})
    return {"tid": tid, "hdr": hdr, "ev": ev}


def df_cases():
    """df(t) of every model on a mesh reaching the last tenor (quantised 1e-9)"""
    from harness.models import copula_models, exp_models, levy_models
    from rpylib.model.levydrivensde.levydrivensde import LevyDrivenSDEModel
    from rpylib.model.levydrivensde.levylibormodel import LevyLiborModel
    from rpylib.model.utils import create_levy_forward_market_model, create_levy_forward_market_model_copula
    lm, em, cm = levy_models(), exp_models(), copula_models()
    out = []
    models = [("levy:hem", lm["hem"], 3.0, 0.0), ("exp:hem", em["hem"], 3.0, 0.02), ("exp:bs", em["bs"], 10.0, 0.02),
              ("copula", cm["clayton2_hem_merton"], 3.0, 0.0), ("sde", LevyDrivenSDEModel(driver=lm["hem"], x0=1.0), 3.0, 0.0)]
    fwd = create_levy_forward_market_model(lm["cgmy05"])
    models.append(("forward", fwd, float(fwd.tenors[-1]), float(np.max(fwd.x0))))
    fwd2 = create_levy_forward_market_model_copula([lm["hem"], lm["hem2"]])
    models.append(("forward_copula", fwd2, float(fwd2.tenors[-1]), float(np.max(fwd2.x0))))
    tenors = [0.5, 1.0, 1.5, 2.5, 3.0]
    lib = LevyLiborModel(libor_rates=np.array([0.03, 0.01, 0.05, 0.02]), tenors=tenors, sigma=np.array([[0.5], [0.8], [1.0], [1.2]]), driver=lm["cgmy05"])
    models.append(("libor", lib, 3.0, 0.05))
    fw3 = type(fwd)(ois_rates=[0.04, 0.0, 0.06], tenors=[1.0, 2.0, 2.25, 4.0], sigma=np.array([[0.5], [0.8], [1.0]]), driver=lm["cgmy05"])
    models.append(("forward_uneven", fw3, 4.0, 0.06))
    for name, m, horizon, maxrate in models:
        ts = set(np.linspace(0.0, horizon, 49))
        for T in getattr(m, "tenors", []):
            for d in (-1e-6, 0.0, 1e-6, 1e-3):
                if 0 <= T + d <= horizon:
                    ts.add(float(T + d))
        ts = sorted(ts)
        ev = []
        try:
            q = [quantise(float(m.df(t)), 1e-9) for t in ts]
            # admissible decrease between neighbours: maxrate * dt (simple compounding), in units of 1e-9, plus 2
            steps = [int(maxrate * (b - a) * 1e9) + 3 for a, b in zip(ts, ts[1:])]
            ev.append({"e": "Df", "q": q, "unit": 10 ** 9, "maxdrop": steps, "bad": count_bad(q)})
        except Exception as ex:
            ev.append({"e": "Raise", "what": type(ex).__name__ + ": " + str(ex)[:100]})
        out.append({"tid": "", "hdr": {"kind": "df:" + name}, "ev": ev})
    return out


def main():
    out, tier, seed = sys.argv[1], sys.argv[2], int(sys.argv[3])
    quick = tier == "quick"
    rng = random.Random(seed)
    traces = []
    incs = [-2, -1, 0, 1, 2]
    for coef in (("const", 1), ("const", 2), ("diag", 0)):
        for n in (1, 2, 3, 4):
            for rep in range(3 if quick else 12):
                dts4 = [rng.choice([1, 2, 4]) for _ in range(n)]
                dW4 = [rng.choice(incs) for _ in range(n)]
                dL4 = [rng.choice(incs) for _ in range(n)]
                mu4 = rng.choice([0, 1, 2])
                traces.append(sde_case(f"s{len(traces)}", coef, rng.choice([1, 2, 3]), mu4, dts4, dW4, dL4, False, beta=rng.choice([0, 1, 2])))
                if rep % 2 == 0:
                    dW4c = [rng.choice(incs) for _ in range(n)]
                    dL4c = [rng.choice(incs) for _ in range(n)]
                    traces.append(sde_case(f"s{len(traces)}", coef, rng.choice([1, 2]), mu4, dts4, dW4, dL4, True,
                                           mu4c=rng.choice([0, 1, 3]), dW4c=dW4c, dL4c=dL4c, beta=rng.choice([0, 1])))
    # two-dimensional copula driver
    for coef in (("diag", 0), ("const", 1, 2), ("const", 2, 1), ("const", 1, 1)):
        for n in (1, 2, 3):
            for rep in range(2 if quick else 8):
                dts4 = [rng.choice([1, 2, 4]) for _ in range(n)]
                two = lambda: [[rng.choice(incs) for _ in range(n)] for _ in range(2)]
                mu = lambda: [rng.choice([0, 1, 2]), rng.choice([0, 1, 3])]
                x0s = [rng.choice([1, 2, 3]), rng.choice([1, 2])]
                traces.append(sde_case_2d(f"s{len(traces)}", coef, x0s, mu(), dts4, two(), two(), False))
                traces.append(sde_case_2d(f"s{len(traces)}", coef, x0s, mu(), dts4, two(), two(), True, mu4c=mu(), dW4c=two(), dL4c=two()))
    # the Levy Libor model: first Euler step exact, fixed rates frozen
    for rep in range(6 if quick else 30):
        m = rng.choice([2, 3, 3])
        tenors4 = [1, 2, 3, 4][:m + 1]
        x0 = [rng.choice([0.25, 0.5, 1.0]) for _ in range(m)]
        sig8 = [rng.choice([1, 2, 4]) for _ in range(m)]
        n = rng.choice([3, 4, 5])
        dts4 = [1] * n if rep % 2 == 0 else [rng.choice([1, 1, 2]) for _ in range(n)]
        dY4 = [rng.choice(incs) for _ in range(n)]
        traces.append(libor_case(f"s{len(traces)}", x0, tenors4, sig8, rng.choice([1.0, 0.5, 2.0]), rng.choice([0, 1, 2]), dts4, dY4, rng))
    for t in df_cases():
        t["tid"] = f"s{len(traces)}"
        traces.append(t)
    with open(out, "w") as f:
        for t in traces:
            f.write(json.dumps(t, separators=(",", ":")) + "\n")
    print(len(traces))


if __name__ == "__main__":
    main()
