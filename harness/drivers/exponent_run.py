"""C10 driver (thin half): the characteristic exponent against the Levy-Khintchine integral of the model's own density,
and the cumulant classes against the moments of that density.

usage: python -m harness.drivers.exponent_run <out.ndjson> <tier> <seed>

For HEM, Merton, variance gamma and CGMY (y < 0, y = 0, 0 < y < 1, y = 1, 1 < y < 2) at seeded parameters:
  Exponent : model.levy_exponent(x) at real and complex arguments (x = -i is the martingale argument) next to
             i x a - sigma^2 x^2 / 2 + int (e^{ixy} - 1 - i x h(y)) nu(y) dy
             with a = the drift the model was built with, h = the cut-off of the representation the model DECLARES and nu the
             model's own density (scipy quadrature; y = +-s^16 next to zero so that the algebraic singularity is smooth);
  Cumulant : cumulant_n(t) / t next to a + int (y - h(y)) nu (n = 1), sigma^2 + int y^2 nu (n = 2), int y^n nu (n = 4, 6).
Values are quantised on the row's own scale (1e-7 of max(1, |reference|)); TLC compares.
"""
import cmath
import json
import random
import sys
import warnings

import numpy as np
from scipy.integrate import quad

from harness.encode import quantise, NONINT

warnings.filterwarnings("ignore")
CUTS = [-np.inf, -5.0, -1.0, -0.2, -0.02, 0.0, 0.02, 0.2, 1.0, 5.0, np.inf]


def _q(f, l, r):
    re = quad(lambda y: f(y).real, l, r, epsabs=1e-14, epsrel=1e-13, limit=400)[0]
    im = quad(lambda y: f(y).imag, l, r, epsabs=1e-14, epsrel=1e-13, limit=400)[0]
    return complex(re, im)


def integral(f):
    """int f(y) dy over the line; f may have an integrable algebraic singularity at 0"""
    tot = 0j
    for l, r in zip(CUTS, CUTS[1:]):
        if l == 0.0:        # y = s^16
            tot += _q(lambda s: f(s ** 16) * 16 * s ** 15, 0.0, r ** 0.0625)
        elif r == 0.0:      # y = -s^16
            tot += _q(lambda s: f(-s ** 16) * 16 * s ** 15, 0.0, (-l) ** 0.0625)
        else:
            tot += _q(f, l, r)
    return tot


def kernel(z, y, hy):
    """e^{zy} - 1 - z h(y) without cancellation next to y = 0"""
    w = z * y
    if hy == 0.0:
        return complex(np.expm1(w))
    if hy == y:
        if abs(w) < 0.05:
            term, tot = w * w / 2, 0j
            for k in range(3, 12):
                tot += term
                term = term * w / k
            return tot + term
        return cmath.exp(w) - 1 - w
    return cmath.exp(w) - 1 - z * hy


def models(rng, quick):
    from rpylib.model.levymodel.mixed.hem import HEMParameters, HEMModel
    from rpylib.model.levymodel.mixed.merton import MertonParameters, MertonModel
    from rpylib.model.levymodel.purejump.cgmy import CGMYParameters, CGMYModel
    from rpylib.model.levymodel.purejump.variancegamma import VGParameters, VarianceGammaModel
    u = rng.uniform
    out = []
    for _ in range(1 if quick else 10):
        ph = (u(0.05, 0.4), u(0.2, 0.8), u(3, 30), u(3, 30), u(0.5, 8))
        pm = (u(0.05, 0.4), u(0.01, 0.3), u(0.1, 0.4), u(0.5, 8))
        pv = (u(0.1, 0.4), u(0.1, 0.6), u(-0.3, 0.2))
        ph0 = (0.0, u(0.2, 0.8), u(3, 30), u(3, 30), u(0.5, 8))
        pm0 = (0.0, u(0.05, 0.3), u(0.1, 0.4), u(0.5, 8))
        # factories: built inside the scenario, so that a constructor that raises is a recorded exception
        out.append(("hem", lambda ph=ph: HEMModel(HEMParameters(*ph))))
        out.append(("merton", lambda pm=pm: MertonModel(MertonParameters(*pm))))
        out.append(("vg", lambda pv=pv: VarianceGammaModel(VGParameters(*pv))))
        # jump-diffusions without diffusion: the compensating drift is still there
        out.append(("hem_nosigma", lambda ph0=ph0: HEMModel(HEMParameters(*ph0))))
        out.append(("merton_nosigma", lambda pm0=pm0: MertonModel(MertonParameters(*pm0))))
        for tag, y in (("cgmy_neg", u(-1.6, -0.2)), ("cgmy_0", 0.0), ("cgmy_01", u(0.1, 0.9)), ("cgmy_1", 1.0),
                       ("cgmy_12", u(1.1, 1.8))):
            pc = (u(0.05, 2.0), u(2.5, 12.0), u(2.5, 12.0), y)
            out.append((tag, lambda pc=pc: CGMYModel(CGMYParameters(*pc))))
    return out


def one(tag, factory, rng):
    from rpylib.model.levymodel.levymodel import LevyRepresentation as R
    try:
        m = factory()
    except Exception as ex:
        return {"hdr": {"kind": "exponent:" + tag, "rep": "?"},
                "ev": [{"e": "Raise", "what": "constructor: " + type(ex).__name__ + ": " + str(ex)[:80]}]}
    nu = m.levy_triplet.nu
    rep = m.levy_triplet.representation
    a = float(m.levy_triplet.a)          # read right after construction: the drift of the declared representation
    s = float(m.levy_triplet.sigma)
    fv = nu.jump_of_finite_variation()
    ev = []

    def h(y):
        if rep == R.ZERO:
            return 0.0
        if rep == R.CENTER:
            return y
        if rep == R.ONEONE:
            return y if abs(y) < 1 else 0.0
        return 0.0 if fv else (y if abs(y) < 1 else 0.0)

    def dens(y):
        return float(nu(y))

    def integrand(z, y):
        d = dens(y)
        if d == 0.0:          # far in the tails the density underflows before e^{zy} overflows
            return 0j
        return kernel(z, y, h(y)) * d

    hdr = {"kind": "exponent:" + tag, "rep": rep.name}
    try:
        rows = []
        xs = [0.5, 2.5, -1.5, 7.0, -1j, -0.5j, 1 - 0.5j, rng.uniform(-4, 4), complex(rng.uniform(-3, 3), -rng.uniform(0.1, 0.9))]
        for k, x in enumerate(xs):
            z = 1j * x
            ref = 1j * x * a - 0.5 * (x * s) ** 2 + integral(lambda y: integrand(z, y))
            v = complex(m.levy_exponent(x))
            u = 1e-7 * max(1.0, abs(ref))
            rows.append([k, quantise(v.real, u), quantise(v.imag, u), quantise(ref.real, u), quantise(ref.imag, u)])
        ev.append({"e": "Exponent", "rows": rows})
        rows = []
        t = rng.choice([0.5, 2.0, 3.0])          # never 1: t and 1 / t must differ
        refs = {1: a + integral(lambda y: complex((y - h(y)) * dens(y))).real, 2: s * s + integral(lambda y: complex(y * y * dens(y))).real}
        for n in (4, 6):
            refs[n] = integral(lambda y: complex(y ** n * dens(y))).real
        for n in (1, 2, 4, 6):
            try:
                v = float(getattr(m.cumulant, "cumulant%d" % n)(t)) / t
            except NotImplementedError:
                continue
            u = 1e-7 * max(1e-3, abs(refs[n]))
            rows.append([n, quantise(v, u), quantise(refs[n], u)])
        ev.append({"e": "Cumulant", "rows": rows})
        if tag in ("hem", "hem_nosigma", "merton", "merton_nosigma"):
            ev.append(jump_law(tag, m, rng))
    except Exception as ex:
        ev.append({"e": "Raise", "what": type(ex).__name__ + ": " + str(ex)[:80]})
    return {"hdr": hdr, "ev": ev}


def jump_law(tag, m, rng):
    """model.jump_increment with its random source scripted, against the model's own Levy measure: the side of a jump is
    chosen with the mass of that half-line, its size by inversion of the measure's tail on that side (HEM: two uniforms
    per jump); Merton: mu_j + sigma_j w for the scripted normal w, i.e. nu(-inf, z] / lambda = Phi(w)"""
    from scipy.stats import norm
    nu = m.levy_triplet.nu
    lam = float(nu.integrate(-np.inf, np.inf))
    rows = []
    saved = (np.random.random, np.random.normal)
    try:
        if tag.startswith("hem"):
            n = 12
            us = [(2 * rng.randrange(32) + 1) / 64 for _ in range(n)]
            vs = [(2 * rng.randrange(32) + 1) / 64 for _ in range(n)]
            feed = [np.array(us), np.array(vs)]
            np.random.random = lambda size=None: feed.pop(0)
            z = np.ravel(m.jump_increment(n))
            pplus = float(nu.integrate(0.0, np.inf)) / lam
            for u, v, zi in zip(us, vs, z):
                zi = float(zi)
                side_ok = 1 if ((zi > 0) == (u < pplus)) else 0
                tail = float(nu.integrate(zi, np.inf)) / float(nu.integrate(0.0, np.inf)) if zi > 0 else \
                    float(nu.integrate(-np.inf, zi)) / float(nu.integrate(-np.inf, 0.0))
                rows.append([side_ok, quantise(tail, 1e-9), quantise(1.0 - v, 1e-9)])
        else:
            ws = [rng.uniform(-2.5, 2.5) for _ in range(10)]
            np.random.normal = lambda loc=0.0, scale=1.0, size=None: loc + scale * np.array(ws)
            z = np.ravel(m.jump_increment(len(ws)))
            for w, zi in zip(ws, z):
                rows.append([1, quantise(float(nu.integrate(-np.inf, float(zi))) / lam, 1e-9), quantise(float(norm.cdf(w)), 1e-9)])
    finally:
        np.random.random, np.random.normal = saved
    return {"e": "JumpLaw", "rows": rows}


def main():
    out, tier, seed = sys.argv[1], sys.argv[2], int(sys.argv[3])
    quick = tier == "quick"
    rng = random.Random(seed + 17)
    traces = [one(tag, m, rng) for tag, m in models(rng, quick)]
    with open(out, "w") as f:
        for k, t in enumerate(traces):
            f.write(json.dumps({"tid": f"x{k}", "hdr": t["hdr"], "ev": t["ev"]}) + "\n")
    print(json.dumps({"traces": len(traces)}))


if __name__ == "__main__":
    main()
