"""C18 driver (thin): the REAL COS / FFT / closed-form pricers on ladders of strikes inside the truncation range.

usage: python -m harness.drivers.pricer_run <out.ndjson> <tier> <seed>
For every exponential model of the documented box (harness.models.exp_models plus the variance-gamma model written as
a CGMY model) and maturity: a uniform ladder of strikes inside the middle half of the COS truncation range; recorded,
quantised to 1e-7 of the spot: COS call / put / forward contract / digital on the ladder, the same prices asked strike by
strike (scalar), through COSPricer.price on Product objects, from the FFT pricer and (Black-Scholes) the closed form;
the COS density on a grid (minimum, integral).  TLC applies the relations of Pricers.tla with the tolerances of the header.
"""
import json
import random
import sys
import warnings

import numpy as np

from harness.encode import quantise

warnings.filterwarnings("ignore")


def qv(values, unit):
    return [quantise(float(v), unit) for v in np.ravel(values)]


def trunc_range(model, T, l=10):
    """the cumulant-based truncation range of Fang & Oosterlee, from the model's public cumulant object (the pricer's own
    private helper is not an observation point)"""
    cum = model.cumulant
    c1, c2, c4 = cum.cumulant1(T), cum.cumulant2(T), cum.cumulant4(T)
    try:
        c6 = cum.cumulant6(T)
    except Exception:
        c6 = 0
    delta = l * np.sqrt(c2 + np.sqrt(c4 + np.sqrt(c6)))
    return c1 - delta, c1 + delta


def box(rng, quick):
    from harness.models import exp_models
    from rpylib.model.levymodel.purejump.cgmy import CGMYParameters, ExponentialOfCGMYModel
    ms = dict(exp_models())
    vg = ms["vg"]
    p = vg.levy_model.parameters
    # variance gamma (sigma, nu, theta) as CGMY: C = 1 / nu, M = (sqrt(theta^2 + 2 sigma^2 / nu) - theta) / sigma^2, G = M + 2 theta / sigma^2
    s2 = float(p.sigma) ** 2
    lam_p = (np.sqrt(float(p.theta) ** 2 + 2 * s2 / float(p.nu)) - float(p.theta)) / s2
    lam_m = lam_p + 2 * float(p.theta) / s2
    ms["vg_as_cgmy"] = ExponentialOfCGMYModel(vg.spot, vg.r, vg.d, CGMYParameters(1.0 / float(p.nu), lam_m, lam_p, 0.0))
    # a Black-Scholes model with a dividend yield, and models whose rates were assigned after construction
    from rpylib.model.utils import create_exponential_of_levy_model, ModelType
    ms["bs_div"] = create_exponential_of_levy_model(ModelType.BLACKSCHOLES)(spot=90.0, r=0.03, d=0.02, sigma=0.25)
    m = create_exponential_of_levy_model(ModelType.BLACKSCHOLES)(spot=100.0, r=0.05, d=0.0, sigma=0.2)
    m.d = 0.04
    m.r = 0.02
    ms["bs_updated"] = m
    m = create_exponential_of_levy_model(ModelType.CGMY)()
    m.d = 0.03
    m.r = 0.01
    ms["cgmy_updated"] = m
    ms["cgmy_direct"] = create_exponential_of_levy_model(ModelType.CGMY)(r=0.01, d=0.03)
    return ms


def random_box(rng, reps):
    """seeded parameters inside a documented box (price clauses only: the density clauses are stated for the fixed models)"""
    from rpylib.model.utils import create_exponential_of_levy_model as C, ModelType as MT
    u = rng.uniform
    out = []
    for rep in range(reps):
        base = dict(spot=u(50, 150), r=u(0, 0.06), d=u(0, 0.04))
        out.append((f"rnd{rep}:hem", C(MT.HEM)(**base, sigma=u(.1, .3), p=u(.3, .7), eta1=u(8, 40), eta2=u(8, 40), intensity=u(.5, 5))))
        out.append((f"rnd{rep}:merton", C(MT.MERTON)(**base, sigma=u(.1, .3), mu_j=u(.01, .15), sigma_j=u(.05, .3), intensity=u(.5, 3))))
        out.append((f"rnd{rep}:vg", C(MT.VG)(**base, sigma=u(.1, .3), nu=u(.05, .4), theta=u(-.2, .2))))
        out.append((f"rnd{rep}:cgmy", C(MT.CGMY)(**base, c=u(.3, 1.2), g=u(6, 25), m=u(6, 25), y=u(.1, 1.0))))
        out.append((f"bs:rnd{rep}", C(MT.BLACKSCHOLES)(**base, sigma=u(.1, .5))))
    return out


def one(name, model, T, rng, quick, twin=None, light=False):
    from rpylib.numerical.cosmethod import COSPricer
    from rpylib.numerical.fft import FFTPricer
    from rpylib.numerical.closedform.cfblackscholes import CFBlackScholes
    from rpylib.product.product import Product
    from rpylib.product.payoff import Vanilla, Forward, PayoffType
    from rpylib.product.underlying import Spot
    S = float(model.spot)
    unit = 1e-7 * S
    ev = []
    hdr = {"kind": f"pricer:{name}", "T100": int(round(T * 100)), "tol": 300, "tola": 60, "tolp": 3}
    try:
        cos = COSPricer(model)
        a, b = trunc_range(model, T)
        lo, hi = max(S * np.exp(a / 2), 0.3 * S), min(S * np.exp(b / 2), 3.0 * S)
        n = 21 if quick else 41
        K = np.linspace(lo, hi, n)
        df = float(model.df(T))
        fwd = S * float(model.mean(T))
        c, p, f, d = cos.call(K, T), cos.put(K, T), cos.forward(K, T), cos.digital(K, T)
        ev.append({"e": "Ladder", "c": qv(c, unit), "p": qv(p, unit), "f": qv(f, unit), "d": qv(d, 1e-7),
                   "contract": qv(df * (fwd - K), unit), "dF": quantise(df * fwd, unit), "dfq": quantise(df, 1e-7),
                   "rn": quantise(fwd - S * np.exp((model.r - model.d) * T), unit)})
        # strike by strike, and through price() on Product objects
        idx = sorted(rng.sample(range(n), 4))
        rows, rows_p = [], []
        for i in idx:
            k = float(K[i])
            rows.append([quantise(c[i], unit), quantise(float(np.ravel(cos.call(k, T))[0]), unit)])
            rows.append([quantise(p[i], unit), quantise(float(np.ravel(cos.put(k, T))[0]), unit)])
            rows.append([quantise(d[i], 1e-7), quantise(float(np.ravel(cos.digital(k, T))[0]), 1e-7)])
            under = Spot()
            for payoff, ref in ((Vanilla(strike=k, payoff_type=PayoffType.CALL), c[i]), (Vanilla(strike=k, payoff_type=PayoffType.PUT), p[i]),
                                (Forward(strike=k), f[i])):
                v = cos.price(Product(payoff_underlying=under, payoff=payoff, maturity=T))
                rows_p.append([quantise(ref, unit), quantise(float(np.ravel(v)[0]), unit)])
        ev.append({"e": "Scalar", "rows": rows})
        ev.append({"e": "Dispatch", "rows": rows_p})
        bf = cos.butterfly(float(K[2]), float(K[5]), float(K[8]), T)
        ev.append({"e": "Dispatch", "rows": [[quantise(c[2] - 2 * c[5] + c[8], unit), quantise(float(bf), unit)]]})
        # the other pricers
        rows = []
        fft = FFTPricer(model)
        for x, y in zip(fft.call(K, T), c):
            rows.append([quantise(x, unit), quantise(y, unit)])
        for x, y in zip(fft.put(K, T), p):
            rows.append([quantise(x, unit), quantise(y, unit)])
        if name.startswith("bs"):
            bs = CFBlackScholes(model)
            for i in range(n):
                rows.append([quantise(bs.call(float(K[i]), T), unit), quantise(c[i], unit)])
                rows.append([quantise(bs.put(float(K[i]), T), unit), quantise(p[i], unit)])
                rows.append([quantise(bs.forward(float(K[i]), T), unit), quantise(f[i], unit)])
            for x, y in zip(np.ravel(bs.digital(K, T)), d):
                rows.append([quantise(x * S, unit), quantise(y * S, unit)])
            rows.append([quantise(float(np.ravel(bs.digital(float(K[3]), T))[0]) * S, unit), quantise(d[3] * S, unit)])
        if twin is not None:
            ct = COSPricer(twin).call(K, T)
            for x, y in zip(ct, c):
                rows.append([quantise(x, unit), quantise(y, unit)])
        ev.append({"e": "Agree", "rows": rows})
        if T < 0.09 or light:
            # at very short maturities the law of a pure-jump model is too peaked for the cosine series of the DENSITY to
            # have converged (the prices, which integrate it, have): the density clauses are stated for T >= 0.1
            return {"hdr": hdr, "ev": ev}
        # implied density on the truncation range
        s = np.linspace(S * np.exp(a * 0.95), S * np.exp(b * 0.95), 2001 if quick else 4001)
        dens = cos.density(T, s)
        ev.append({"e": "Density", "min": quantise(float(np.min(dens)) * S, 1e-7), "int": quantise(float(np.trapezoid(dens, s)), 1e-7),
                   "one": quantise(1.0, 1e-7)})
        # the distribution function against the density: increments over the ladder
        cdf = np.ravel(cos.cdf(T, K))
        mass = []
        for i in range(n - 1):
            g = np.linspace(K[i], K[i + 1], 201)
            mass.append(float(np.trapezoid(cos.density(T, g), g)))
        ev.append({"e": "Cdf", "cdf": qv(cdf, 1e-7), "mass": qv(mass, 1e-7)})
    except Exception as ex:
        ev.append({"e": "Raise", "what": type(ex).__name__ + ": " + str(ex)[:80]})
    return {"hdr": hdr, "ev": ev}


def degenerate(rng):
    """Black-Scholes closed form in its degenerate branch (no volatility / no time): discounted intrinsic values"""
    from rpylib.model.utils import create_exponential_of_levy_model, ModelType
    from rpylib.numerical.closedform.cfblackscholes import CFBlackScholes
    ev = []
    hdr = {"kind": "pricer:bs-degenerate", "T100": 100, "tol": 300, "tola": 60, "tolp": 3}
    try:
        for sigma, T in ((1e-12, 1.0), (0.2, 0.0), (1e-12, 2.0)):
            m = create_exponential_of_levy_model(ModelType.BLACKSCHOLES)(sigma=sigma)
            bs = CFBlackScholes(m)
            S = float(m.spot)
            unit = 1e-7 * S
            df = float(np.exp(-m.r * T))
            fwd = S * float(np.exp((m.r - m.d) * T))
            K = np.linspace(0.6 * S, 1.5 * S, 10)
            c = [bs.call(float(k), T) for k in K]
            p = [bs.put(float(k), T) for k in K]
            d = np.ravel(bs.digital(K, T))
            ev.append({"e": "Ladder", "c": qv(c, unit), "p": qv(p, unit), "f": qv([bs.forward(float(k), T) for k in K], unit),
                       "d": qv(d, 1e-7), "contract": qv(df * (fwd - K), unit), "dF": quantise(df * fwd, unit),
                       "dfq": quantise(df, 1e-7), "rn": 0})
            rows = [[quantise(c[i], unit), quantise(df * max(fwd - K[i], 0.0), unit)] for i in range(len(K))]
            rows += [[quantise(d[i] * S, unit), quantise(df * (1.0 if fwd > K[i] else 0.0) * S, unit)] for i in range(len(K))]
            rows.append([quantise(float(np.ravel(bs.digital(float(K[2]), T))[0]) * S, unit), quantise(d[2] * S, unit)])
            ev.append({"e": "Agree", "rows": rows})
    except Exception as ex:
        ev.append({"e": "Raise", "what": type(ex).__name__ + ": " + str(ex)[:80]})
    return {"hdr": hdr, "ev": ev}


def main():
    out, tier, seed = sys.argv[1], sys.argv[2], int(sys.argv[3])
    quick = tier == "quick"
    rng = random.Random(seed + 31)
    traces = []
    try:
        ms = box(rng, quick)
        rnd = random_box(rng, 1 if quick else 8)
    except Exception as ex:
        # a model of the documented box cannot even be built: a recorded exception, not a crash of the driver
        ms, rnd = {}, []
        traces.append({"hdr": {"kind": "pricer:box", "T100": 0, "tol": 300, "tola": 60, "tolp": 3},
                       "ev": [{"e": "Raise", "what": "constructor: " + type(ex).__name__ + ": " + str(ex)[:80]}]})
    mats = [0.02, 0.1, 0.5, 1.0, 2.0] if quick else [0.02, 0.05, 0.1, 0.25, 0.5, 1.0, 1.5, 2.0]
    for name, m in ms.items():
        if name == "cgmy_direct":
            continue
        for T in mats:
            twin = ms["vg_as_cgmy"] if name == "vg" else None
            if name == "cgmy_updated":      # the same model built directly with the final rates
                twin = ms["cgmy_direct"]
            traces.append(one(name, m, T, rng, quick, twin=twin))
    # (box measured on 30 draws x 4 maturities: agreement within 2.6e-6 spot, shape relations within 9.5e-6; outside it -
    # heavier CGMY tails at long maturities, variance gamma at maturities of a month - the FFT pricer itself loses accuracy)
    for name, m in rnd:
        for T in ([0.5] if quick else [0.1, 0.5, 1.0, 2.0]):
            if T < 0.5 and (name.endswith(":vg") or name.endswith(":cgmy")):
                continue      # pure-jump laws at a maturity of a month: too peaked for the digital's cosine series at random parameters
            tr = one(name, m, T, rng, True, light=True)
            tr["hdr"]["tola"] = 120
            traces.append(tr)
    traces.append(degenerate(rng))
    with open(out, "w") as f:
        for k, t in enumerate(traces):
            f.write(json.dumps({"tid": f"p{k}", "hdr": t["hdr"], "ev": t["ev"]}) + "\n")
    print(json.dumps({"traces": len(traces)}))


if __name__ == "__main__":
    main()
