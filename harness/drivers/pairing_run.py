"""C14 driver: pairing functions, signed extensions, interval enumeration in many call orders, lazy product,
StatesManager enumeration.   usage: python -m harness.drivers.pairing_run <out.ndjson> <tier> <seed>
"""
import itertools
import json
import random
import sys
import warnings

import numpy as np

warnings.filterwarnings("ignore")
BASE = 1 << 24


def big(n):
    """limb encoding <<sign, l0, l1, ...>> of an integer (sign 1 / -1); "X" for anything that is not an integer"""
    try:
        if isinstance(n, (float, np.floating)):
            if n != int(n):
                return [-2, 0]
        n = int(n)
    except Exception:
        return [-2, 0]
    s, a = (1, n) if n >= 0 else (-1, -n)
    limbs = []
    while True:
        limbs.append(a % BASE)
        a //= BASE
        if a == 0:
            break
    return [s] + limbs


def main():
    out, tier, seed = sys.argv[1], sys.argv[2], int(sys.argv[3])
    quick = tier == "quick"
    rng = random.Random(seed)
    from rpylib.distribution import pairing as P
    from rpylib.grid.spatial import CTMCGrid
    from rpylib.tools.generic import lazy_indices_product
    traces = []

    def add(kind, ev, **hdr):
        traces.append({"tid": f"{kind}{len(traces)}", "hdr": dict(hdr, kind=kind), "ev": ev})

    classes = {"cantor": P.Cantor, "rs": P.RosenbergStrong, "szudzik": P.Szudzik, "pepis": P.PepisKalmar,
               "hyperbolic": P.HyperbolicPairing}
    nsmall = 400 if quick else 3000
    # ---- N <-> N^2 (and N^3 through the generic recursion / the n-d Rosenberg-Strong) -----------------------------
    for name, cls in classes.items():
        for dim in (2, 3, 4):
            if name == "cantor" and dim >= 3:
                continue    # not offered (projection raises NotImplementedError)
            kind = {("rs", 3): "rs3", ("szudzik", 3): "sz3"}.get((name, dim), name if dim == 2 else f"{name}{dim}")
            n = nsmall if name != "hyperbolic" else (150 if quick else 600)
            if name == "pepis" and dim == 3:
                n = min(n, 300)
            if dim == 4:      # the generic recursion one level deeper (round trips only: no TLA+ definition in 4 dimensions)
                n = 60 if name == "pepis" else (150 if quick else 1000)
            obj = cls()
            ev, ps, ok = [], [], 1
            for z in range(n):
                try:
                    p = tuple(int(v) for v in obj.projection(z, dim))
                    zz = obj.pairing(p)
                    ev.append({"e": "RT", "z": big(z), "p": [big(v) for v in p], "zz": big(zz), "ok": 1})
                    ps.append(list(p))
                except Exception:
                    ev.append({"e": "RT", "z": big(z), "p": [], "zz": [0], "ok": 0})
                    ok = 0
            ev.append({"e": "Block", "ps": ps, "ok": ok})
            m = 7 if dim == 2 else (4 if dim == 3 else 3)
            for x in itertools.product(range(m), repeat=dim):
                if name == "pepis" and sum(x) > 9:
                    continue
                try:
                    z = obj.pairing(tuple(x))
                    xx = obj.projection(int(z), dim)
                    ev.append({"e": "TR", "x": [big(v) for v in x], "z": big(z), "xx": [big(v) for v in xx], "ok": 1})
                except Exception:
                    ev.append({"e": "TR", "x": [], "z": [0], "xx": [], "ok": 0})
            add(kind, ev, signed=0, dim=dim)
    # ---- indices next to perfect squares / cubes at the magnitudes grids can reach -------------------------------
    ms2 = [10 ** 3, 46340, 46341, 10 ** 5, 94906265, 94906266, 94906267, 10 ** 8, 123456789, 2 * 10 ** 8]
    for name in ("rs", "szudzik", "cantor"):
        obj = classes[name]()
        ev = []
        for m in ms2:
            zs = [m * m - 1, m * m, m * m + 1, m * m + m - 1, m * m + m, m * m + m + 1, m * m + 2 * m, (m + 1) ** 2 - 1]
            if name == "cantor":   # diagonals: w(w+1)/2 +- 1
                zs = [m * (m + 1) // 2 - 1, m * (m + 1) // 2, m * (m + 1) // 2 + 1, m * (m + 3) // 2, m * (m + 3) // 2 + 1]
            for z in zs:
                try:
                    p = tuple(int(v) for v in obj.projection(z, 2))
                    zz = obj.pairing(p)
                    ev.append({"e": "RT", "z": big(z), "p": [big(v) for v in p], "zz": big(zz), "ok": 1})
                except Exception:
                    ev.append({"e": "RT", "z": big(z), "p": [], "zz": [0], "ok": 0})
        add(name + "_large", ev, signed=0, dim=2)
    obj = P.RosenbergStrong()
    ev = []
    for m in [5, 10, 64, 100, 234, 235, 236, 1000, 5773, 5774, 5775, 10 ** 4, 54321, 10 ** 5]:
        for z in [m ** 3 - 1, m ** 3, m ** 3 + 1, m ** 3 + m * m - 1, m ** 3 + m * m, (m + 1) ** 3 - 1]:
            try:
                p = tuple(int(v) for v in obj.projection(z, 3))
                zz = obj.pairing(p)
                ev.append({"e": "RT", "z": big(z), "p": [big(v) for v in p], "zz": big(zz), "ok": 1})
            except Exception:
                ev.append({"e": "RT", "z": big(z), "p": [], "zz": [0], "ok": 0})
    add("rs3_large", ev, signed=0, dim=3)
    # ---- Z^d \ {0} through PairingToZd ----------------------------------------------------------------------------
    for name, dim, kind in (("rs", 2, "zrs2"), ("rs", 3, "zrs3"), ("szudzik", 2, "zsz2"), ("szudzik", 3, "zsz3")):
        pz = P.PairingToZd(classes[name](), dimension=dim, omit_zero=True)
        ev, ps, ok = [], [], 1
        for k in range(nsmall):
            try:
                st = tuple(int(v) for v in pz.project(k))
                kk = pz.pair(st)
                ev.append({"e": "RT", "z": big(k), "p": [big(abs(v)) for v in st], "zz": big(kk), "ok": 1})
                ps.append(list(st))
            except Exception:
                ev.append({"e": "RT", "z": big(k), "p": [], "zz": [0], "ok": 0})
                ok = 0
        ev.append({"e": "Block", "ps": ps, "ok": ok})
        r = 3 if dim == 2 else 2
        for x in itertools.product(range(-r, r + 1), repeat=dim):
            if not any(x):
                continue
            try:
                k = pz.pair(tuple(x))
                xx = pz.project(int(k))
                ev.append({"e": "TR", "x": [big(v) for v in x], "z": big(k), "xx": [big(v) for v in xx], "ok": 1})
            except Exception:
                ev.append({"e": "TR", "x": [], "z": [0], "xx": [], "ok": 0})
        add(kind, ev, signed=1, dim=dim)
    # ---- asymmetric interval, every call order matters (stateful projection) -------------------------------------
    ivs = [(l, r) for l in range(1, 6) for r in range(1, 6)] + [(5, 60), (60, 5), (3, 200), (150, 40), (40, 40)]
    for (L, R) in ivs:
        n = L + R
        orders = {"inc": list(range(n)), "dec": list(range(n - 1, -1, -1))}
        for j in range(2 if quick else 6):
            o = list(range(n))
            rng.shuffle(o)
            orders[f"perm{j}"] = o
        orders["ends_first"] = [n - 1, n - 2] + list(range(n))
        orders["twice"] = list(range(n)) + list(range(n))
        o = [rng.randrange(n) for _ in range(2 * n)]
        orders["random_repeats"] = o
        if n > 40:
            orders["inc_then_revisit"] = list(range(n)) + [n - 1, min(2 * min(L, R), n - 1), 0, n // 2, n - 1]
        for oname, order in orders.items():
            try:
                p1 = P.PairingToZ1d((-L, R), omit_zero=True)
                calls = []
                for k in order:
                    v = int(p1.project(k))
                    calls.append([k, v, int(p1.pair(v))])
                ev = [{"e": "Z1", "calls": calls, "ok": 1}]
            except Exception:
                ev = [{"e": "Z1", "calls": [], "ok": 0}]
            add("z1d", ev, L=L, R=R, order=("increasing" if oname in ("inc", "twice") else "other"), oname=oname, signed=1)
    # ---- lazy cartesian product ----------------------------------------------------------------------------------
    ev = []
    for n in (1, 2, 3):
        for sizes in itertools.product(range(1, 7), repeat=n):
            if int(np.prod(sizes)) <= 64:
                try:
                    tuples = [[int(v) for v in t] for t in lazy_indices_product(list(sizes))]
                    ev.append({"e": "Lazy", "sizes": list(sizes), "tuples": tuples, "ok": 1})
                except Exception:
                    ev.append({"e": "Lazy", "sizes": list(sizes), "tuples": [], "ok": 0})
    for i in range(0, len(ev), 40):
        add("lazy", ev[i:i + 40], signed=0)
    # ---- StatesManager: every admissible state exactly once before exhaustion ------------------------------------
    boxes = [((l,), (r,)) for l in range(1, 6) for r in range(1, 6)]
    boxes += [((l, l), (r1, r2)) for l in (1, 2, 3) for r1 in (1, 2, 3) for r2 in (1, 2, 3)]
    boxes += [((l, l, l), (r, r, r)) for l in (1, 2) for r in (1, 2)] + [((1, 1, 1), (2, 1, 2)), ((2, 2, 2), (1, 2, 1))]
    if not quick:
        boxes += [((4, 4), (4, 4)), ((5, 5), (2, 6)), ((3, 3, 3), (3, 3, 3)), ((2, 2, 2), (3, 2, 4)), ((40,), (7,)), ((7,), (40,))]
    for Ls, Rs in boxes:
        d = len(Ls)
        axes = [np.arange(-Ls[i], Rs[i] + 1, dtype=float) for i in range(d)]
        ev = []
        try:
            grid = CTMCGrid(h=1.0, origin_coordinate=Ls[0], axes=axes)
            if d == 1:
                pairing = P.PairingToZ1d((-Ls[0], Rs[0]), omit_zero=True)
            elif d == 2:
                pairing = P.PairingToZd(pairing=P.Szudzik(), dimension=2)
            else:
                pairing = P.PairingToZd(pairing=P.RosenbergStrong(), dimension=3)
            dom = P.Domain(boundary=P.Boundary(), grid=grid, pairing=pairing)
            sm = P.StatesManager(pairing=pairing, domain=dom, grid=grid)
            for max_logged in (-1, 3, 12, 20):
                # the call pattern of the inversion sampler: consecutive indices, the storage cap passed along
                sm = P.StatesManager(pairing=pairing, domain=dom, grid=grid)
                outs, exhausted = [], 0
                for x in range(10 * int(np.prod([Ls[i] + Rs[i] + 1 for i in range(d)])) + 10):
                    st, brk = sm.project_index_to_state_increment(x, max_logged) if max_logged >= 0 else sm.project_index_to_state_increment(x)
                    if brk:
                        exhausted = 1
                        break
                    st = [int(st)] if d == 1 else [int(v) for v in st]
                    outs.append(st)
                e = {"e": "Enum", "Ls": list(Ls), "Rs": list(Rs), "out": outs, "exhausted": exhausted, "ok": 1, "cap": max_logged, "out2": [], "again": 0}
                if max_logged >= 0 and exhausted:
                    # the sampler restarts from its storage cap after a pass that ran to exhaustion: the same manager must
                    # hand out, again, every state from that position on
                    outs2, again = [], 0
                    for x in range(max_logged, max_logged + 10 * int(np.prod([Ls[i] + Rs[i] + 1 for i in range(d)])) + 10):
                        st, brk = sm.project_index_to_state_increment(x, max_logged)
                        if brk:
                            again = 1
                            break
                        outs2.append([int(st)] if d == 1 else [int(v) for v in st])
                    e["out2"], e["again"] = outs2, again
                ev.append(e)
        except Exception as ex:
            ev.append({"e": "Enum", "Ls": list(Ls), "Rs": list(Rs), "out": [], "exhausted": 0, "ok": 0, "what": type(ex).__name__})
        add("enum", ev, signed=1, dim=d)
    with open(out, "w") as f:
        for t in traces:
            f.write(json.dumps(t, separators=(",", ":")) + "\n")
    print(len(traces))


if __name__ == "__main__":
    main()
