"""C05 / C06 driver: replay environment scripts (TLC behaviours of MLMC.tla, or random ones) into the real
multilevel engine with a ScriptedCoupling, and record one event per specification action.

usage: python -m harness.drivers.mlmc_run <scripts.json> <out.ndjson>
script: {"tid", "L0", "N0", "LMax", "fixed", "cv", "dim", "steps": [["Ns", [..]] | ["Conv", bool], ...]}
"""
import json
import math
import random
import sys
import warnings
from fractions import Fraction

import numpy as np

from harness import stubs
from harness.encode import count_bad, exact_int, ranks

warnings.filterwarnings("ignore")


def run_script(sc):
    import rpylib.montecarlo.multilevel.engine as eng
    from rpylib.montecarlo.configuration import ConfigurationMultiLevel, ConvergenceRates
    from rpylib.montecarlo.multilevel.criteria import ConvergenceCriteria
    from rpylib.montecarlo.statistic.statistic import MLMCResults
    from rpylib.product.payoff import Forward, Vanilla, PayoffType
    from rpylib.product.product import ControlVariates, Product
    from rpylib.product.underlying import Spot

    stubs.reset_log()
    emit = stubs.emit
    giles = sc.get("giles")          # real GilesConvergenceCriteria, bounded pseudo-random payoffs
    stubs.VALUED[0] = {"c0": giles["c0"], "jit": giles["jit"], "dip": giles.get("dip")} if giles else None
    steps = list(sc["steps"])
    pos = [0]
    gen = random.Random(sc["gen"]) if "gen" in sc else None
    sizes = [1, 2, 3, 4, 5, 6, 8, 10, 12, 15, 16, 20, 24, 30, 40, 48, 60, 80, 120, 240]
    if sc.get("big"):   # the 1 % regime: top-ups of one or two samples on levels that hold hundreds
        sizes = [100, 101, 102, 103, 150, 151, 200, 201, 202, 203, 204, 300, 301, 303, 304]
    state = {"last": None, "calls": 0}

    def gen_ns(n):
        """Environment drawn on the fly: sizes divide 240 (so that the price has a small common denominator)."""
        state["calls"] += 1
        last = state["last"]
        if last is None or len(last) != n:
            base = list(last) if last else []
            if sc.get('big') and not base:
                cur = [sc['N0'] + gen.choice([0, 0, 1, 2, 50, 100]) for _ in range(n)]
            else:
                cur = base + [gen.choice(sizes[:8] if not sc.get('big') else [1, 2, 50, 100]) for _ in range(n - len(base))]
            cur = cur[:n]
        elif gen.random() < 0.55 or state["calls"] > 14:
            cur = list(last)            # same answer: the 1 % test passes, the bias test is asked
        else:
            if sc.get('big'):
                cur = [v + gen.choice([0, 1, 1, 2, 3, 50, 100]) if gen.random() < 0.7 else v for v in last]
            else:
                cur = [gen.choice([x for x in sizes if x >= v][:4] + [v, v, 0][:2]) if gen.random() < 0.6 else v for v in last]
        state["last"] = cur
        return cur

    def compute_mc_paths(rmse, vl, cl):
        n = len(vl)
        ret = None
        if gen is not None:
            ret = gen_ns(n)
            emit(e="Ns", ret=[int(x) for x in ret], nvl=int(len(vl)), ncl=int(len(cl)))
            return np.array(ret, dtype=int)
        while pos[0] < len(steps):
            kind, val = steps[pos[0]]
            if kind == "Ns":
                pos[0] += 1
                ret = list(val)
                break
            # the script expected a bias test here: the run has drifted from the script; stop asking for more
            pos[0] = len(steps)
        if ret is None:
            ret = [0] * n
        ret = (ret + [ret[-1] if ret else 0] * n)[:n]
        emit(e="Ns", ret=[int(x) for x in ret], nvl=int(len(vl)), ncl=int(len(cl)))
        return np.array(ret, dtype=int)

    def criteria(alpha, ml, rmse):
        ret = True
        if gen is not None:
            ret = gen.random() < 0.35 or state["calls"] > 14
            emit(e="Crit", ret=ret, nml=int(len(ml)))
            return ret
        if pos[0] < len(steps) and steps[pos[0]][0] == "Conv":
            ret = bool(steps[pos[0]][1])
            pos[0] += 1
        else:
            pos[0] = len(steps)
        emit(e="Crit", ret=ret, nml=int(len(ml)))
        return ret

    if giles:
        from rpylib.montecarlo.multilevel.criteria import compute_mc_paths_giles, criteria_giles

        def compute_mc_paths(rmse, vl, cl):   # noqa: F811  (recording wrapper around the real allocation)
            ret = compute_mc_paths_giles(rmse, vl, cl)
            emit(e="Ns", ret=[exact_int(x) for x in ret], nvl=int(len(vl)), ncl=int(len(cl)))
            return ret

        def criteria(alpha, ml, rmse):        # noqa: F811  (recording wrapper around the real bias test)
            ret = bool(criteria_giles(alpha, ml, rmse))
            # the weak rate handed to the test: the given one, or the regression of the very level means handed to it
            # (reference evaluation with the same least-squares call; TLC compares equality classes)
            if giles.get("rates") == "regressed":
                nlev = len(ml) - 1
                try:
                    mat = np.ones((nlev, 2))
                    mat[:, 0] = range(1, nlev + 1)
                    with np.errstate(all="ignore"):
                        x = np.linalg.lstsq(mat, np.log2(np.asarray(ml, dtype=float)[1:]), rcond=None)[0]
                    ref = max(0.5, -float(x[0]))
                except Exception:
                    ref = float("nan")
            else:
                ref = 1.0
            emit(e="Crit", ret=ret, nml=int(len(ml)), alpha=ranks([float(alpha), ref], rel=1e-9))
            return ret

    cv = None
    if sc.get("cv"):
        cv_products = [Product(Spot(), Vanilla(strike=float(k), payoff_type=PayoffType.CALL), maturity=1.0)
                       for k in range(3, 3 + 4 * sc["cv"], 4)]
        cv = ControlVariates(cv_products, prices=[1.5 + k for k in range(sc["cv"])])
    kw = {}
    if not (giles and giles.get("rates") == "regressed"):
        kw["convergence_rates"] = ConvergenceRates(alpha=1.0, beta=1.0, gamma=1.0)
    # (rates to be regressed: the configuration's own default is used, as a caller who gives no rates gets it)
    conf = ConfigurationMultiLevel(
        convergence_criteria=ConvergenceCriteria(criteria=criteria, compute_mc_paths=compute_mc_paths),
        initial_level=sc["L0"], maximum_level=sc["LMax"], initial_mc_paths=sc["N0"], seed=1,
        control_variates=cv, nb_of_processes=1, **kw)
    if sc.get("dim", 1) == 1:
        payoff = Forward(strike=0.0)
    else:
        payoff = Vanilla(strike=[0.0, 1.0], payoff_type=PayoffType.CALL)
    # every other script prices a product whose underlying reads the pure-jump component of the path (as the default-time
    # underlyings do): in the scripted paths it carries the same terminal values, component by component
    class JumpSpot(Spot):
        def value(self, times, path, jump_path, payoff_underlying=None):
            return jump_path[..., -1]

        def _value_log(self, times, path, jump_path, payoff_underlying=None):
            return jump_path[..., -1]
    under = JumpSpot() if (sc.get("N0", 0) + sc.get("L0", 0)) % 2 == 0 else Spot()
    product = Product(under, payoff, maturity=1.0, notional=1.0)
    engine = eng.Engine(conf, stubs.ScriptedCoupling())

    # observation points (namespace of the engine module only; rpylib itself is untouched)
    real_create = eng.create_mlmc_statistics
    real_cos = eng.COSPricer

    def create_stats(*a, **k):
        st = real_create(*a, **k)
        emit(e="Init", L0=sc["L0"], N0=sc["N0"], LMax=sc["LMax"],
             lens=[int(m._payoff_statistics.stats.shape[0]) for m in st.mc_statistics])
        r_add, r_ext, r_res = st.add, st.extend, st.set_mlmc_results
        st._cv_log = {}
        st._cv_prices = cv.prices[0] if cv is not None else None

        def add(simulation, level, path_manager):
            r_add(simulation, level, path_manager)
            p = np.asarray(path_manager.payoff, dtype=float)
            f, c = (p[0], p[1]) if p.ndim == 1 else (p[0][0], p[1][0])
            if cv is not None:
                x = np.array(path_manager.payoff_control_variates, dtype=float)
                st._cv_log.setdefault(int(level), {})[int(simulation)] = ((f, c), x[:, 0] if x.ndim == 2 else x[:, 0, :])
            # the control variates' own (discounted) payoffs for the fine and the coarse path of this sample
            xf, xc = [], []
            if cv is not None:
                x = np.array(path_manager.payoff_control_variates, dtype=float)
                x = x.reshape((x.shape[0], -1))
                xf = [exact_int(v / 0.5) for v in x[:, 0]]
                xc = [exact_int(v / 0.5) for v in x[:, 1]] if x.shape[1] > 1 else [0] * x.shape[0]
            if giles:
                emit(e="Add", lvl=int(level), idx=int(simulation), f=0, c=0, xf=[], xc=[])
            else:
                emit(e="Add", lvl=int(level), idx=int(simulation), f=exact_int(f / 0.5), c=exact_int(c / 0.5), xf=xf, xc=xc)

        def extend(mc_paths):
            emit(e="Ext", arg=[int(x) for x in mc_paths])
            r_ext(mc_paths)

        def set_res(Nl, sum_cost):
            emit(e="Res", Nl=[int(x) for x in Nl])
            r_res(Nl=Nl, sum_cost=sum_cost)

        st.add, st.extend, st.set_mlmc_results = add, extend, set_res
        return st

    eng.create_mlmc_statistics = create_stats
    eng.COSPricer = stubs.DummyCOSPricer
    exc = None
    stats = None
    try:
        if sc.get("fixed"):
            stats = engine.price_with_constant_mc_paths_and_level(product)
        else:
            stats = engine.price(product, rmse=giles["rmse"] if giles else 0.1)
    except Exception as ex:  # recorded: the specification has no action that explains a crash
        exc = type(ex).__name__ + ": " + str(ex)[:120]
    finally:
        eng.create_mlmc_statistics = real_create
        eng.COSPricer = real_cos

    log = list(stubs.LOG)
    # fold Sim into the following Add (one spec action): keep the Sim's level and serial on the Add
    ev = []
    pending = None
    for r in log:
        if r["e"] == "Sim":
            if pending is not None:
                ev.append({"e": "Lost", "lvl": pending["lvl"], "s": pending["s"]})
            pending = r
        elif r["e"] == "Add":
            r = dict(r)
            if pending is not None:
                r["slvl"], r["s"] = pending["lvl"], pending["s"]
                pending = None
            else:
                r["slvl"], r["s"] = -1, -1
            ev.append(r)
        elif r["e"] == "ProcInit":
            continue
        else:
            ev.append(r)
    if pending is not None:
        ev.append({"e": "Lost", "lvl": pending["lvl"], "s": pending["s"]})
    if exc is not None:
        ev.append({"e": "Raise", "what": exc})
    elif giles:
        ev.append({"e": "Ret", "Nl": [int(x) for x in stats.mlmc_results.Nl], "cv": False, "bad": 0,
                   "empty": [l for l, x in enumerate(stats.mlmc_results.Nl) if int(x) == 0]})
    else:
        ev.append(ret_event(stats, sc, log, MLMCResults))
    return {"tid": sc["tid"], "hdr": {"L0": sc["L0"], "N0": sc["N0"], "LMax": sc["LMax"], "fixed": bool(sc.get("fixed")),
                                     "cv": int(sc.get("cv", 0)), "dim": int(sc.get("dim", 1)), "ids": not giles},
            "ev": ev}


def ret_event(stats, sc, log, MLMCResults):
    res = stats.mlmc_results
    Nl = [int(x) for x in res.Nl]
    nlev = len(Nl)
    cvon = bool(sc.get("cv"))
    rows, crows = [], []
    for l in range(len(stats.mc_statistics)):
        raw = stats.mc_statistics[l]._payoff_statistics.stats
        rows.append([exact_int(x / 0.5) for x in raw[:, 0, 0]])
        crows.append([exact_int(x / 0.5) for x in raw[:, 0, 1]])
    out = {"e": "Ret", "Nl": Nl, "rows": rows, "crows": crows, "cv": cvon}
    # reference evaluation: the repository's own estimators applied to the samples recorded at Add time
    adds = [r for r in log if r["e"] == "Add"]
    by_level = {}
    for r in adds:
        by_level.setdefault(r["lvl"], {})[r["idx"]] = (r["f"], r["c"])
    if not cvon:
        fine = [np.array([0.5 * by_level.get(l, {}).get(i, (0, 0))[0] for i in sorted(by_level.get(l, {}))], dtype=float)
                for l in range(nlev)]
        coarse = [np.array([0.5 * by_level.get(l, {}).get(i, (0, 0))[1] for i in sorted(by_level.get(l, {}))], dtype=float)
                  for l in range(nlev)]
        # exact statistics (integers after scaling): decided by TLC from the Add events
        with np.errstate(all="ignore"):
            ml, vl, mean_l, var_l, cl = res.ml, res.vl, res.mean_level_l, res.var_level_l, res.cl
            out["mlN"] = [exact_int(ml[l] * Nl[l] / 0.5) for l in range(nlev)]
            out["meanN"] = [exact_int(mean_l[l] * Nl[l] / 0.5) for l in range(nlev)]
            out["vlN"] = [exact_int(vl[l] * Nl[l] ** 2 / 0.25, tol=1e-6) for l in range(nlev)]
            out["varN"] = [exact_int(var_l[l] * Nl[l] ** 2 / 0.25, tol=1e-6) for l in range(nlev)]
            out["clN"] = [exact_int(cl[l] * Nl[l]) for l in range(nlev)]
            # 32-bit guard for TLC: the second-moment identities are only checked when they fit
            top = max([1] + [abs(x) for rr in rows + crows for x in rr if isinstance(x, int)])
            out["vchk"] = 1 if max(Nl + [1]) ** 2 * top * top < 2 ** 30 else 0
            if not out["vchk"]:
                out["vlN"] = [0] * nlev
                out["varN"] = [0] * nlev
            out["cost"] = exact_int(res.cost)
            D = 1
            for n in Nl:
                D = D * n // math.gcd(D, n) if n > 0 else D
            big = max([1] + [abs(x) for rr in rows for x in rr if isinstance(x, int)])
            if D * big * max(Nl + [1]) < 2 ** 30:
                out["D"] = D
                out["priceD"] = exact_int(stats.price() * D / 0.5, tol=1e-6)
            else:
                out["D"] = 0
                out["priceD"] = 0
            ref = MLMCResults(Nl=np.array([len(f) for f in fine]), sum_cost=np.zeros(nlev), all_pl_fine=fine,
                              all_pl_coarse=coarse)
            # reference kurtosis of the corrections, written out independently of the repository's moment helpers (exact
            # fractions): central fourth moment over max(1, variance)^2 - the engine's own definition, guard included
            from fractions import Fraction

            def kurt_ref(fs, cs):
                dp = [Fraction(float(a)) - Fraction(float(b)) for a, b in zip(fs, cs)]
                n = len(dp)
                if n == 0:
                    return float("nan")
                mu = sum(dp) / n
                m2 = sum((x - mu) ** 2 for x in dp) / n
                m4 = sum((x - mu) ** 4 for x in dp) / n
                return float(m4 / max(Fraction(1), m2) ** 2)
            flo = list(np.asarray(res.kurtosis, dtype=float)) + [kurt_ref(f, c) for f, c in zip(fine, coarse)]
            # (the engine forms the central moment from non-central ones: cancellation costs it digits, hence 1e-6)
            rk = ranks(flo, rel=1e-6)
            out["kurt"], out["kurt_ref"] = rk[:nlev], rk[nlev:]
    else:
        # control variates: regression results are not integers; compare equality classes with the repository's
        # own estimator applied to the samples recorded at Add time (rank sensor)
        with np.errstate(all="ignore"):
            flo = [float(stats.price())] + [float(x) for x in res.ml] + [float(x) for x in res.vl]
            ref = reference_with_cv(stats, sc, log, MLMCResults, nlev)
            rk = ranks(flo + ref, rel=1e-9)
            out["cvobs"], out["cvref"] = rk[:len(flo)], rk[len(flo):]
    # a returned level without any sample has no statistics (0/0): reported by its own clause, not as a sensor failure
    out["empty"] = [l for l in range(nlev) if Nl[l] == 0]
    if out["empty"]:
        for key in ("mlN", "meanN", "vlN", "varN", "clN"):
            if key in out:
                out[key] = [0 if l in out["empty"] else v for l, v in enumerate(out[key])]
        for key in ("cost", "priceD"):
            if key in out and out[key] == -77777:
                out[key] = 0
                out["D"] = 0
    out["bad"] = count_bad(out) + count_bad([r for r in log if r["e"] == "Add"])
    return out


def reference_with_cv(stats, sc, log, MLMCResults, nlev):
    """Price / ml / vl recomputed by rpylib's ControlVariates.helper_compute_coefficients on exactly the samples
    that were handed to statistics.add (payoffs) and recorded control-variate payoffs."""
    from rpylib.product.product import ControlVariates
    cvp = stats._cv_prices
    fine, coarse = [], []
    for l in range(nlev):
        recs = stats._cv_log.get(l, {})
        idx = sorted(recs)
        Y = np.array([recs[i][0] for i in idx], dtype=float)      # (n, 2)
        X = np.array([recs[i][1] for i in idx], dtype=float)      # (n, ncv) or (n, ncv, 2)
        if len(idx) == 0:
            fine.append(np.zeros(0)); coarse.append(np.zeros(0)); continue
        if l == 0:
            Xf, Xc = X, np.zeros_like(X)
        else:
            Xf, Xc = X[..., 0], X[..., 1]
        fine.append(ControlVariates.helper_compute_coefficients(x=Xf, y=Y[:, 0], prices=cvp))
        coarse.append(ControlVariates.helper_compute_coefficients(x=Xc, y=Y[:, 1], prices=cvp))
    ref = MLMCResults(Nl=np.array([len(f) for f in fine]), sum_cost=np.zeros(nlev), all_pl_fine=fine, all_pl_coarse=coarse)
    price = sum((np.mean(f) if len(f) else 0.0) - (np.mean(c) if len(c) else 0.0) for f, c in zip(fine, coarse))
    return [float(price)] + [float(x) for x in ref.ml] + [float(x) for x in ref.vl]


def main():
    scripts = json.load(open(sys.argv[1]))
    with open(sys.argv[2], "w") as f:
        for sc in scripts:
            f.write(json.dumps(run_script(sc), separators=(",", ":")) + "\n")


if __name__ == "__main__":
    main()
