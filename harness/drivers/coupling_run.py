"""C03 driver: the level coupling of real chains over atomic measures, driven through next_level 1..k times.

usage: python -m harness.drivers.coupling_run <out.ndjson> <tier> <seed>
"""
import json
import random
import sys
import warnings
from collections import deque

import numpy as np

from harness import atomic
from harness.encode import count_bad, exact_int

warnings.filterwarnings("ignore")
U = atomic.UNIT


class OneUniform:
    """stands in for the coupling's Uniform: returns the scripted value"""

    def __init__(self):
        self.value = 0.5
        self.sampling_cost = 0

    def sample(self, size=1):
        return np.array([self.value])

    def reset_sampling_cost(self):
        pass

    def cost(self):
        return 0


def product_for_init():
    from rpylib.product.payoff import Forward
    from rpylib.product.product import Product
    from rpylib.product.underlying import Spot
    return Product(Spot(), Forward(0.0), maturity=1.0)


class Pool:
    """floats of one trace, replaced by ranks at the end (rel > 0: quantised equality classes)"""

    def __init__(self, rel=0.0):
        self.vals, self.rel = [], rel

    def add(self, x):
        self.vals.append(float(x))
        return ("R", id(self), len(self.vals) - 1)

    def resolve(self, obj, rk=None):
        from harness.encode import ranks
        if rk is None:
            rk = ranks(self.vals, rel=self.rel)
        if isinstance(obj, tuple) and len(obj) == 3 and obj[0] == "R":
            return rk[obj[2]] if obj[1] == id(self) else obj
        if isinstance(obj, dict):
            return {k: self.resolve(v, rk) for k, v in obj.items()}
        if isinstance(obj, (list, tuple)):
            return [self.resolve(v, rk) for v in obj]
        return obj


def level_event(cp, pms, lvl, uni, pos, cf, lattice_unit=False):
    grid = cp.grid
    axis = np.array(grid.axes[0], dtype=float)
    org = int(grid.origin_coordinate.value)
    sim = cp._path_coupling_simulation
    mass = cp.fine_process.model.mass
    mids = [float(grid.middle(x, y)) for x, y in zip(axis, axis[1:])]
    ev = {"e": "Level", "lvl": lvl, "ax": [pos.add(x) for x in axis], "bd": [pos.add(x) for x in mids], "org": org + 1}
    moves, evens = [], []
    if lvl >= 1:
        for k in range(len(axis)):
            inc = k - org
            if inc % 2 == 0:
                uni.value = 0.5
                evens.append([k + 1, pos.add(sim.coupling_state(inc))])
                continue
            lo = axis[0] if k == 0 else mids[k - 1]
            hi = axis[-1] if k == len(axis) - 1 else mids[k]
            rate = int(round(mass(lo, hi)))
            if rate <= 0:
                continue
            n = 2 * rate
            right_value = axis[min(len(axis) - 1, k + 1)]
            n_right = 0
            seen = set()
            for i in range(n):
                uni.value = (2 * i + 1) / (2.0 * n)
                v = float(sim.coupling_state(inc))
                seen.add(v)
                if v == right_value:
                    n_right += 1
            vals = sorted(seen)
            moves.append([k + 1, n_right, n, [pos.add(v) for v in vals]])
    ev["moves"], ev["evens"] = moves, evens
    # slices of several jumps (lattice grids: exact units): the coupled values of a slice are the running sums of the jumps
    # coupled one by one with the same uniforms, whatever the sign of the increment and the container of the slice
    slices1 = []
    if lvl >= 1 and lattice_unit:
        import random as _r
        rr = _r.Random(77 * lvl + len(axis))
        # increments the chain can produce: odd ones with a positive rate (those of `moves`), and the even ones
        cands = [m[0] - 1 - org for m in moves] + [e_[0] - 1 - org for e_ in evens if e_[0] - 1 != org]

        class SeqU1:
            sampling_cost = 0

            def __init__(self, vals):
                self.vals = list(vals)

            def sample(self, size=1):
                return np.array([self.vals.pop(0)])

            def reset_sampling_cost(self):
                pass

            def cost(self):
                return 0
        for rep in range(6):
            incs = [rr.choice(cands) for _ in range(rr.choice([2, 3, 5]))]
            if rep == 0:
                negodd = [c for c in cands if c < 0 and c % 2]
                incs = (negodd[:1] + incs) if negodd else incs
            us = [rr.choice([0.05, 0.3, 0.55, 0.8, 0.97]) for _ in incs]
            single = []
            for inc, u in zip(incs, us):
                uni.value = u
                single.append(exact_int(float(sim.coupling_state(int(inc))) / U))
            consuming = [u for inc, u in zip(incs, us) if inc % 2]
            cp.uniform = SeqU1(consuming)
            try:
                container = np.array(incs) if rep % 2 == 0 else list(incs)
                got = [exact_int(float(v) / U) for v in sim.coupling_states_for_a_slice(container)]
            except Exception:
                got = [-77777]
            finally:
                cp.uniform = uni
            slices1.append({"single": single, "slice": got})
    ev["slices1"] = slices1
    ev["zero"] = cf.add(0.0)
    ev["sigF2"] = cf.add(float(cp.equivalent_diffusion_coefficient_fine) ** 2)
    ev["sigC2"] = cf.add(float(cp.equivalent_diffusion_coefficient_coarse) ** 2)
    # deterministic paths of the latest path manager: [fine, coarse] at level >= 1
    dp = pms[-1].deterministic_path
    v0, v1 = np.array(dp(np.zeros(1)), dtype=float), np.array(dp(np.ones(1)), dtype=float)
    slope = np.ravel(v1 - v0)
    ev["muF"] = cf.add(slope[0])
    ev["muC"] = cf.add(slope[1]) if (lvl >= 1 and slope.size > 1) else cf.add(0.0)
    ev["muProc"] = cf.add(float(cp.fine_process.process_drift()))
    if lvl >= 1:
        # the same Brownian increments drive both components, each scaled by its own coefficient
        ws = [1.0, 2.0, -4.0]
        cp.fine_process._path_simulation._brownian_increments = deque([[list(ws)]])
        try:
            df, dc = sim.simulate_diffusion_with_coupling(np.ones(3))
            cum = np.cumsum(ws)
            ev["diffF2"] = [cf.add((float(a) / c) ** 2) for a, c in zip(np.ravel(df), cum)]
            ev["diffC2"] = [cf.add((float(a) / c) ** 2) for a, c in zip(np.ravel(dc), cum)]
            ev["same_sign"] = bool((float(cp.equivalent_diffusion_coefficient_fine) == 0 or np.all(np.sign(np.ravel(df)) == np.sign(cum))) and
                                   (float(cp.equivalent_diffusion_coefficient_coarse) == 0 or np.all(np.sign(np.ravel(dc)) == np.sign(cum))))
        except Exception:
            ev["diffF2"], ev["diffC2"], ev["same_sign"] = [], [], False
    else:
        ev["diffF2"], ev["diffC2"], ev["same_sign"] = [], [], True
    ev["bad"] = 0
    return ev


def run_coupling(tid, kind, grid, atoms, unit, method, fv, sigma, a, maxlvl):
    from rpylib.montecarlo.configuration import ConfigurationMultiLevel
    from rpylib.montecarlo.path import create_path
    from rpylib.process.coupling.couplingmarkovchain import CouplingMarkovChain
    pos, cf = Pool(), Pool(rel=1e-9)
    scale = U if unit is not None else 1.0
    hdr = {"kind": kind, "atoms": [[pos.add(k * scale), int(w)] for k, w in atoms], "fv": bool(fv)}
    ev = []
    try:
        model = atomic.AtomLevyModel(atoms, sigma=sigma, a=a, finite_variation=fv, unit=unit)
        # the process does not start at zero: the coarse component's drift is a slope, not a value at time 1
        model.x0_value = lambda: 5 * U
        cp = CouplingMarkovChain(model=model, method=method, grid=grid)
        uni = OneUniform()
        cp.uniform = uni
        product = product_for_init()
        cp.initialisation(product)
        pms = [create_path(ConfigurationMultiLevel(), cp.fine_process.deterministic_path)]
        cp.pre_computation(mc_paths=1, product=product)
        ev.append(level_event(cp, pms, 0, uni, pos, cf, unit is not None))
        for lvl in range(1, maxlvl + 1):
            cp.next_level(mc_paths=1, path_managers=pms, product=product)
            ev.append(level_event(cp, pms, lvl, uni, pos, cf, unit is not None))
    except Exception as ex:
        ev.append({"e": "Raise", "what": type(ex).__name__ + ": " + str(ex)[:80]})
    t = {"tid": tid, "hdr": hdr, "ev": ev}
    return cf.resolve(pos.resolve(t))


def coef_fields(ev, cp, pms, lvl, d, cf):
    """coefficients and drifts of the two components of the copula coupling, and the diffusion increments both get
    from the same scripted Brownian increments"""
    sim = cp._path_coupling_simulation
    ev["zero"] = cf.add(0.0)
    dmF = np.real(np.asarray(cp._diffusion_matrix_h, dtype=complex))
    ev["dmF"] = [[cf.add(float(x)) for x in row] for row in dmF]
    ev["wsF"] = [cf.add(float(sum(dmF[k][j] * (j + 1) for j in range(d)))) for k in range(d)]
    if cp._diffusion_matrix_2h is not None:
        dmC = np.real(np.asarray(cp._diffusion_matrix_2h, dtype=complex))
        ev["dmC"] = [[cf.add(float(x)) for x in row] for row in dmC]
        ev["wsC"] = [cf.add(float(sum(dmC[k][j] * (j + 1) for j in range(d)))) for k in range(d)]
    else:
        ev["dmC"], ev["wsC"] = [], []
    if pms is not None:
        dp = pms[-1].deterministic_path
        v0, v1 = np.array(dp(np.zeros(1)), dtype=float), np.array(dp(np.ones(1)), dtype=float)
        slope = (v1 - v0)
        if lvl >= 1:
            ev["muF"] = [cf.add(float(x)) for x in np.ravel(slope[0])]
            ev["muC"] = [cf.add(float(x)) for x in np.ravel(slope[1])]
        else:
            ev["muF"] = [cf.add(float(x)) for x in np.ravel(slope)]
            ev["muC"] = []
    ev["muProc"] = [cf.add(float(x)) for x in np.ravel(cp.fine_process.process_drift())]
    if lvl >= 1:
        base = np.array([1.0, 2.0, -4.0])
        ws = np.array([(k + 1) * base for k in range(d)])
        cp.fine_process._path_simulation._brownian_increments = deque([ws.copy()])
        try:
            df, dc = sim.simulate_diffusion_with_coupling(np.ones(3))
            cum = np.cumsum(base)
            ev["diffF"] = [[cf.add(float(df[k][i]) / cum[i]) for i in range(3)] for k in range(d)]
            ev["diffC"] = [[cf.add(float(dc[k][i]) / cum[i]) for i in range(3)] for k in range(d)]
        except Exception:
            ev["diffF"], ev["diffC"] = [], []
    else:
        ev["diffF"], ev["diffC"] = [], []


def level_event_nd(cp, pms, lvl, uni, d, cf):
    """one level of the REAL Levy-copula coupling on a lattice grid (positions in lattice units, exact integers);
    the coupling map of every fine increment is observed by sweeping the coupling uniform over a lattice"""
    import itertools
    grid = cp.grid
    axes = [np.array(grid.axes[k], dtype=float) for k in range(d)]
    oc = [int(v) for v in grid.origin_coordinate.value]
    mids = [[0.5 * (x + y) for x, y in zip(a, a[1:])] for a in axes]
    ev = {"e": "LevelNd", "lvl": lvl, "ax": [[exact_int(x / U) for x in a] for a in axes],
          "bd": [[exact_int(x / U) for x in m] for m in mids], "org": [o + 1 for o in oc]}
    sim = cp._path_coupling_simulation
    state_of = getattr(sim, "_CouplingLevyCopulaSimulation__coupling_state", None)
    mass = cp.fine_process.model.mass
    lookup = [{exact_int(x / U): j + 1 for j, x in enumerate(a)} for a in axes]

    def index_of(value):
        v = np.ravel(np.asarray(value, dtype=float))
        if v.size != d:
            return [-1] * d
        return [lookup[k].get(exact_int(v[k] / U), -1) for k in range(d)]
    moves, evens = [], []
    if lvl >= 1 and state_of is not None:
        for js in itertools.product(*[range(len(a)) for a in axes]):
            inc = tuple(j - o for j, o in zip(js, oc))
            if all(v == 0 for v in inc):
                continue
            idx = [j + 1 for j in js]
            if all(v % 2 == 0 for v in inc):
                uni.value = 0.5
                evens.append([idx, index_of(state_of(inc))])
                continue
            lo = [a[0] if j == 0 else m[j - 1] for a, m, j in zip(axes, mids, js)]
            hi = [a[-1] if j == len(a) - 1 else m[j] for a, m, j in zip(axes, mids, js)]
            rate = int(round(mass(tuple(lo), tuple(hi))))
            if rate <= 0:
                continue
            n = 2 * rate
            outs = {}
            for i in range(n):
                uni.value = (2 * i + 1) / (2.0 * n)
                t = tuple(index_of(state_of(inc)))
                outs[t] = outs.get(t, 0) + 1
            moves.append([idx, n, [[list(t), c] for t, c in sorted(outs.items())]])
    ev["moves"], ev["evens"] = moves, evens
    # slices of several jumps: the coupled values of a slice are the running sums of the jumps coupled one by one
    # (the coupling of a jump is a function of its increment and its own uniform only)
    slices = []
    if lvl >= 1 and state_of is not None and moves:
        import random as _r
        rr = _r.Random(1000 * lvl + len(moves))
        cands = [tuple(j - o for j, o in zip(m[0], ev["org"])) for m in moves] + \
                [tuple(j - o for j, o in zip(e_[0], ev["org"])) for e_ in evens]
        for _ in range(6):
            incs = [rr.choice(cands) for _k in range(rr.choice([2, 3, 4]))]
            us = [rr.choice([0.05, 0.3, 0.55, 0.8, 0.97]) for _k in incs]
            single = []
            for inc, u in zip(incs, us):
                uni.value = u
                single.append([exact_int(float(v) / U) for v in np.ravel(state_of(tuple(inc)))])

            class SeqU:
                def __init__(self, vals):
                    self.vals = list(vals)

                def sample(self, size=1):
                    return np.array([self.vals.pop(0)])

                def reset_sampling_cost(self):
                    pass
            consuming = [u for inc, u in zip(incs, us) if any(v % 2 for v in inc)]
            if not hasattr(cp, "_uniform"):
                raise AttributeError("'CouplingProcessLevyCopula' object has no attribute '_uniform'")
            cp._uniform = SeqU(consuming)
            try:
                vals = sim._coupling_states_for_a_slice([tuple(i) for i in incs])
                got = [[exact_int(float(v) / U) for v in np.ravel(x)] for x in vals]
            except Exception as ex:
                got = [[-77777] * d]
            finally:
                cp._uniform = uni
            slices.append({"single": single, "slice": got})
    ev["slices"] = slices
    ev["bad"] = count_bad({"ax": ev["ax"], "bd": ev["bd"], "sl": slices})
    coef_fields(ev, cp, pms, lvl, d, cf)
    return ev


def run_copula_coupling(tid, kind, grid, atoms, d, method, sigmas, a_us, maxlvl):
    """the REAL CouplingProcessLevyCopula over an atomic copula model (finite variation), through next_level"""
    from rpylib.montecarlo.configuration import ConfigurationMultiLevel
    from rpylib.montecarlo.path import create_path
    from rpylib.process.coupling.couplinglevycopula import CouplingProcessLevyCopula
    cf = Pool(rel=1e-9)
    hdr = {"kind": kind, "d": d, "atoms": [[list(map(int, k)), int(w)] for k, w in atoms], "fv": True}
    ev = []
    try:
        model = atomic.atom_copula_model(atoms, d, drifts=[x * U for x in a_us])
        for m, sg in zip(model.models, sigmas):
            m.levy_triplet.sigma = sg * U
        # the process does not start at zero (the coarse component's drift is a slope, not a value at time 1)
        model.x0s = np.array([[(3 + k) * U] for k in range(d)]) if np.ndim(model.x0s) == 2 else np.array([(3 + k) * U for k in range(d)])
        cp = CouplingProcessLevyCopula(levy_copula_model=model, grid=grid, method=method)
        uni = OneUniform()
        if not hasattr(cp, "_uniform"):
            raise AttributeError("'CouplingProcessLevyCopula' object has no attribute '_uniform'")
        cp._uniform = uni
        product = product_for_init()
        cp.initialisation(product)
        pms = [create_path(ConfigurationMultiLevel(), cp.fine_process.deterministic_path)]
        cp.pre_computation(mc_paths=1, product=product)
        ev.append(level_event_nd(cp, pms, 0, uni, d, cf))
        for lvl in range(1, maxlvl + 1):
            cp.next_level(mc_paths=1, path_managers=pms, product=product)
            ev.append(level_event_nd(cp, pms, lvl, uni, d, cf))
    except Exception as ex:
        import traceback
        ev.append({"e": "Raise", "what": type(ex).__name__ + ": " + str(ex)[:80], "tb": traceback.format_exc()[-600:]})
    return cf.resolve({"tid": tid, "hdr": hdr, "ev": ev})


def run_copula_coupling_real(tid, name, model, maxlvl):
    """REAL copula model with infinite-variation margins: the diffusion matrix of the chain depends on the step, so the
    coarse matrix must be the one of the previous level (coefficients only; no exact reference for the jump part)"""
    from rpylib.distribution.sampling import SamplingMethod
    from rpylib.grid.spatial import CTMCGridGeometric
    from rpylib.montecarlo.configuration import ConfigurationMultiLevel
    from rpylib.montecarlo.path import create_path
    from rpylib.process.coupling.couplinglevycopula import CouplingProcessLevyCopula
    cf = Pool(rel=1e-9)
    d = model.dimension()
    ev = []
    try:
        grid = CTMCGridGeometric(h=0.1, model=model, nb_of_points_on_each_side=2)
        cp = CouplingProcessLevyCopula(levy_copula_model=model, grid=grid, method=SamplingMethod.BINARYSEARCHTREEADAPTED)
        product = product_for_init()
        cp.initialisation(product)
        pms = [create_path(ConfigurationMultiLevel(), cp.fine_process.deterministic_path)]
        cp.pre_computation(mc_paths=1, product=product)
        for lvl in range(0, maxlvl + 1):
            if lvl:
                cp.next_level(mc_paths=1, path_managers=pms, product=product)
            e = {"e": "CoefNd", "lvl": lvl}
            coef_fields(e, cp, pms, lvl, d, cf)
            ev.append(e)
    except Exception as ex:
        ev.append({"e": "Raise", "what": type(ex).__name__ + ": " + str(ex)[:80]})
    return cf.resolve({"tid": tid, "hdr": {"kind": "copula-real:" + name, "d": d, "atoms": [], "fv": False}, "ev": ev})


def run_sde_coupling(tid, grid, atoms, method, fv, sigma, maxlvl):
    """the SDE coupling built on the 1-d coupling: coarse coefficient / drift handed over by next_level"""
    from rpylib.model.levydrivensde.levydrivensde import LevyDrivenSDEModel
    from rpylib.montecarlo.configuration import ConfigurationMultiLevel
    from rpylib.montecarlo.path import create_path
    from rpylib.process.coupling.couplingsde import CouplingSDE
    cf = Pool(rel=1e-9)
    ev = []
    try:
        driver = atomic.AtomLevyModel(atoms, sigma=sigma, a=3 * U, finite_variation=fv, bg_index=0.5)
        model = LevyDrivenSDEModel(driver=driver, x0=1.0)
        cs = CouplingSDE(model=model, grid=grid, method=method)
        product = product_for_init()
        cs.initialisation(product)
        pms = [create_path(ConfigurationMultiLevel(), cs.fine_process.deterministic_path)]
        cs.pre_computation(mc_paths=1, product=product)

        def snap(lvl):
            d = cs.driver_coupling_process
            return {"e": "SdeLevel", "lvl": lvl, "zero": cf.add(0.0),
                    "sigF2": cf.add(float(d.equivalent_diffusion_coefficient_fine) ** 2),
                    "sigC2": cf.add(float(d.equivalent_diffusion_coefficient_coarse) ** 2),
                    "muF": cf.add(float(np.ravel(cs.mc_drift_h)[0])),
                    "muC": cf.add(float(np.ravel(cs.mc_drift_2h)[0]) if cs.mc_drift_2h is not None else 0.0),
                    "chainF2": cf.add(float((cs.fine_process.markov_chain if lvl == 0 else d.fine_process).equivalent_diffusion_coefficient) ** 2)}
        ev.append(snap(0))
        for lvl in range(1, maxlvl + 1):
            cs.next_level(1, pms, product)
            ev.append(snap(lvl))
    except Exception as ex:
        ev.append({"e": "Raise", "what": type(ex).__name__ + ": " + str(ex)[:80]})
    return cf.resolve({"tid": tid, "hdr": {"kind": "couplingsde:" + method.name, "atoms": [], "fv": bool(fv)}, "ev": ev})


def main():
    out, tier, seed = sys.argv[1], sys.argv[2], int(sys.argv[3])
    quick = tier == "quick"
    rng = random.Random(seed)
    from rpylib.distribution.sampling import SamplingMethod
    from rpylib.grid.spatial import CTMCGrid, CTMCUniformGrid
    from rpylib.montecarlo.configuration import ConfigurationMultiLevel
    from rpylib.montecarlo.path import create_path
    from rpylib.process.coupling.couplingmarkovchain import CouplingMarkovChain
    traces = []
    sde_only = len(sys.argv) > 4 and sys.argv[4] == "sde-only"
    shapes = [(1, 1), (2, 1), (1, 3), (2, 2), (3, 4)] + ([] if quick else [(4, 4), (2, 6), (5, 3)])
    if sde_only:
        shapes = []
    methods = [SamplingMethod.ALIAS, SamplingMethod.BINARYSEARCHTREE, SamplingMethod.HUFFMANNTREE, SamplingMethod.INVERSION,
               SamplingMethod.BINARYSEARCHTREEADAPTED1D, SamplingMethod.TABLE]
    maxlvl = 3
    for si, (nl, nr) in enumerate(shapes):
        for rep in range(2 if quick else 4):
            step = 32
            axis = np.array([j * step * U for j in range(-nl, nr + 1)])
            if nl == nr and rep % 2 == 0:
                grid = CTMCUniformGrid.create_from_fixed_nb_of_points(h=step * U, nb_of_points=2 * nl + 1)
            else:
                grid = CTMCGrid(h=step * U, origin_coordinate=nl, axes=[axis])
            atoms = atomic.atoms_everywhere(-nl * step - 6, nr * step + 6, rng, wmax=6, density=rng.choice([1.0, 0.8]))
            fv = rng.random() < 0.4
            sigma_u = rng.choice([0, 8])
            method = methods[(si + rep) % len(methods)]
            traces.append(run_coupling(f"cp{len(traces)}", "coupling1d:" + method.name, grid, atoms, U, method, fv, sigma_u * U,
                                       rng.randint(-20, 20) * U, maxlvl))
    # the SDE coupling built on the 1-d coupling (next_level is called with path_managers=None on the driver)
    for rep in range(2 if quick else 6):
        nl, nr = rng.choice([(1, 1), (2, 2), (2, 1)])
        step = 32
        grid = CTMCGrid(h=step * U, origin_coordinate=nl, axes=[np.array([j * step * U for j in range(-nl, nr + 1)])])
        atoms = atomic.atoms_everywhere(-nl * step - 6, nr * step + 6, rng, wmax=6)
        traces.append(run_sde_coupling(f"cp{len(traces)}", grid, atoms, rng.choice(methods[:3]), fv=(rep % 2 == 1),
                                       sigma=rng.choice([0, 8]) * U, maxlvl=3))
    if sde_only:
        with open(out, "w") as f:
            for t in traces:
                f.write(json.dumps(t, separators=(",", ":")) + "\n")
        print(len(traces))
        return
    # ---- the Levy-copula coupling (2-d, 3-d) on lattice grids with aliased axis storage, as the constructors build them --
    cop_cases = [(2, 1, 1, 2), (2, 2, 1, 2), (2, 1, 2, 1), (3, 1, 1, 1)] + ([] if quick else [(2, 2, 2, 2), (2, 3, 1, 2), (3, 1, 1, 2), (3, 2, 1, 1)])
    for ci, (d, nl, nr, lv) in enumerate(cop_cases):
        for rep in range(1 if quick else 2):
            step = 32
            axis = np.array([j * step * U for j in range(-nl, nr + 1)])
            grid = CTMCGrid(h=step * U, origin_coordinate=nl, axes=[axis] * d)
            atoms = atomic.joint_atoms_in_box([-nl * step] * d, [nr * step] * d, d, rng, 70 if d == 2 else 120, wmax=4)
            method = [SamplingMethod.INVERSION, SamplingMethod.BINARYSEARCHTREEADAPTED][(ci + rep) % 2]
            # d = 3, first scenario: two margins without diffusion and one with (a singular variance matrix)
            sig = [0, 0, 16] if (d == 3 and rep == 0) else [rng.choice([0, 8, 16]) for _ in range(d)]
            traces.append(run_copula_coupling(f"cp{len(traces)}", f"copula{d}d:" + method.name, grid, atoms, d, method,
                                              sig, [rng.randint(-9, 9) for _ in range(d)], lv))
    # one distinct axis per dimension (user-built grids): irregular multiples of the step away from the origin
    for rep in range(2 if quick else 6):
        d = 2 if rep % 3 != 2 else 3
        step = 32
        axes = []
        for _k in range(d):
            far_l = -step * rng.choice([2, 3, 4])
            far_r = step * rng.choice([2, 3, 5])
            axes.append(np.array([far_l * U, -step * U, 0.0, step * U, far_r * U]))
        grid = CTMCGrid(h=step * U, origin_coordinate=2, axes=axes)
        lo = [int(round(a[0] / U)) for a in axes]
        hi = [int(round(a[-1] / U)) for a in axes]
        atoms = atomic.joint_atoms_in_box(lo, hi, d, rng, 90 if d == 2 else 140, wmax=4)
        method = [SamplingMethod.INVERSION, SamplingMethod.BINARYSEARCHTREEADAPTED][rep % 2]
        traces.append(run_copula_coupling(f"cp{len(traces)}", f"copula{d}d-peraxis:" + method.name, grid, atoms, d, method,
                                          [rng.choice([0, 8, 16]) for _ in range(d)], [rng.randint(-9, 9) for _ in range(d)], 1 if d == 3 else 2))
    # real copula models with infinite-variation margins (step-dependent diffusion matrix)
    from rpylib.model.utils import ModelType, create_clayton_copula, create_levy_copula_model, create_levy_model
    iv = {"cgmy12_hem": [create_levy_model(ModelType.CGMY)(c=0.019, g=2, m=4, y=1.2), create_levy_model(ModelType.HEM)()]}
    if not quick:
        iv["cgmy11_cgmy13"] = [create_levy_model(ModelType.CGMY)(c=0.05, g=10.0, m=8.0, y=1.1), create_levy_model(ModelType.CGMY)(c=0.02, g=3.0, m=5.0, y=1.3)]
    for name, margins in iv.items():
        traces.append(run_copula_coupling_real(f"cp{len(traces)}", name, create_levy_copula_model(margins, create_clayton_copula()), 2))
    # non-lattice grids (the grid's own cell boundary is not the arithmetic mid-point): atoms are placed after the
    # grids of ALL levels have been seen, one in every elementary interval
    from harness.models import levy_models
    from rpylib.grid.spatial import CTMCGridGeometric, CTMCGridProbabilityStep
    import copy
    lm = levy_models()
    for kind, make in (("probstep", lambda: CTMCGridProbabilityStep(h=0.04, model=lm[rng.choice(["hem", "merton"])], minimum_probability_step=0.2)),
                       ("geombounds", lambda: CTMCGridGeometric.create_with_bounds(h=0.05, truncations=(-0.8, 1.1), dimension=1, nb_of_points_on_each_side=3))):
        for rep in range(1 if quick else 3):
            try:
                grid = make()
                probe = copy.deepcopy(grid)
                pts = set()
                for lvl in range(0, 3):
                    a = probe.axes[0]
                    pts |= set(float(x) for x in a) | set(float(probe.middle(x, y)) for x, y in zip(a, a[1:]))
                    if lvl == 2:
                        pts |= set(0.5 * (float(x) + float(y)) for x, y in zip(a, a[1:]))      # arithmetic mid-points too
                    probe.refine()
                pts = sorted(pts)
                pts = [pts[0]] + [q for p_, q in zip(pts, pts[1:]) if q - p_ > 1e-9 * max(1.0, abs(q))]
                atoms = [(0.5 * (x + y), rng.randint(1, 6)) for x, y in zip(pts, pts[1:])]
                atoms = [(pts[0] - 0.01, 3)] + atoms + [(pts[-1] + 0.01, 2)]
            except Exception as ex:
                traces.append({"tid": f"cp{len(traces)}", "hdr": {"kind": kind, "atoms": [], "fv": True}, "ev": [{"e": "Raise", "what": "grid: " + type(ex).__name__}]})
                continue
            traces.append(run_coupling(f"cp{len(traces)}", "coupling1d:" + kind, grid, atoms, None, SamplingMethod.BINARYSEARCHTREE,
                                       True, 0.0, 0.0, 2))
    with open(out, "w") as f:
        for t in traces:
            f.write(json.dumps(t, separators=(",", ":")) + "\n")
    print(len(traces))


if __name__ == "__main__":
    main()
