"""C05 driver (end to end): the REAL multilevel engine on the REAL one-dimensional coupling over an atomic Levy model,
every sample observed where the engine hands it to the statistics: its paths (final deterministic, diffusion and jump
values of the fine and of the coarse component), its discounted payoffs, its level and index.

usage: python -m harness.drivers.run_run <out.ndjson> <tier> <seed>
Everything is a multiple of the lattice unit (model not exponential, payoffs piecewise linear, maturity 1, the j-th
normal drawn is j, discount factor 1/2), so TLC recomputes each payoff exactly (Trace_Run.tla).
"""
import json
import random
import sys
import warnings

import numpy as np

from harness import atomic, stubs
from harness.drivers.path_run import ScriptedNormal
from harness.encode import count_bad, exact_int

warnings.filterwarnings("ignore")
U = atomic.UNIT


def one_run(tid, sc, rng):
    import rpylib.montecarlo.multilevel.engine as eng
    from rpylib.distribution.sampling import SamplingMethod
    from rpylib.grid.spatial import CTMCGrid
    from rpylib.montecarlo.configuration import ConfigurationMultiLevel, ConvergenceRates
    from rpylib.montecarlo.multilevel.criteria import ConvergenceCriteria
    from rpylib.process.coupling.couplingmarkovchain import CouplingMarkovChain
    from rpylib.product.payoff import Forward, PayoffType, Vanilla
    from rpylib.product.product import Product
    from rpylib.product.underlying import Spot

    step, nl, nr = 32, 2, 2
    axis = np.array([j * step * U for j in range(-nl, nr + 1)])
    grid = CTMCGrid(h=step * U, origin_coordinate=nl, axes=[axis])
    atoms = atomic.atoms_everywhere(-nl * step - 6, nr * step + 6, rng, wmax=3, density=0.5)
    model = atomic.AtomLevyModel(atoms, sigma=sc["sigma"] * U, a=sc["a"] * U, finite_variation=True)
    model.df = lambda t: 0.5
    cp = CouplingMarkovChain(model=model, method=SamplingMethod.BINARYSEARCHTREE, grid=grid)
    kind, K = sc["payoff"]
    if kind == "forward":
        payoff = Forward(strike=K * U)
    elif kind == "vcall":
        # a vector of strikes: a payoff of dimension 3 (C05 is quantified over any payoff dimension)
        payoff = Vanilla(strike=[K * U, (K + 8) * U, (K + 16) * U], payoff_type=PayoffType.CALL)
    else:
        payoff = Vanilla(strike=K * U, payoff_type=PayoffType.CALL if kind == "call" else PayoffType.PUT)
    product = Product(Spot(), payoff, maturity=1.0, notional=1.0)
    calls = {"n": 0}
    plan = sc["plan"]

    def compute(rmse, vl, cl):
        calls["n"] += 1
        want = plan[min(calls["n"], len(plan)) - 1]
        return np.array([want[min(i, len(want) - 1)] for i in range(len(vl))], dtype=int)

    def crit(alpha, ml, rmse):
        return calls["n"] >= len(plan)
    conf = ConfigurationMultiLevel(convergence_rates=ConvergenceRates(1.0, 1.0, 1.0),
                                   convergence_criteria=ConvergenceCriteria(criteria=crit, compute_mc_paths=compute),
                                   initial_level=sc["L0"], maximum_level=sc["LMax"], initial_mc_paths=sc["N0"], seed=sc["seed"],
                                   nb_of_processes=1)
    engine = eng.Engine(conf, cp)
    hdr = {"kind": ("run:vector-payoff:" if kind == "vcall" else f"run:{kind}:") + ('fixed' if sc['fixed'] else 'adaptive'),
           "K": int(K), "payoff": kind, "L0": sc["L0"]}
    ev = []
    real_create, real_cos, real_normal = eng.create_mlmc_statistics, eng.COSPricer, np.random.normal

    def create_stats(*a, **k):
        st = real_create(*a, **k)
        r_add = st.add

        def add(simulation, level, pm):
            r_add(simulation, level, pm)
            sp = pm.stochastic_path
            times = np.asarray(sp.times(), dtype=float)
            det = np.asarray(pm.deterministic_path(times), dtype=float)
            dif = np.asarray(sp.diffusion_path, dtype=float)
            jmp = np.asarray(sp.jump_path, dtype=float)
            pay = np.ravel(np.asarray(pm.payoff, dtype=float))
            coupled = det.ndim == 2
            rows = (lambda x: [exact_int(float(x[0][-1]) / U, tol=1e-7), exact_int(float(x[1][-1]) / U, tol=1e-7)]) if coupled else \
                   (lambda x: [exact_int(float(np.ravel(x)[-1]) / U, tol=1e-7)])
            e = {"e": "Sample", "lvl": int(level), "idx": int(simulation), "coupled": bool(coupled), "T": exact_int(times[-1]),
                 "det": rows(det), "dif": rows(dif), "jmp": rows(jmp),
                 "pay2": [exact_int(2.0 * float(p) / U, tol=1e-7) for p in pay]}
            e["bad"] = count_bad(e)
            ev.append(e)
        st.add = add
        return st
    eng.create_mlmc_statistics = create_stats
    eng.COSPricer = stubs.DummyCOSPricer
    np.random.normal = ScriptedNormal()
    try:
        if sc["fixed"]:
            stats = engine.price_with_constant_mc_paths_and_level(product)
        else:
            stats = engine.price(product, rmse=0.1)
        res = stats.mlmc_results
        nl_ = [int(x) for x in res.Nl]
        # level sums of the discounted (fine - coarse) payoffs, in half units
        dps = [exact_int(2.0 * float(m) * n / U, tol=1e-6) for m, n in zip(np.ravel(res._ncms_dp.ncm_first), nl_)]
        fines = [exact_int(2.0 * float(m) * n / U, tol=1e-6) for m, n in zip(np.ravel(res.mean_level_l), nl_)]
        prod_n = 1
        for n in nl_:
            prod_n *= n
        e = {"e": "Ret", "Nl": nl_, "dpsum2": dps, "finesum2": fines,
             "price_scaled": exact_int(2.0 * float(stats.price()) * prod_n / U, tol=1e-5), "prodN": prod_n}
        e["bad"] = count_bad(e)
        ev.append(e)
    except Exception as ex:
        import traceback
        ev.append({"e": "Raise", "what": type(ex).__name__ + ": " + str(ex)[:100], "tb": traceback.format_exc()[-600:]})
    finally:
        eng.create_mlmc_statistics, eng.COSPricer, np.random.normal = real_create, real_cos, real_normal
    return {"tid": tid, "hdr": hdr, "ev": ev}


def one_run_2d(tid, sc, rng):
    """the same end to end on the REAL Levy-copula coupling (two dimensions): underlying NthSpot(k) or Mean"""
    import rpylib.montecarlo.multilevel.engine as eng
    from rpylib.distribution.sampling import SamplingMethod
    from rpylib.grid.spatial import CTMCGrid
    from rpylib.montecarlo.configuration import ConfigurationMultiLevel, ConvergenceRates
    from rpylib.montecarlo.multilevel.criteria import ConvergenceCriteria
    from rpylib.process.coupling.couplinglevycopula import CouplingProcessLevyCopula
    from rpylib.product.payoff import Forward, PayoffType, Vanilla
    from rpylib.product.product import Product
    from rpylib.product.underlying import Mean, NthSpot
    d, step = 2, 32
    axis = np.array([j * step * U for j in range(-1, 2)])
    grid = CTMCGrid(h=step * U, origin_coordinate=1, axes=[axis] * d)
    pts = list(range(-31, 32, 4))
    atoms = [((a, b), rng.randint(1, 2)) for a in pts for b in pts if rng.random() < 0.5]
    model = atomic.atom_copula_model(atoms, d, drifts=[sc["a"][0] * U, sc["a"][1] * U])
    for m, sg in zip(model.models, sc["sigmas"]):
        m.levy_triplet.sigma = sg * U
    model.df = lambda t: 0.5
    for m in model.models:
        m.df = lambda t: 0.5
    cp = CouplingProcessLevyCopula(levy_copula_model=model, grid=grid, method=SamplingMethod.BINARYSEARCHTREEADAPTED)
    kind, K = sc["payoff"]
    payoff = Forward(strike=K * U) if kind == "forward" else Vanilla(strike=K * U, payoff_type=PayoffType.CALL if kind == "call" else PayoffType.PUT)
    und = sc["und"]
    underlying = Mean() if und == 0 else NthSpot(und)
    product = Product(underlying, payoff, maturity=1.0, notional=1.0)
    conf = ConfigurationMultiLevel(convergence_rates=ConvergenceRates(1.0, 1.0, 1.0), initial_level=0, maximum_level=sc["LMax"],
                                   initial_mc_paths=sc["N0"], seed=sc["seed"], nb_of_processes=1)
    engine = eng.Engine(conf, cp)
    hdr = {"kind": f"run2d:{kind}:und{und}", "K": int(K), "payoff": kind, "L0": 0, "und": und, "d": d}
    ev = []
    real_create, real_cos, real_normal = eng.create_mlmc_statistics, eng.COSPricer, np.random.normal

    def create_stats(*a, **k):
        st = real_create(*a, **k)
        r_add = st.add

        def add(simulation, level, pm):
            r_add(simulation, level, pm)
            sp = pm.stochastic_path
            times = np.asarray(sp.times(), dtype=float)
            det = np.asarray(pm.deterministic_path(times), dtype=float)
            dif = np.asarray(sp.diffusion_path, dtype=float)
            jmp = np.asarray(sp.jump_path, dtype=float)
            pay = np.ravel(np.asarray(pm.payoff, dtype=float))
            coupled = det.ndim == 3
            # rows: [component][dimension] terminal values in units
            def rows(x):
                x = x if coupled else x[np.newaxis, ...]
                return [[exact_int(float(x[c][j][-1]) / U, tol=1e-7) for j in range(d)] for c in range(x.shape[0])]
            e = {"e": "Sample2", "lvl": int(level), "idx": int(simulation), "coupled": bool(coupled), "T": exact_int(times[-1]),
                 "det": rows(det), "dif": rows(dif), "jmp": rows(jmp),
                 # Mean of two components: doubled payoffs are integers in half units
                 "pay4": [exact_int(4.0 * float(p) / U, tol=1e-7) for p in pay]}
            e["bad"] = count_bad(e)
            ev.append(e)
        st.add = add
        return st
    eng.create_mlmc_statistics = create_stats
    eng.COSPricer = stubs.DummyCOSPricer
    np.random.normal = ScriptedNormal()
    try:
        stats = engine.price_with_constant_mc_paths_and_level(product)
        res = stats.mlmc_results
        nl_ = [int(x) for x in res.Nl]
        dps = [exact_int(4.0 * float(m) * n / U, tol=1e-6) for m, n in zip(np.ravel(res._ncms_dp.ncm_first), nl_)]
        prod_n = 1
        for n in nl_:
            prod_n *= n
        e = {"e": "Ret2", "Nl": nl_, "dpsum4": dps, "price_scaled": exact_int(4.0 * float(stats.price()) * prod_n / U, tol=1e-5), "prodN": prod_n}
        e["bad"] = count_bad(e)
        ev.append(e)
    except Exception as ex:
        import traceback
        ev.append({"e": "Raise", "what": type(ex).__name__ + ": " + str(ex)[:100], "tb": traceback.format_exc()[-600:]})
    finally:
        eng.create_mlmc_statistics, eng.COSPricer, np.random.normal = real_create, real_cos, real_normal
    return {"tid": tid, "hdr": hdr, "ev": ev}


def main():
    out, tier, seed = sys.argv[1], sys.argv[2], int(sys.argv[3])
    quick = tier == "quick"
    rng = random.Random(seed)
    traces = []
    for rep in range(8 if quick else 40):
        fixed = rep % 2 == 0
        L0 = rng.choice([0, 1]) if not fixed else 0
        LMax = rng.choice([1, 2]) if fixed else rng.choice([L0 + 1, 2])
        N0 = rng.choice([2, 3, 4])
        plan = [[N0 + rng.randint(0, 2) for _ in range(4)], [N0 + rng.randint(2, 4) for _ in range(4)]]
        sc = {"fixed": fixed, "L0": L0, "LMax": LMax, "N0": N0, "plan": plan, "seed": rng.randint(1, 10 ** 6),
              "sigma": rng.choice([0, 4, 8]), "a": rng.randint(-12, 12),
              "payoff": rng.choice([("forward", rng.randint(-20, 20)), ("call", rng.choice([-16, 0, 10, 48])), ("put", rng.choice([-8, 6, 32]))])}
        traces.append(one_run(f"u{len(traces)}", sc, rng))
    # a payoff of dimension 3 (vector of strikes): known finding C05-vector-payoff
    for fixed in (True, False):
        sc = {"fixed": fixed, "L0": 0, "LMax": 1, "N0": 2, "plan": [[2, 2], [3, 3]], "seed": 5, "sigma": 4, "a": 0, "payoff": ("vcall", 0)}
        traces.append(one_run(f"u{len(traces)}", sc, rng))
    for rep in range(4 if quick else 16):
        sc = {"LMax": rng.choice([1, 1, 2]), "N0": rng.choice([2, 3]), "seed": rng.randint(1, 10 ** 6), "sigmas": rng.choice([(0, 0), (8, 8), (8, 16)]),
              "a": (rng.randint(-9, 9), rng.randint(-9, 9)), "und": rep % 3,
              "payoff": rng.choice([("forward", rng.randint(-20, 20)), ("call", rng.choice([-16, 0, 10])), ("put", rng.choice([-8, 6, 32]))])}
        traces.append(one_run_2d(f"u{len(traces)}", sc, rng))
    with open(out, "w") as f:
        for t in traces:
            f.write(json.dumps(t, separators=(",", ":")) + "\n")
    print(len(traces))


if __name__ == "__main__":
    main()
