"""C06 driver: the real compute_mc_paths_giles / criteria_giles on exact inputs (DESIGN.md C06).

usage: python -m harness.drivers.alloc_run <out.ndjson> <tier>
Prints one JSON line {"vn","vd","bn","bd"}: the variance share and the squared bias share measured on the code.
"""
import itertools
import json
import math
import sys
import warnings
from fractions import Fraction

import numpy as np

from harness.encode import count_bad, exact_int

warnings.filterwarnings("ignore")


def measure(compute, criteria):
    # variance share: one level, V = 3e6, C = 1, rmse = 1  =>  N = ceil(V / share)
    V = 3.0e6
    n = int(compute(1.0, np.array([V]), np.array([1.0]))[0])
    var_share = Fraction(V / n).limit_denominator(64) if n > 0 else Fraction(0)
    # bias share: flip point of criteria(alpha=1, ml=[0,0,m], rmse=1) in m (rem = m)
    lo, hi = 0.0, 4.0
    for _ in range(60):
        mid = 0.5 * (lo + hi)
        try:
            ok = bool(criteria(1.0, np.array([0.0, 0.0, mid]), 1.0))
        except Exception:
            ok = False
        if ok:
            lo = mid
        else:
            hi = mid
    bias_share = Fraction(lo * lo).limit_denominator(64)
    return var_share, bias_share


def main():
    out, tier = sys.argv[1], sys.argv[2]
    from rpylib.montecarlo.multilevel.criteria import compute_mc_paths_giles, criteria_giles
    vs, bs = measure(compute_mc_paths_giles, criteria_giles)
    shares = {"vn": vs.numerator, "vd": vs.denominator, "bn": bs.numerator, "bd": bs.denominator}
    avals = range(0, 4) if tier == "quick" else range(0, 5)
    bvals = range(0, 4)
    pqs = [(1, 1), (2, 1), (4, 1), (1, 2)] + ([] if tier == "quick" else [(3, 2), (9, 4)])
    traces = [{"tid": "shares", "ev": [dict(shares, e="Shares")]}]
    for n in (1, 2, 3):
        for (p, q) in pqs:
            ev = []
            rmse = math.sqrt(p / q)
            # the allocation does not depend on the unit in which costs are measured: powers of two keep it exact
            scales = [0] if (n == 3 and (p, q) != (1, 1)) else [0, -40, 24]
            for a in itertools.product(avals, repeat=n):
                for b in itertools.product(bvals, repeat=n):
                    for sc in scales:
                        vl = np.array([float(x * x) for x in a])
                        cl = np.array([float(x * x) for x in b]) * 2.0 ** sc
                        try:
                            N = [exact_int(x) for x in compute_mc_paths_giles(rmse, vl, cl)]
                        except Exception:
                            N = []
                        r = {"e": "Alloc", "a": list(a), "b": list(b), "p": p, "q": q, "N": N, "cscale": sc}
                        r["bad"] = count_bad(N)
                        ev.append(r)
            for i in range(0, len(ev), 400):
                traces.append({"tid": f"alloc_n{n}_p{p}q{q}_{i // 400}", "ev": ev[i:i + 400]})
    # stopping test on integer level means
    mvals = range(0, 5) if tier == "quick" else range(0, 7)
    for nl in (1, 2, 3, 4):
        ev = []
        for m in itertools.product(mvals, repeat=nl):
            for alpha in (1, 2):
                for (p, q) in pqs:
                    try:
                        ret = "T" if bool(criteria_giles(float(alpha), np.array([float(x) for x in m]), math.sqrt(p / q))) else "F"
                    except Exception as ex:
                        ret = "EXC:" + type(ex).__name__
                    ev.append({"e": "Bias", "m": list(m), "alpha": alpha, "p": p, "q": q, "ret": ret})
        for i in range(0, len(ev), 400):
            traces.append({"tid": f"bias_n{nl}_{i // 400}", "ev": ev[i:i + 400]})
    with open(out, "w") as f:
        for t in traces:
            f.write(json.dumps(t, separators=(",", ":")) + "\n")
    print(json.dumps(shares))


if __name__ == "__main__":
    main()
