"""C08 driver: real pricing runs (standard and multilevel engine, 1 / 2 worker processes, seed given or not) with the
random-number discipline observed from outside.

usage: python -m harness.drivers.rng_run <out.ndjson> <tier> <seed>
Observation (no change to rpylib): class-level wrappers installed in this process and inherited by forked workers:
  * every sample carries a tag: process id, generator fingerprint before / after, the pre-drawn rows it popped,
    a hash of its values, and the np.random.seed calls made in its process since the previous sample;
  * the pre-drawn deques are replaced (right after pre_computation) by recording deques whose rows carry identities.
Fingerprints and hashes are reduced to integers < 2^30 (equality is all TLC needs).
"""
import hashlib
import json
import os
import random as pyrandom
import sys
import warnings
from collections import deque

import numpy as np

warnings.filterwarnings("ignore")

STATE = {"seeds": [], "pops": [], "pseq": 0, "dq": 0, "parent_log": []}


def h30(b: bytes) -> int:
    return int.from_bytes(hashlib.sha1(b).digest()[:4], "big") & (2 ** 30 - 1)


def state_bytes() -> bytes:
    st = np.random.get_state()
    return st[1].tobytes() + bytes(str((st[2], st[3], st[4])), "ascii") + bytes(str(pyrandom.getstate()[1][-1]), "ascii")


def fingerprint() -> int:
    return h30(state_bytes())


def fingerprint_wide():
    """60 bits (two limbs): for passes with tens of thousands of samples, where 30 bits would collide by chance"""
    return h60(state_bytes())


class RecordingDeque(deque):
    """pre-drawn rows with identities: (deque uid, row index); pops are noted in the popping process"""

    def __init__(self, items=(), uid=0):
        super().__init__(items)
        self.uid = uid
        self.next = 0

    def popleft(self):
        v = super().popleft()
        STATE["pops"].append([self.uid, self.next])
        self.next += 1
        return v

    def __reduce__(self):
        return (_rebuild_deque, (list(self), self.uid, self.next))

    def __deepcopy__(self, memo):
        return _rebuild_deque(list(self), self.uid, self.next)


def _rebuild_deque(items, uid, nxt):
    d = RecordingDeque(items, uid)
    d.next = nxt
    return d


def h60(b: bytes):
    d = hashlib.sha1(b).digest()
    return [int.from_bytes(d[:4], "big") & (2 ** 30 - 1), int.from_bytes(d[4:8], "big") & (2 ** 30 - 1)]


class RecordingRows:
    """any other container of pre-drawn rows that is consumed through popleft(): rows of floats are identified by
    their values (bit-equal rows of normals are the same row), rows of counts by the number of the pop"""

    def __init__(self, inner, uid):
        self.inner, self.uid, self.next = inner, uid, 0

    def popleft(self):
        v = self.inner.popleft()
        a = np.asarray(v)
        if a.dtype.kind == "f" and a.size:
            STATE["pops"].append([self.uid] + h60(np.ascontiguousarray(a).tobytes()))
        else:
            STATE["pops"].append([self.uid, self.next])
        self.next += 1
        return v

    def __len__(self):
        return len(self.inner)

    def __getattr__(self, name):
        if name in ("inner", "uid", "next"):
            raise AttributeError(name)
        return getattr(self.inner, name)


def recording(container, uid):
    if isinstance(container, deque):
        return RecordingDeque(container, uid)
    return RecordingRows(container, uid)


def install():
    """class-level observation points"""
    import rpylib.montecarlo.configuration as cfg
    import rpylib.montecarlo.path as pathmod
    from rpylib.montecarlo.path import StochasticJumpPath
    from rpylib.process.coupling.couplingmarkovchain import CouplingMarkovChain
    from rpylib.process.levyprocess import LevyProcess, SimulationFixedTimes

    class TaggedPath(StochasticJumpPath):
        __slots__ = ("tag",)

    global TaggedPathClass
    TaggedPathClass = TaggedPath
    real_seed = np.random.seed

    def seed(v=None):
        real_seed(v)
        STATE["seeds"].append([int(v) % (2 ** 30) if v is not None else -1, fingerprint()])
    np.random.seed = seed

    class FixedClock:
        @staticmethod
        def time():
            return FixedClock.now
    FixedClock.now = 1_700_000_000.0
    cfg.time = FixedClock

    def wrap_sim(orig):
        def sim(self, *a, **k):
            sb0 = state_bytes()
            fp0 = h30(sb0)
            STATE["pops"] = []
            p = orig(self, *a, **k)
            fp1 = fingerprint()
            STATE["pseq"] += 1
            vals = np.ascontiguousarray(np.asarray(p.jump_path, dtype=float)).tobytes() + \
                np.ascontiguousarray(np.asarray(p.diffusion_path, dtype=float)).tobytes()
            tag = {"pid": os.getpid(), "pseq": STATE["pseq"], "fp0": fp0, "fp1": fp1, "rows": list(STATE["pops"]),
                   "vh": h30(vals), "vh2": h60(vals), "fp0w": h60(sb0), "seeds": list(STATE["seeds"])}
            STATE["seeds"] = []
            t = TaggedPath(p.jump_times, p.diffusion_path, p.jump_path)
            t.tag = tag
            return t
        return sim
    LevyProcess.simulate_one_path = wrap_sim(LevyProcess.simulate_one_path)
    orig_cp = CouplingMarkovChain.simulate_one_path_with_coupling
    CouplingMarkovChain.simulate_one_path_with_coupling = wrap_sim(orig_cp)
    # CouplingMarkovChain.simulate_one_path delegates to fine_process.simulate_one_path (already wrapped)

    orig_pre = SimulationFixedTimes.pre_computation

    def pre(self, mc_paths, product):
        fp0 = fingerprint()
        orig_pre(self, mc_paths, product)
        fp1 = fingerprint()
        STATE["dq"] += 1
        uid = STATE["dq"]
        self._brownian_increments = recording(self._brownian_increments, 2 * uid)
        self._poisson_rv = recording(self._poisson_rv, 2 * uid + 1)
        STATE["parent_log"].append({"e": "PreDraw", "pid": os.getpid(), "fp0": fp0, "fp1": fp1, "n": int(mc_paths), "dq": uid,
                                    "seeds": list(STATE["seeds"])})
        STATE["seeds"] = []
    SimulationFixedTimes.pre_computation = pre

    orig_set = pathmod.MCPath.set_to_path

    def set_to_path(self, p):
        tag = getattr(p, "tag", None)
        if tag is not None:
            # the values as they ARRIVE where the sample is consumed (a path handed over by a worker may have been
            # overwritten after it was simulated): these are the values the statistics see
            vals = np.ascontiguousarray(np.asarray(p.jump_path, dtype=float)).tobytes() + \
                np.ascontiguousarray(np.asarray(p.diffusion_path, dtype=float)).tobytes()
            STATE["parent_log"].append(dict(tag, e="Sample", vh_sim=tag["vh"], vh=h30(vals), vh2=h60(vals)))
        return orig_set(self, p)
    pathmod.MCPath.set_to_path = set_to_path


def exp_hem():
    from rpylib.model.utils import create_exponential_of_levy_model, ModelType
    return create_exponential_of_levy_model(ModelType.HEM)(spot=100.0, r=0.02, d=0.0, sigma=0.1, p=0.6, eta1=20, eta2=25, intensity=3)


def product(mode):
    """mode 'fixed': the path is simulated on the product dates from pre-drawn rows;
    mode 'jump': the payoff dates depend on the path, the engines simulate the path at its jump times (nothing pre-drawn)"""
    from rpylib.product.payoff import PayoffDates, PayoffType, Vanilla
    from rpylib.product.product import Product
    from rpylib.product.underlying import Spot
    payoff = Vanilla(strike=100.0, payoff_type=PayoffType.CALL)
    if mode == "jump":
        payoff.payoff_dates_type = PayoffDates.STOCHASTIC
    return Product(Spot(), payoff, maturity=0.5)


def exp_bs():
    from rpylib.model.utils import create_exponential_of_levy_model, ModelType
    return create_exponential_of_levy_model(ModelType.BLACKSCHOLES)(spot=100.0, r=0.02, d=0.0, sigma=0.2)


def one_run(engine_kind, proc_kind, nproc, seed, npaths, mode="fixed"):
    """returns (events, price)"""
    from rpylib.distribution.sampling import SamplingMethod
    from rpylib.grid.spatial import CTMCUniformGrid
    from rpylib.montecarlo.configuration import ConfigurationMultiLevel, ConfigurationStandard, ConvergenceRates
    from rpylib.montecarlo.multilevel.criteria import ConvergenceCriteria
    from rpylib.process.coupling.couplingmarkovchain import CouplingMarkovChain
    from rpylib.process.levyprocess import LevyProcess
    from rpylib.process.markovchain.markovchain import MarkovChainProcess
    STATE["parent_log"] = []
    STATE["seeds"] = []
    model = exp_hem()
    prod = product(mode)
    if engine_kind == "std":
        import rpylib.montecarlo.standard.engine as eng
        if proc_kind == "bs":
            proc = LevyProcess(exp_bs())
        elif proc_kind == "direct":
            proc = LevyProcess(model)
        else:
            grid = CTMCUniformGrid(h=0.1, model=model, truncation_probability=0.999)
            # "chain_table": the sampler that draws from Python's random module rather than from numpy
            method = SamplingMethod.TABLE if proc_kind == "chain_table" else SamplingMethod.BINARYSEARCHTREE
            proc = MarkovChainProcess(model=model, method=method, grid=grid)
        conf = ConfigurationStandard(mc_paths=npaths, seed=seed, nb_of_processes=nproc)
        stats = eng.Engine(conf, proc).price(prod)
        price = float(np.ravel(stats.price())[0])
    else:
        import rpylib.montecarlo.multilevel.engine as eng
        grid = CTMCUniformGrid(h=0.2, model=model, truncation_probability=0.99)
        cp = CouplingMarkovChain(model=model, method=SamplingMethod.BINARYSEARCHTREE, grid=grid)
        if proc_kind == "fixedlevels":
            conf = ConfigurationMultiLevel(convergence_rates=ConvergenceRates(1.0, 1.0, 1.0), initial_level=0, maximum_level=1,
                                           initial_mc_paths=npaths, seed=seed, nb_of_processes=nproc)
            stats = eng.Engine(conf, cp).price_with_constant_mc_paths_and_level(prod)
        else:
            calls = {"n": 0}

            def compute(rmse, vl, cl):
                calls["n"] += 1
                base = [npaths, npaths, 2][:len(vl)] + [2] * max(0, len(vl) - 3)
                return np.array([b + (2 if calls["n"] >= 2 else 0) for b in base], dtype=int)

            def crit(alpha, ml, rmse):
                return calls["n"] >= 3
            conf = ConfigurationMultiLevel(convergence_rates=ConvergenceRates(1.0, 1.0, 1.0),
                                           convergence_criteria=ConvergenceCriteria(criteria=crit, compute_mc_paths=compute),
                                           initial_level=1, maximum_level=2, initial_mc_paths=npaths, seed=seed, nb_of_processes=nproc)
            stats = eng.Engine(conf, cp).price(prod, rmse=0.5)
        price = float(stats.price())
    ev = list(STATE["parent_log"])
    # seeds made in the parent that no sample carried yet
    if STATE["seeds"]:
        ev.append({"e": "Seeds", "seeds": list(STATE["seeds"])})
    return ev, price


def main():
    out, tier, seed0 = sys.argv[1], sys.argv[2], int(sys.argv[3])
    quick = tier == "quick"
    install()
    traces = []
    cases = []
    for engine_kind, proc_kinds in (("std", ["direct", "chain"]), ("mlmc", ["fixedlevels", "adaptive"])):
        for pk in proc_kinds:
            for nproc in (1, 2):
                for seed in (1234, None):
                    cases.append((engine_kind, pk, nproc, seed, "fixed"))
    # jump-time simulation mode: jump times, jump sizes and Brownian increments are all drawn on the fly
    for ek, pk in (("std", "direct"), ("std", "chain"), ("mlmc", "adaptive"), ("mlmc", "fixedlevels")):
        for nproc, seed in ((1, 1234), (1, None), (2, 1234)):
            cases.append((ek, pk, nproc, seed, "jump"))
    cases.append(("std", "chain_table", 1, 1234, "fixed"))
    cases.append(("std", "chain_table", 1, 1234, "jump"))
    from harness.encode import ranks
    for (ek, pk, nproc, seed, mode) in cases:
        npaths = 5 if quick else 9
        if mode == "jump":
            npaths = 12 if quick else 25        # enough paths for some to have jumps
        if nproc > 1:
            npaths = max(npaths, 20)            # several paths per chunk handed to a worker (chunk size = n / (4 workers))
        hdr = {"kind": f"{ek}:{pk}:{mode}:np{nproc}:{'seed' if seed else 'noseed'}", "nproc": nproc, "seeded": seed is not None,
               "single": nproc == 1}
        ev = []
        try:
            prices = []
            for run in (1, 2):
                # the ambient generator state differs from run to run (as it does between two program starts)
                np.random.seed(None)
                import random as _random
                _random.seed()
                STATE["seeds"] = []
                e, price = one_run(ek, pk, nproc, seed, npaths, mode)
                ev.append({"e": "Run", "n": run})
                ev += e
                prices.append(price)
            rk = ranks(prices)
            ev.append({"e": "Results", "prices": rk})
        except Exception as ex:
            import traceback
            ev.append({"e": "Raise", "what": type(ex).__name__ + ": " + str(ex)[:100]})
        traces.append({"tid": f"r{len(traces)}", "hdr": hdr, "ev": ev})
    # one pass with more samples than any block a container of pre-drawn rows may be cut into (2^16 < n): the samples are
    # condensed into one event, TLC decides distinctness by the cardinality of the sets
    for (ek, pk, n) in ([("std", "bs", 66000)] if quick else [("std", "bs", 140000), ("std", "direct", 70000)]):
        hdr = {"kind": f"bulk:{ek}:{pk}:{n}", "nproc": 1, "seeded": True, "single": True}
        ev = []
        try:
            np.random.seed(None)
            STATE["seeds"] = []
            e, price = one_run(ek, pk, 1, 4321, n, "fixed")
            smp = [x for x in e if x["e"] == "Sample"]
            ev.append({"e": "Run", "n": 1})
            ev += [x for x in e if x["e"] != "Sample"]
            ev.append({"e": "Bulk", "n": len(smp), "want": n, "vh": [x["vh2"] for x in smp],
                       "rows": [r for x in smp for r in x["rows"]], "nrows": sum(len(x["rows"]) for x in smp),
                       "fp0": [x["fp0w"] for x in smp if x["fp0"] != x["fp1"]],
                       "seeds": [sd for x in smp for sd in x["seeds"]]})
        except Exception as ex:
            ev.append({"e": "Raise", "what": type(ex).__name__ + ": " + str(ex)[:100]})
        traces.append({"tid": f"r{len(traces)}", "hdr": hdr, "ev": ev})
    with open(out, "w") as f:
        for t in traces:
            f.write(json.dumps(t, separators=(",", ":")) + "\n")
    print(len(traces))


if __name__ == "__main__":
    main()
