"""C17 driver (multi-asset underlyings, rate payoffs): real Product objects evaluated on rational terminal values, after
histories of representation updates and earlier evaluations; every value recorded as a reduced fraction.

usage: python -m harness.drivers.product2_run <out.ndjson> <tier> <seed>
"""
import json
import random
import sys
import warnings
from fractions import Fraction

import numpy as np

warnings.filterwarnings("ignore")


def fr(x):
    f = Fraction(x).limit_denominator(1 << 16) if not isinstance(x, Fraction) else x
    return [f.numerator, f.denominator]


def sense(v):
    v = float(np.ravel(np.asarray(v, dtype=float))[0])
    if not np.isfinite(v):
        return [0, 0]
    f = Fraction(v).limit_denominator(1 << 16)
    if abs(float(f) - v) > 1e-9 * max(1.0, abs(v)):
        return [0, 0]
    return [f.numerator, f.denominator]


def build(t):
    from rpylib.product import payoff as P
    from rpylib.product import underlying as U
    from rpylib.product.product import Product
    F = lambda q: float(Fraction(q[0], q[1]))
    und = {"Mean": lambda: U.Mean(), "Perf": lambda: U.Performances([F(x) for x in t["s0"]]),
           "MaxPerf": lambda: U.MaximumOfPerformances([F(x) for x in t["s0"]]), "NthSpot": lambda: U.NthSpot(t["index"]),
           "Indic": lambda: U.Indicators([F(x) for x in t["thr"]]), "Libors": lambda: U.Libors(), "Spot": lambda: U.Spot()}[t["und"]]()
    pay = t["pay"]
    if pay == "Forward":
        po = P.Forward(F(t["k"]))
    elif pay in ("Call", "Put"):
        po = P.Vanilla(F(t["k"]), P.PayoffType.CALL if pay == "Call" else P.PayoffType.PUT)
    elif pay == "Coupon":
        po = P.FixedCoupon(F(t["k"]))
    elif pay == "Identity":
        po = P.PayoffOnTheFly(lambda x: x)
    elif pay == "Rainbow":
        po = P.Rainbow(np.array([F(x) for x in t["w"]]), F(t["k"]), P.PayoffType.CALL if t["eps"] == 1 else P.PayoffType.PUT)
    else:
        deltas = np.array([F(x) for x in t["deltas"]])
        l0 = np.array([F(x) for x in t["L0"]])
        if pay == "Bond":
            po = P.Bond(l0, deltas)
        elif pay == "Cap":
            po = P.Cap(l0, deltas, F(t["k"]))
        elif pay == "Swaption":
            po = P.Swaption(l0, deltas, F(t["k"]), P.SwaptionType.PAYER if t["eps"] == 1 else P.SwaptionType.RECEIVER)
        else:
            po = P.Ratchet(deltas, F(t["gear"]), F(t["margin"]), F(t["spread"]), F(t["incr"]), F(t["first"]))
    return Product(und, po, maturity=1.0, notional=F(t["notional"]))


def terms(rng, quick):
    half, one, zero = [1, 2], [1, 1], [0, 1]
    out = []
    strikes = [[0, 1], [1, 4], [1, 1], [5, 2], [3, 1]]
    for d in (2, 3, 4):
        for k in strikes[:3]:
            out.append(({"und": "Mean", "pay": rng.choice(["Forward", "Call", "Put"]), "k": k}, d, "pos"))
        s0s = [[rng.choice([one, [2, 1], [4, 1], half]) for _ in range(d)] for _ in range(2)]
        for s0 in s0s:
            ws = [[one] + [zero] * (d - 1), [zero] * (d - 1) + [one], [half] + [zero] * (d - 2) + [half]]
            if d == 4:
                ws.append([[1, 4]] * 4)
            if d == 3:
                ws.append([half, [1, 4], [1, 4]])
            for w in ws:
                out.append(({"und": "Perf", "pay": "Rainbow", "s0": s0, "w": w, "k": rng.choice(strikes), "eps": rng.choice([1, -1])}, d, "pos"))
            out.append(({"und": "MaxPerf", "pay": rng.choice(["Call", "Put"]), "s0": s0, "k": rng.choice(strikes)}, d, "pos"))
        for idx in range(1, d + 1):
            out.append(({"und": "NthSpot", "index": idx, "pay": rng.choice(["Call", "Forward"]), "k": rng.choice(strikes)}, d, "pos"))
        out.append(({"und": "Indic", "thr": [rng.choice([half, one, [3, 2]]) for _ in range(d)], "pay": "Identity", "k": zero}, d, "pos"))
        out.append(({"und": "Spot", "pay": "Coupon", "k": [7, 4]}, 1, "pos"))
    for m in (1, 2, 3):
        for rep in range(2 if quick else 5):
            deltas = [rng.choice([half, [1, 4], one]) for _ in range(m)]
            l0 = [zero] * m if rep % 2 == 0 else [rng.choice([zero, [2, 1], [4, 1]]) for _ in range(m)]
            base = {"und": "Libors", "deltas": deltas, "L0": l0}
            out.append((dict(base, pay="Bond", k=zero), m, "any"))
            for k in ([1, 4], [1, 1], [0, 1]):
                out.append((dict(base, pay="Cap", k=k), m, "any"))
                out.append((dict(base, pay="Swaption", k=k, eps=1), m, "any"))
                out.append((dict(base, pay="Swaption", k=k, eps=-1), m, "any"))
            out.append((dict(base, pay="Ratchet", k=zero, gear=rng.choice([one, half, [2, 1]]), margin=rng.choice([zero, [1, 8]]),
                             spread=rng.choice([zero, [1, 4]]), incr=rng.choice([[1, 8], half, zero]), first=rng.choice([zero, [1, 4], one])), m, "any"))
    return out


def main():
    out, tier, seed = sys.argv[1], sys.argv[2], int(sys.argv[3])
    quick = tier == "quick"
    rng = random.Random(seed)
    from rpylib.process.process import ProcessRepresentation as PR
    traces = []
    posvals = [Fraction(1, 2), Fraction(1), Fraction(3, 2), Fraction(2), Fraction(3), Fraction(1, 4), Fraction(5, 2), Fraction(4)]
    anyvals = posvals + [Fraction(0), Fraction(-1, 2), Fraction(-1)]
    for (t, d, dom) in terms(rng, quick):
        t = dict(t, notional=fr(rng.choice([Fraction(1), Fraction(1), Fraction(3), Fraction(1, 2)])))
        for rep in range(3 if quick else 10):
            ev = []
            try:
                product = build(t)
                cur = "id"
                hist = [rng.choice(["Ui", "Ul", "E", "E", "E"]) for _ in range(rng.randint(2, 6))] + ["E"]
                for op in hist:
                    if op[0] == "U":
                        cur = "id" if op == "Ui" else "log"
                        product.update(PR.LOG if cur == "log" else PR.IDENDITY)
                        ev.append({"e": "Upd", "r": cur})
                        continue
                    vals = posvals if (dom == "pos" or cur == "log") else anyvals
                    S = [rng.choice(vals) for _ in range(d)]
                    cols = rng.randint(2, 4)
                    mat = np.array([[float(rng.choice(posvals)) for _ in range(cols - 1)] + [float(s)] for s in S])
                    if t["und"] == "Spot":
                        mat = mat[0]
                    path = np.log(mat) if cur == "log" else mat
                    times = np.linspace(0.0, 1.0, cols)
                    v = product(product.underlying_value(times, path, path))
                    ev.append({"e": "Eval", "S": [fr(s) for s in S], "v": sense(v)})
            except Exception as ex:
                ev.append({"e": "Raise", "what": type(ex).__name__ + ": " + str(ex)[:80]})
            traces.append({"tid": f"m{len(traces)}", "hdr": {"t": t, "kind": t["und"] + ":" + t["pay"]}, "ev": ev})
    # the credit default swap payoff as a function of the default time, with the discounting 2^(-t)
    ev = []
    try:
        from rpylib.product import payoff as PP
        from harness.encode import quantise
        rows = []
        for Tm in (2, 3):
            for R in (Fraction(0), Fraction(1, 2), Fraction(1), Fraction(1, 4)):
                for sp in (Fraction(0), Fraction(1), Fraction(1, 4)):
                    cds = PP.CDS(recovery_rate=float(R), spread=float(sp), maturity=float(Tm), discounting=lambda t: 2.0 ** (-t))
                    for tau in (0, 1, 2, 3, 4, 6):
                        v = float(cds.evaluate(float(tau)))
                        rows.append({"Tm": Tm, "tau": tau, "R": fr(R), "s": fr(sp), "v": quantise(v, 1e-5)})
        ev.append({"e": "Cds", "rows": rows})
    except Exception as ex:
        ev.append({"e": "Raise", "what": type(ex).__name__ + ": " + str(ex)[:80]})
    traces.append({"tid": f"m{len(traces)}", "hdr": {"t": {}, "kind": "DefaultTime:CDS"}, "ev": ev})
    with open(out, "w") as f:
        for tr in traces:
            f.write(json.dumps(tr, separators=(",", ":")) + "\n")
    print(len(traces))


if __name__ == "__main__":
    main()
