"""C12 driver: rectangle masses of the REAL LevyCopulaModel over atomic models (exact table copula), every route.

usage: python -m harness.drivers.copmass_run <out.ndjson> <tier> <seed>
End points are even lattice units or +-inf (encoded +-10^6); atoms sit at odd lattice points.
"""
import itertools
import json
import random
import sys
import warnings

import numpy as np

from harness import atomic
from harness.encode import count_bad, exact_int

warnings.filterwarnings("ignore")
U = atomic.UNIT
BIG = 10 ** 6


def enc(x):
    return BIG if x == np.inf else (-BIG if x == -np.inf else int(round(x / U)))


QU = 1e-7


def q(x):
    from harness.encode import quantise
    return quantise(float(x), QU)


def real_model_traces(rng, quick):
    """REAL copulas (Clayton, independent, completely dependent) over real margins: the clauses of C12 that do not need
    an exact reference, on numbers quantised to 1e-7 (thin): non-negativity, agreement of the fast paths with the
    general recursion, additivity of a split, margin consistency, inverse tail integral."""
    from harness.models import copula_models, levy_models
    from rpylib.model.utils import create_levy_copula_model, create_independent_copula, create_dependent_copula
    cms = dict(copula_models())
    lm = levy_models()
    cms["indep2"] = create_levy_copula_model([lm["hem"], lm["hem2"]], create_independent_copula())
    cms["indep3"] = create_levy_copula_model([lm["hem2"], lm["merton"], lm["hem"]], create_independent_copula())
    cms["dep2"] = create_levy_copula_model([lm["hem2"], lm["hem"]], create_dependent_copula())
    cms["clayton2_cgmy"] = create_levy_copula_model([lm["cgmy05"], lm["hem2"]], copula_models()["clayton3"].copula)
    kinds = [(0.03, 0.09), (0.05, np.inf), (-0.08, -0.02), (-np.inf, -0.04), (-0.05, 0.07), (-np.inf, np.inf), (-0.03, np.inf),
             (-np.inf, 0.06), (0.011, 0.013), (-0.2, -0.11)]
    out = []
    for name, model in sorted(cms.items()):
        d = model.dimension()
        hdr = {"kind": "real:" + name, "atoms": []}
        ev = []
        combos = [c for c in itertools.product(kinds, repeat=d) if not all(x < 0 < y for x, y in c)]
        rng.shuffle(combos)
        for c in combos[:(60 if quick else 400)]:
            a = [x for x, _ in c]
            b = [y for _, y in c]
            try:
                nd = model._mass_nd(list(a), list(b))
                fast = model.mass(tuple(a), tuple(b))
                e = {"e": "Real", "sub": "rect", "nd": q(nd), "fast": q(fast)}
                # split along one axis at an interior point (possibly 0-straddling pieces, never an end at 0)
                k = rng.randrange(d)
                lo, hi = a[k], b[k]
                cands = [x for x in (-0.15, -0.06, -0.03, 0.02, 0.04, 0.08, 0.3) if lo < x < hi]
                if cands:
                    cpt = rng.choice(cands)
                    b1, a2 = list(b), list(a)
                    b1[k], a2[k] = cpt, cpt
                    okl = not all(x < 0 < y for x, y in zip(a, b1))
                    okr = not all(x < 0 < y for x, y in zip(a2, b))
                    if okl and okr:
                        e.update({"left": q(model.mass(tuple(a), tuple(b1))), "right": q(model.mass(tuple(a2), tuple(b))), "split": 1})
                e.setdefault("split", 0)
                e.setdefault("left", 0)
                e.setdefault("right", 0)
                # margin consistency: all other coordinates over the whole line
                others_full = [i for i in range(d) if a[i] == -np.inf and b[i] == np.inf]
                rest = [i for i in range(d) if i not in others_full]
                if len(rest) == 1 and not (a[rest[0]] < 0 < b[rest[0]]):
                    i = rest[0]
                    e.update({"marg": q(model.models[i].levy_triplet.nu.integrate(a[i], b[i])), "hasmarg": 1})
                e.setdefault("hasmarg", 0)
                e.setdefault("marg", 0)
                ev.append(e)
            except Exception as ex:
                ev.append({"e": "Raise", "what": type(ex).__name__ + ": " + str(ex)[:80]})
        # inverse marginal tail integral: attainable levels on both sides
        for i, m in enumerate(model.models):
            nu = m.levy_triplet.nu
            lam_p, lam_m = float(nu.integrate(0.0, np.inf)), float(nu.integrate(-np.inf, 0.0))
            levels = []
            for f in (0.05, 0.3, 0.6, 0.9, 0.98):
                levels += [f * lam_p if np.isfinite(lam_p) else 100.0 * f, -(f * lam_m if np.isfinite(lam_m) else 100.0 * f)]
            for x in levels:
                try:
                    inv = model.inverse_tail_integral(i, x)
                    back = model.marginal_tail_integral(i, float(inv))
                    ev.append({"e": "Real", "sub": "inv", "x": q(x), "back": q(back), "sidepos": 1 if x > 0 else 0, "invpos": 1 if inv > 0 else 0})
                except Exception as ex:
                    ev.append({"e": "Raise", "what": "inverse_tail_integral: " + type(ex).__name__ + ": " + str(ex)[:60]})
        for k in range(0, len(ev), 200):
            out.append({"tid": "", "hdr": hdr, "ev": ev[k:k + 200]})
    return out


def main():
    out, tier, seed = sys.argv[1], sys.argv[2], int(sys.argv[3])
    quick = tier == "quick"
    rng = random.Random(seed)
    traces = []
    ends_u = [-np.inf, -4, -2, 2, 4, np.inf]
    for d in (2, 3):
        for rep in range(2 if quick else 5):
            atoms = atomic.joint_atoms_in_box([-6] * d, [6] * d, d, rng, 14 if d == 2 else 18, wmax=7)
            hdr = {"kind": f"d{d}", "atoms": [[list(k), w] for k, w in atoms]}
            model = atomic.atom_copula_model(atoms, d)
            ends = [e * U if np.isfinite(e) else e for e in ends_u]
            pairs = [(x, y) for x, y in itertools.combinations(ends, 2)]
            rects = [r for r in itertools.product(pairs, repeat=d) if not all(x < 0 < y for x, y in r)]
            rng.shuffle(rects)
            if d == 3:
                rects = rects[:250 if quick else 1500]
            ev = []
            try:
                for r in rects:
                    a = [x for x, _ in r]
                    b = [y for _, y in r]
                    subsets = [list(range(d))]
                    if rng.random() < 0.5:
                        k = rng.randint(1, d - 1)
                        subsets.append(sorted(rng.sample(range(d), k)))
                    # index families listed in another order than the sorted one (the whole family too, given explicitly)
                    explicit = set()
                    if rng.random() < 0.35:
                        perm = rng.sample(range(d), d)
                        if perm != sorted(perm):
                            subsets.append(perm)
                            explicit.add(tuple(perm))
                    if rng.random() < 0.2 and d == 3:
                        sub = rng.sample(range(d), 2)
                        if sub != sorted(sub):
                            subsets.append(sub)
                    for idx in subsets:
                        aa, bb = [a[i] for i in idx], [b[i] for i in idx]
                        if all(x < 0 < y for x, y in zip(aa, bb)):
                            continue
                        full = len(idx) == d and tuple(idx) not in explicit
                        ms = []
                        ms.append(model._mass_nd(list(aa), list(bb), None if full else list(idx)))
                        if d == 2 or len(idx) <= 2:
                            ms.append(model._mass_2d(tuple(aa), tuple(bb), None if (full and d == 2) else list(idx)))
                        if d == 3:
                            ms.append(model._mass_3d(tuple(aa), tuple(bb), None if full else list(idx)))
                        ms.append(model.mass(tuple(aa), tuple(bb), None if full else list(idx)))
                        e = {"e": "Rect", "a": [enc(x) for x in aa], "b": [enc(x) for x in bb], "idx": [i + 1 for i in idx],
                             "m": [exact_int(m, tol=1e-7) for m in ms]}
                        e["bad"] = count_bad(e["m"])
                        ev.append(e)
                # additivity along an axis (recorded numbers only), splits at non-zero lattice points
                for _ in range(40 if quick else 200):
                    r = rng.choice(rects)
                    a = [x for x, _ in r]
                    b = [y for _, y in r]
                    k = rng.randrange(d)
                    inner = [e for e in ends if a[k] < e < b[k]]
                    if not inner:
                        continue
                    c = rng.choice(inner)
                    bl, ar = list(b), list(a)
                    bl[k], ar[k] = c, c
                    if all(x < 0 < y for x, y in zip(a, bl)) or all(x < 0 < y for x, y in zip(ar, b)):
                        continue
                    w, l, rr = model.mass(tuple(a), tuple(b)), model.mass(tuple(a), tuple(bl)), model.mass(tuple(ar), tuple(b))
                    e = {"e": "Split", "whole": exact_int(w, tol=1e-7), "left": exact_int(l, tol=1e-7), "right": exact_int(rr, tol=1e-7), "at": enc(c)}
                    e["bad"] = count_bad(e)
                    ev.append(e)
                # marginal tail integrals with their cache, in random order with repetitions
                for _ in range(60):
                    i = rng.randrange(d)
                    x = rng.choice([-5, -3, -1, 1, 3, 5, -4, -2, 2, 4]) * 1.0
                    x = x + 1 if int(x) % 2 else x
                    u = model.marginal_tail_integral(i, x * U)
                    ev.append({"e": "Tail", "i": i + 1, "x": int(x), "u": exact_int(u, tol=1e-7), "bad": 0})
            except Exception as ex:
                ev.append({"e": "Raise", "what": type(ex).__name__ + ": " + str(ex)[:100]})
            # split into several traces to keep TLC states small
            for k in range(0, len(ev), 150):
                traces.append({"tid": f"m{len(traces)}", "hdr": hdr, "ev": ev[k:k + 150]})
            # rectangles with an end exactly at 0 (the API cannot tell 0- from 0+): recorded finding
            ev0 = []
            ends0 = [e * U if np.isfinite(e) else e for e in [-np.inf, -4, -2, 0, 2, 4, np.inf]]
            pairs0 = [(x, y) for x, y in itertools.combinations(ends0, 2)]
            rects0 = [r for r in itertools.product(pairs0, repeat=d) if any(0.0 in p for p in r) and not all(x < 0 < y for x, y in r)]
            rng.shuffle(rects0)
            for r in rects0[:60]:
                a = [x for x, _ in r]
                b = [y for _, y in r]
                try:
                    m = model.mass(tuple(a), tuple(b))
                    ev0.append({"e": "Rect", "a": [enc(x) for x in a], "b": [enc(x) for x in b], "idx": list(range(1, d + 1)),
                                "m": [exact_int(m, tol=1e-7)], "bad": 0})
                except Exception as ex:
                    ev0.append({"e": "Raise", "what": type(ex).__name__})
            traces.append({"tid": f"m{len(traces)}", "hdr": dict(hdr, kind=f"d{d}:zero"), "ev": ev0})
    for t in real_model_traces(rng, quick):
        t["tid"] = f"m{len(traces)}"
        traces.append(t)
    with open(out, "w") as f:
        for t in traces:
            f.write(json.dumps(t, separators=(",", ":")) + "\n")
    print(len(traces))


if __name__ == "__main__":
    main()
