"""C12 driver: rectangle masses of the REAL LevyCopulaModel over atomic models (exact table copula), every route.

usage: python -m harness.drivers.copmass_run <out.ndjson> <tier> <seed>
End points are even lattice units or +-inf (encoded +-10^6); atoms sit at odd lattice points.
"""
import itertools
import json
import random
import sys
import warnings

import numpy as np

from harness import atomic
from harness.encode import count_bad, exact_int

warnings.filterwarnings("ignore")
U = atomic.UNIT
BIG = 10 ** 6


def enc(x):
    return BIG if x == np.inf else (-BIG if x == -np.inf else int(round(x / U)))


def main():
    out, tier, seed = sys.argv[1], sys.argv[2], int(sys.argv[3])
    quick = tier == "quick"
    rng = random.Random(seed)
    traces = []
    ends_u = [-np.inf, -4, -2, 2, 4, np.inf]
    for d in (2, 3):
        for rep in range(2 if quick else 5):
            atoms = atomic.joint_atoms_in_box([-6] * d, [6] * d, d, rng, 14 if d == 2 else 18, wmax=7)
            hdr = {"kind": f"d{d}", "atoms": [[list(k), w] for k, w in atoms]}
            model = atomic.atom_copula_model(atoms, d)
            ends = [e * U if np.isfinite(e) else e for e in ends_u]
            pairs = [(x, y) for x, y in itertools.combinations(ends, 2)]
            rects = [r for r in itertools.product(pairs, repeat=d) if not all(x < 0 < y for x, y in r)]
            rng.shuffle(rects)
            if d == 3:
                rects = rects[:250 if quick else 1500]
            ev = []
            try:
                for r in rects:
                    a = [x for x, _ in r]
                    b = [y for _, y in r]
                    subsets = [list(range(d))]
                    if rng.random() < 0.5:
                        k = rng.randint(1, d - 1)
                        subsets.append(sorted(rng.sample(range(d), k)))
                    for idx in subsets:
                        aa, bb = [a[i] for i in idx], [b[i] for i in idx]
                        if all(x < 0 < y for x, y in zip(aa, bb)):
                            continue
                        full = len(idx) == d
                        ms = []
                        ms.append(model._mass_nd(list(aa), list(bb), None if full else list(idx)))
                        if d == 2 or len(idx) <= 2:
                            ms.append(model._mass_2d(tuple(aa), tuple(bb), None if (full and d == 2) else list(idx)))
                        if d == 3:
                            ms.append(model._mass_3d(tuple(aa), tuple(bb), None if full else list(idx)))
                        ms.append(model.mass(tuple(aa), tuple(bb), None if full else list(idx)))
                        e = {"e": "Rect", "a": [enc(x) for x in aa], "b": [enc(x) for x in bb], "idx": [i + 1 for i in idx],
                             "m": [exact_int(m, tol=1e-7) for m in ms]}
                        e["bad"] = count_bad(e["m"])
                        ev.append(e)
                # additivity along an axis (recorded numbers only), splits at non-zero lattice points
                for _ in range(40 if quick else 200):
                    r = rng.choice(rects)
                    a = [x for x, _ in r]
                    b = [y for _, y in r]
                    k = rng.randrange(d)
                    inner = [e for e in ends if a[k] < e < b[k]]
                    if not inner:
                        continue
                    c = rng.choice(inner)
                    bl, ar = list(b), list(a)
                    bl[k], ar[k] = c, c
                    if all(x < 0 < y for x, y in zip(a, bl)) or all(x < 0 < y for x, y in zip(ar, b)):
                        continue
                    w, l, rr = model.mass(tuple(a), tuple(b)), model.mass(tuple(a), tuple(bl)), model.mass(tuple(ar), tuple(b))
                    e = {"e": "Split", "whole": exact_int(w, tol=1e-7), "left": exact_int(l, tol=1e-7), "right": exact_int(rr, tol=1e-7), "at": enc(c)}
                    e["bad"] = count_bad(e)
                    ev.append(e)
                # marginal tail integrals with their cache, in random order with repetitions
                for _ in range(60):
                    i = rng.randrange(d)
                    x = rng.choice([-5, -3, -1, 1, 3, 5, -4, -2, 2, 4]) * 1.0
                    x = x + 1 if int(x) % 2 else x
                    u = model.marginal_tail_integral(i, x * U)
                    ev.append({"e": "Tail", "i": i + 1, "x": int(x), "u": exact_int(u, tol=1e-7), "bad": 0})
            except Exception as ex:
                ev.append({"e": "Raise", "what": type(ex).__name__ + ": " + str(ex)[:100]})
            # split into several traces to keep TLC states small
            for k in range(0, len(ev), 150):
                traces.append({"tid": f"m{len(traces)}", "hdr": hdr, "ev": ev[k:k + 150]})
            # rectangles with an end exactly at 0 (the API cannot tell 0- from 0+): recorded finding
            ev0 = []
            ends0 = [e * U if np.isfinite(e) else e for e in [-np.inf, -4, -2, 0, 2, 4, np.inf]]
            pairs0 = [(x, y) for x, y in itertools.combinations(ends0, 2)]
            rects0 = [r for r in itertools.product(pairs0, repeat=d) if any(0.0 in p for p in r) and not all(x < 0 < y for x, y in r)]
            rng.shuffle(rects0)
            for r in rects0[:60]:
                a = [x for x, _ in r]
                b = [y for _, y in r]
                try:
                    m = model.mass(tuple(a), tuple(b))
                    ev0.append({"e": "Rect", "a": [enc(x) for x in a], "b": [enc(x) for x in b], "idx": list(range(1, d + 1)),
                                "m": [exact_int(m, tol=1e-7)], "bad": 0})
                except Exception as ex:
                    ev0.append({"e": "Raise", "what": type(ex).__name__})
            traces.append({"tid": f"m{len(traces)}", "hdr": dict(hdr, kind=f"d{d}:zero"), "ev": ev0})
    with open(out, "w") as f:
        for t in traces:
            f.write(json.dumps(t, separators=(",", ":")) + "\n")
    print(len(traces))


if __name__ == "__main__":
    main()
