"""C19 driver: credit closed forms vs the default-region rate of the chain, over atomic models on credit grids.

usage: python -m harness.drivers.credit_run <out.ndjson> <tier> <seed>
"""
import itertools
import json
import math
import random
import sys
import warnings

import numpy as np

from harness import atomic
from harness.encode import count_bad, exact_int, quantise, ranks

warnings.filterwarnings("ignore")


def rank_all(axes, levels, atom_pos):
    """per-axis ranks of states, threshold and atom coordinates"""
    d = len(axes)
    ax_r, lv_r, at_r = [], [], [[] for _ in atom_pos]
    for k in range(d):
        vals = list(axes[k]) + [levels[k]] + [p[k] for p in atom_pos]
        rk = ranks(vals)
        n = len(axes[k])
        ax_r.append(rk[:n])
        lv_r.append(rk[n])
        for i, r in enumerate(rk[n + 1:]):
            at_r[i].append(r)
    return ax_r, lv_r, at_r


def main():
    out, tier, seed = sys.argv[1], sys.argv[2], int(sys.argv[3])
    quick = tier == "quick"
    rng = random.Random(seed)
    from harness.models import copula_models, levy_models
    from rpylib.distribution.sampling import SamplingMethod
    from rpylib.grid.spatial import CTMCCredit, compute_truncation
    from rpylib.numerical.closedform.cflevycopula import CFLevyCopulaModel
    from rpylib.numerical.closedform.cflevymodel import CFLevyModel
    from rpylib.process.markovchain.markovchain import MarkovChainProcess
    from rpylib.process.markovchain.markovchainlevycopula import MarkovChainLevyCopula
    lm, cm = levy_models(), copula_models()
    traces = []
    cases = [(1, lm["hem"], True), (1, lm["merton"], True), (2, cm["clayton2_hem_merton"], True), (2, cm["clayton2_hem_merton"], False),
             (2, cm["clayton2_hem_hem2"], False), (3, cm["clayton3"], True), (3, cm["clayton3"], False)]
    for (d, real_model, sym) in cases:
        for rep in range(2 if quick else 6):
            h = 0.02
            ev = []
            hdr = {"kind": f"credit{d}d:{'sym' if sym else 'asym'}"}
            try:
                l, r = compute_truncation(model=real_model, h=h)
                fr = [rng.choice([0.2, 0.35, 0.5, 0.7, 0.85]) for _ in range(d)]
                levels = [l * f for f in fr]
                grid = CTMCCredit(h=h, level_a=(levels[0] if d == 1 else levels), model=real_model, symmetric_grid=sym)
                axes = [np.array(a, dtype=float) for a in grid.axes]
                per_axis = []
                for a in axes:
                    pts = sorted(set(list(a) + [grid.middle(x, y) for x, y in zip(a, a[1:])]))
                    per_axis.append([0.5 * (x + y) for x, y in zip(pts, pts[1:])])
                if d == 1:
                    pos = [axes[0][0] - 0.01] + per_axis[0] + [axes[0][-1] + 0.01]
                    atoms = [((p,), rng.randint(1, 3)) for p in pos]
                    model = atomic.AtomLevyModel([(p[0], w) for p, w in atoms], unit=None)
                    model.r = 0.03
                    proc = MarkovChainProcess(model=model, method=SamplingMethod.INVERSION, grid=grid)
                    cf = CFLevyModel(proc.model)
                    proc.model.r = 0.03
                    theta = cf._theta(levels[0])
                else:
                    cells = list(itertools.product(*per_axis))
                    rng.shuffle(cells)
                    atoms = [(tuple(c), rng.randint(1, 2)) for c in cells[:24 if d == 2 else 30]]
                    if d == 3 and rep % 2 == 1:
                        # two names that default together much more often than the third name defaults at all: the pair term of
                        # the inclusion-exclusion is larger than the smallest marginal intensity
                        both = [c for c in cells if c[0] < levels[0] and c[1] < levels[1] and c[2] > levels[2]]
                        third = [c for c in cells if c[2] < levels[2] and c[0] > levels[0] and c[1] > levels[1]]
                        none = [c for c in cells if all(c[k] > levels[k] for k in range(3))]
                        atoms = [(tuple(c), 2) for c in both[:14]] + [(tuple(c), 1) for c in third[:1]] + [(tuple(c), 1) for c in none[:8]]
                    model = atomic.atom_copula_model(atoms, d, unit=None)
                    proc = MarkovChainLevyCopula(model, grid, SamplingMethod.INVERSION)
                    cf = CFLevyCopulaModel(proc.model)
                    for m in proc.model.models:
                        m.r = 0.03
                    theta = cf._theta(levels)
                ax_r, lv_r, at_r = rank_all(axes, levels, [p for p, _ in atoms])
                hdr.update(ax=ax_r, levels=lv_r, atoms=[[at_r[i], atoms[i][1]] for i in range(len(atoms))], d=d)
                # default-region rate of the chain: states with at least one coordinate below its threshold
                lam = proc.intensity_of_jumps
                org = proc.grid.origin_coordinate.value
                org = [org] * d if d == 1 else list(org)
                rate = 0.0
                nstates = 0
                for js in itertools.product(*[range(len(a)) for a in axes]):
                    if all(j == o for j, o in zip(js, org)):
                        continue
                    if any(axes[k][js[k]] < levels[k] for k in range(d)):
                        inc = js[0] - org[0] if d == 1 else tuple(j - o for j, o in zip(js, org))
                        rate += proc.sampling.probability_to_jump_to_state(inc) * lam
                        nstates += 1
                e = {"e": "Theta", "theta": exact_int(theta, tol=1e-7), "default_rate": exact_int(rate, tol=1e-6), "nstates": nstates}
                # stated functions of theta
                R, t = 0.5, rng.choice([0.5, 1.0, 2.0])
                sp = cf.survival_probability(levels[0] if d == 1 else levels, t)
                e["sp_theta"] = exact_int(-math.log(sp) / t, tol=1e-7) if sp > 0 else -1
                spread = cf.cds_spread(levels[0], R) if d == 1 else cf.first_to_default_par_spread(levels, R)
                e["spread2"] = exact_int(2 * spread, tol=1e-7)
                # implied spread: par spread at pv = 0, and the annuity relation A(2T) = A(T) (1 + exp(-(r + theta) T))
                T = rng.choice([0.5, 1.0, 1.5])
                la = levels[0] if d == 1 else levels
                if spread < 9.0 and theta > 0:      # inside the root finder's documented bracket [-5 / -10, 10]
                    s0 = cf.implied_cds_spread(0.0, la, R, T)
                    p = 0.01
                    a1 = p / (s0 - cf.implied_cds_spread(p, la, R, T))
                    a2 = p / (cf.implied_cds_spread(0.0, la, R, 2 * T) - cf.implied_cds_spread(p, la, R, 2 * T))
                    x = cf.survival_probability(la, T) * math.exp(-0.03 * T)
                    e["s0q"] = quantise(2 * s0, 1e-6)
                    e["thetaq"] = quantise(theta, 1e-6)
                    e["A1"], e["A2"], e["x"] = quantise(a1, 1e-4), quantise(a2, 1e-4), quantise(x, 1e-4)
                    # the annuity itself: A(T) (r + theta) = 1 - exp(-(r + theta) T)   (sign and size of the fixed leg)
                    rt = 0.03 + theta
                    e["A1m"], e["RTm"], e["omx"] = quantise(a1, 1e-3), quantise(rt, 1e-4), quantise(1.0 - math.exp(-rt * T), 1e-7)
                else:
                    e["s0q"], e["thetaq"], e["A1"], e["A2"], e["x"] = 0, 0, 0, 0, 0
                    e["A1m"], e["RTm"], e["omx"] = 0, 0, 0
                if d == 1:
                    thr = cf.implied_cds_threshold(cds_spread=spread, recovery_rate=R, h0=h)
                    e["theta_at_implied"] = exact_int(cf._theta(thr), tol=1e-7)
                else:
                    e["theta_at_implied"] = e["theta"]
                e["bad"] = count_bad(e)
                ev.append(e)
            except Exception as ex:
                ev.append({"e": "Raise", "what": type(ex).__name__ + ": " + str(ex)[:100]})
                hdr.setdefault("ax", []); hdr.setdefault("levels", []); hdr.setdefault("atoms", []); hdr.setdefault("d", d)
            traces.append({"tid": f"c{len(traces)}", "hdr": hdr, "ev": ev})
    with open(out, "w") as f:
        for t in traces:
            f.write(json.dumps(t, separators=(",", ":")) + "\n")
    print(len(traces))


if __name__ == "__main__":
    main()
