"""C09 driver: moment integrals of REAL Levy measures and of the REAL truncation wrapper.

usage: python -m harness.drivers.measure_run <out.ndjson> <tier> <seed>
 exact traces : step densities (harness.atomic.StepMeasure: exact fractions) under histories of
                LevyModel.truncate_levy_measure / TruncatedLevyMeasure; every query goes through the real wrapper(s) and
                the real dispatch of the base class; recorded as reduced fractions.  Orders n >= 3 reach the quadrature
                fall-back of the base class: recorded quantised (thin).
 thin traces  : HEM, Merton, variance gamma, CGMY (y < 0, y = 0, 0 < y < 1, y = 1, 1 < y < 2) at seeded parameters (some
                reached through field-by-field updates and initialisation(), as the calibration does):
                closed forms on a lattice of end points (with -inf, 0, +inf) through every route (integrate,
                integrate_against_x, _xx, _xn), quantised; next to them the quadrature of x^n times the model's own
                density over the same interval.  TLC judges: closed form = quadrature, additivity over adjacent
                intervals, signs, truncated = restriction (values and density).
"""
import itertools
import json
import math
import random
import sys
import warnings
from fractions import Fraction

import numpy as np
from scipy.integrate import quad

from harness.encode import quantise, NONINT

warnings.filterwarnings("ignore")
INF = 1000
ROUTES = {0: "integrate", 1: "integrate_against_x", 2: "integrate_against_xx"}


def real(u):
    return np.inf if u >= INF else (-np.inf if u <= -INF else u)


def frac(v):
    if isinstance(v, float) and v == int(v) and abs(v) < 2 ** 31:
        v = int(v)            # the wrapper's own 0.0 for an interval that does not meet the window
    if isinstance(v, (int, Fraction)) and not isinstance(v, bool):
        f = Fraction(v)
        if abs(f.numerator) < 2 ** 31 and f.denominator < 2 ** 31:
            return [f.numerator, f.denominator]
    return [0, 0]


_QUAD = quad
_EST = [0.0]


def _counting_quad(*a, **k):
    """scipy's quad as the library calls it, with its own error estimate accumulated: a value obtained by the generic
    quadrature fall-back is compared within what the quadrature itself reports (the fall-back is quadrature by design)"""
    r = _QUAD(*a, **k)
    try:
        _EST[0] += abs(float(r[1]))
    except Exception:
        _EST[0] = float("inf")
    return r


def install_quad_counter():
    import importlib
    import pkgutil
    import scipy.integrate
    import rpylib.model.levymodel as pkg
    scipy.integrate.quad = _counting_quad
    for m in pkgutil.walk_packages(pkg.__path__, pkg.__name__ + "."):
        try:
            mod = importlib.import_module(m.name)
        except Exception:
            continue
        if getattr(mod, "quad", None) is _QUAD:
            mod.quad = _counting_quad


def call(nu, route, n, a, b):
    if route == 3:
        return nu.integrate_against_xn(a, b, n)
    return getattr(nu, ROUTES[route])(a, b)


def call_est(nu, route, n, a, b):
    """(value, error estimate reported by the quadrature calls made on the way - 0 for a closed form)"""
    _EST[0] = 0.0
    v = float(call(nu, route, n, a, b))
    e = _EST[0]
    return v, (e if math.isfinite(e) else 0.0)


# ------------------------------------------------------------------------------------------------------- exact world
FAMILY = [
    [(-6, -2, 2), (-2, 0, 5), (0, 2, 3), (2, 4, 1)],
    [(-4, -2, 1), (2, 6, 2)],
    [(0, 4, 3)],
    [(-6, -4, 3), (-2, 0, 0), (0, 2, 4), (4, 6, 1)],
]


def random_cells(rng):
    brk = sorted(rng.sample([-8, -6, -4, -2, 0, 2, 4, 6, 8], rng.randint(2, 7)))
    cells = []
    for lo, hi in zip(brk, brk[1:]):
        if lo < 0 < hi:
            cells.append((lo, 0, rng.randint(0, 5)))
            cells.append((0, hi, rng.randint(0, 5)))
        elif rng.random() < 0.85:
            cells.append((lo, hi, rng.randint(0, 6)))
    return cells or [(0, 2, 1)]


def step_trace(cells, rng, quick, name):
    from harness.atomic import StepLevyModel
    from rpylib.model.levymodel.levymodel import TruncatedLevyMeasure
    model = StepLevyModel(cells)
    pts = [-INF, -7, -5, -4, -3, -1, 0, 1, 2, 3, 5, 7, INF]
    hdr = {"kind": "step:" + name, "cells": [list(c) for c in cells]}
    ev = []

    def queries(k):
        nu = model.levy_triplet.nu
        rows, rowsq, dens = [], [], []
        pairs = [(a, b) for a in pts for b in pts if a <= b]
        for a, b in rng.sample(pairs, min(k, len(pairs))):
            for n, route in ((0, 0), (1, 1), (2, 2), (0, 3), (1, 3), (2, 3)):
                try:
                    v = frac(call(nu, route, n, real(a), real(b)))
                except Exception:
                    v = [0, 0]
                rows.append([route, n, a, b, v])
            if abs(a) < INF and abs(b) < INF and rng.random() < 0.5:
                n = rng.choice([3, 4])
                try:
                    vq = quantise(float(nu.integrate_against_xn(real(a), real(b), n)), 1e-3)
                except Exception:
                    vq = NONINT
                rowsq.append([n, a, b, vq])
        for x in (-7, -5, -3, -1, 1, 3, 5, 7):
            d = nu(x)
            dens.append([x, int(d) if float(d) == int(d) else NONINT])
        ev.append({"e": "Query", "rows": rows})
        ev.append({"e": "QueryQ", "rows": rowsq, "S": 1000})
        ev.append({"e": "Dens", "rows": dens})

    try:
        queries(20 if quick else 60)
        for depth in range(rng.randint(1, 3)):
            l, r = sorted(rng.sample(pts, 2))
            if rng.random() < 0.5:
                model.truncate_levy_measure((real(l), real(r)))
            else:
                model.levy_triplet.nu = TruncatedLevyMeasure(model.levy_triplet.nu, (real(l), real(r)))
            ev.append({"e": "Trunc", "l": l, "r": r})
            queries(20 if quick else 60)
    except Exception as ex:
        ev.append({"e": "Raise", "what": type(ex).__name__ + ": " + str(ex)[:80]})
    return {"hdr": hdr, "ev": ev}


# -------------------------------------------------------------------------------------------------------- real models
def real_models(rng, quick):
    from rpylib.model.levymodel.mixed.hem import HEMParameters, HEMModel
    from rpylib.model.levymodel.mixed.merton import MertonParameters, MertonModel
    from rpylib.model.levymodel.purejump.cgmy import CGMYParameters, CGMYModel
    from rpylib.model.levymodel.purejump.variancegamma import VGParameters, VarianceGammaModel
    u = rng.uniform
    out = []
    reps = 1 if quick else 8

    def via_updates(cls, names, start, final):
        """the parameters reach their final values the way the calibration does it: a copy of other parameters is
        assigned field by field and re-initialised before the model is built"""
        import copy
        p = copy.deepcopy(cls(*start))
        order = list(range(len(names)))
        rng.shuffle(order)
        for k in order:
            setattr(p, names[k], final[k])
            if rng.random() < 0.3:
                p.initialisation()
        p.initialisation()
        return p

    for _ in range(reps):
        ph = (u(0.05, 0.4), u(0.2, 0.8), u(3, 30), u(3, 30), u(0.5, 8))
        pm = (u(0.05, 0.4), u(0.01, 0.3), u(0.08, 0.5), u(0.5, 8))
        pv = (u(0.1, 0.4), u(0.1, 0.6), u(-0.3, 0.2))
        ph2 = (u(0.05, 0.4), u(0.2, 0.8), u(3, 30), u(3, 30), u(0.5, 8))
        pv2 = (u(0.1, 0.4), u(0.1, 0.6), u(-0.3, 0.2))
        pc2 = (u(0.05, 2.0), u(1.0, 12.0), u(1.0, 12.0), u(0.1, 0.9))
        # factories: the objects are built inside the scenario, so that a constructor that raises is a recorded exception
        out.append(("hem", lambda ph=ph: HEMModel(HEMParameters(*ph)), 0, 0))
        out.append(("merton", lambda pm=pm: MertonModel(MertonParameters(*pm)), 0, 0))
        out.append(("vg", lambda pv=pv: VarianceGammaModel(VGParameters(*pv)), 1, 0))
        out.append(("hem", lambda ph2=ph2: HEMModel(via_updates(HEMParameters, ["sigma", "p", "eta1", "eta2", "intensity"],
                                                               (0.2, 0.4, 8.0, 5.0, 3.0), ph2)), 0, 0))
        out.append(("vg", lambda pv2=pv2: VarianceGammaModel(via_updates(VGParameters, ["sigma", "nu", "theta"], (0.12, 0.2, -0.14), pv2)), 1, 0))
        out.append(("cgmy_01", lambda pc2=pc2: CGMYModel(via_updates(CGMYParameters, ["c", "g", "m", "y"], (0.5, 4.0, 6.0, 1.4), pc2)), 1, 0))
        for tag, y in (("cgmy_neg", u(-1.6, -0.2)), ("cgmy_0", 0.0), ("cgmy_01", u(0.1, 0.9)), ("cgmy_1", 1.0),
                       ("cgmy_12", u(1.1, 1.8))):
            pc = (u(0.05, 2.0), u(1.0, 12.0), u(1.0, 12.0), y)
            # smallest order whose integral over an interval touching zero is finite
            first0 = 0 if y < 0 else (1 if y < 1 else 2)
            out.append((tag, lambda pc=pc: CGMYModel(CGMYParameters(*pc)), first0, 0))
    return out


def slack(est):
    """what a value obtained through scipy's quadrature with default tolerances is allowed to be off by: ten times the
    error the quadrature itself reports (its estimate is not a bound next to the kink at zero), at least 3e-8"""
    return max(10 * est, 3e-8) if est > 0 else 0.0


def ref_quad(f, a, b):
    return _QUAD(f, a, b, epsabs=1e-14, epsrel=1e-13, limit=400)[0]


def real_trace(tag, factory, first0, rng, quick):
    from rpylib.model.levymodel.levymodel import TruncatedLevyMeasure
    try:
        model = factory()
    except Exception as ex:
        return {"hdr": {"kind": "real:" + tag, "zero": 7, "np": 13},
                "ev": [{"e": "Raise", "what": "constructor: " + type(ex).__name__ + ": " + str(ex)[:80]}]}
    P = [-np.inf, -3.0, -1.0, -0.4, -0.1, -0.01, 0.0, 0.01, 0.1, 0.4, 1.0, 3.0, np.inf]
    if not quick:
        j = rng.uniform(0.8, 1.25)
        P = [p * j for p in P]
    N = len(P)
    zero = P.index(0.0) + 1
    nu0 = model.levy_triplet.nu
    hdr = {"kind": "real:" + tag, "zero": zero, "np": N}
    ev = []
    orders = [0, 1, 2, 3, 4]

    def defined(i, j, n):                      # 1-based indices, i < j
        return not (i <= zero <= j and n < first0)

    def table(nu, route, n):
        vals = [[None] * N for _ in range(N)]
        est = [[0.0] * N for _ in range(N)]
        for i in range(1, N + 1):
            for j in range(i + 1, N + 1):
                if defined(i, j, n):
                    vals[i - 1][j - 1], est[i - 1][j - 1] = call_est(nu, route, n, P[i - 1], P[j - 1])
        return vals, est

    def encode(vals, unit):
        return [[(0 if v is None else quantise(v, unit)) for v in row] for row in vals]

    try:
        base = {}
        for n in orders:
            # reference: quadrature of x^n nu(x) over the adjacent intervals, summed
            adj = []
            for i in range(N - 1):
                if defined(i + 1, i + 2, n):
                    adj.append(ref_quad(lambda x: x ** n * nu0(x), P[i], P[i + 1]))
                else:
                    adj.append(None)
            for route in ([n, 3] if n <= 2 else [3]):
                vals, est = table(nu0, route, n)
                finite = [abs(v) for row in vals for v in row if v is not None and math.isfinite(v)]
                unit = max(max(max(finite) if finite else 1.0, 1e-12) * 1e-7, slack(max(max(r) for r in est)))
                dfn = [[1 if (j > i and defined(i + 1, j + 1, n)) else 0 for j in range(N)] for i in range(N)]
                fb = any(e > 0 for r in est for e in r)      # the generic quadrature was on the way
                inner = [[dfn[i][j] if (0 < i and j < N - 1) else 0 for j in range(N)] for i in range(N)]
                if fb:
                    ev.append({"e": "Table", "n": n, "route": route, "def": inner, "v": encode(vals, unit), "cls": ":fallback"})
                    ev.append({"e": "Table", "n": n, "route": route, "def": dfn, "v": encode(vals, unit), "cls": ":fallback-halfline"})
                else:
                    ev.append({"e": "Table", "n": n, "route": route, "def": dfn, "v": encode(vals, unit), "cls": ""})
                rows, rows_h = [], []
                for i in range(N):
                    for j in range(i + 1, N):
                        if vals[i][j] is None or any(a is None for a in adj[i:j]):
                            continue
                        ref = sum(adj[i:j])
                        cf = vals[i][j]
                        u = max(1e-6 * max(abs(cf), abs(ref)) if math.isfinite(cf) else 1.0, 1e-9, slack(est[i][j]))
                        (rows_h if (fb and (i == 0 or j == N - 1)) else rows).append(
                            [n, i + 1, j + 1, quantise(cf, u), quantise(ref, u)])
                ev.append({"e": "Versus", "route": route, "rows": rows, "cls": ":fallback" if fb else ""})
                if rows_h:
                    ev.append({"e": "Versus", "route": route, "rows": rows_h, "cls": ":fallback-halfline"})
                base[(n, route)] = (vals, unit, dfn)
        # x_nu(x) is x times the density
        rows = []
        for x in [-2.5, -0.7, -0.05, 0.03, 0.4, 1.7] + [rng.uniform(-2, 2) for _ in range(4)]:
            a, b = float(nu0.x_nu(x)), x * float(nu0(x))
            u = max(1e-9 * max(abs(a), abs(b)), 1e-300)
            rows.append([quantise(a, u), quantise(b, u)])
        ev.append({"e": "XNu", "rows": rows})
        # truncation histories on the real model: wrappers nest
        for _h in range(2 if quick else 4):
            model.levy_triplet.nu = nu0
            ev.append({"e": "Reset"})
            for depth in range(rng.randint(1, 2)):
                l, r = sorted(rng.sample(range(1, N + 1), 2))
                if rng.random() < 0.5:
                    model.truncate_levy_measure((P[l - 1], P[r - 1]))
                else:
                    model.levy_triplet.nu = TruncatedLevyMeasure(model.levy_triplet.nu, (P[l - 1], P[r - 1]))
                ev.append({"e": "Trunc", "l": l, "r": r})
                nu = model.levy_triplet.nu
                for n in orders:
                    route = rng.choice([n, 3]) if n <= 2 else 3
                    vals, unit, dfn = base[(n, route)]
                    tv = [[None] * N for _ in range(N)]
                    for i in range(1, N + 1):
                        for j in range(i + 1, N + 1):
                            # the clipped interval must itself be one whose integral is finite
                            tv[i - 1][j - 1] = float(call(nu, route, n, P[i - 1], P[j - 1])) if dfn[i - 1][j - 1] else None
                    ev.append({"e": "TableT", "n": n, "route": route, "def": dfn, "v": encode(vals, unit),
                               "tv": encode(tv, unit)})
                xs = [(P[i] + P[i + 1]) / 2 for i in range(1, N - 2)] + [-5.0, 5.0]
                rows = []
                for x in xs:
                    if x == 0:
                        continue
                    xr = 2 * sum(1 for p in P if p < x)          # rank between the lattice points (odd side)
                    d0, d1 = float(nu0(x)), float(nu(x))
                    u = max(abs(d0) * 1e-7, 1e-12)
                    rows.append([xr + 1, quantise(d1, u), quantise(d0, u)])
                ev.append({"e": "DensT", "rows": rows})
        model.levy_triplet.nu = nu0
    except Exception as ex:
        model.levy_triplet.nu = nu0
        ev.append({"e": "Raise", "what": type(ex).__name__ + ": " + str(ex)[:80]})
    return {"hdr": hdr, "ev": ev}


def main():
    out, tier, seed = sys.argv[1], sys.argv[2], int(sys.argv[3])
    quick = tier == "quick"
    rng = random.Random(seed)
    install_quad_counter()
    traces = []
    for k, cells in enumerate(FAMILY):
        traces.append(step_trace(cells, rng, quick, f"family{k + 1}"))
    for k in range(12 if quick else 120):
        traces.append(step_trace(random_cells(rng), rng, quick, "random"))
    for tag, model, first0, _ in real_models(rng, quick):
        traces.append(real_trace(tag, model, first0, rng, quick))
    with open(out, "w") as f:
        for k, t in enumerate(traces):
            t["tid"] = f"m{k}"
            f.write(json.dumps({"tid": t["tid"], "hdr": t["hdr"], "ev": t["ev"]}) + "\n")
    print(json.dumps({"traces": len(traces)}))


if __name__ == "__main__":
    main()
