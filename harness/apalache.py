"""Apalache runner (inductive invariants for unbounded parameters; DESIGN.md section 10)."""
import os
import shutil
import subprocess
import time

from .env import BUILD, SPECS, MachineryError


def check(module, init, inv, length, label, timeout=1800):
    """apalache-mc check --init --inv --length on specs/<module>.tla.  Returns (holds: bool, wall seconds, tail)."""
    out = os.path.join(BUILD, "apalache", label)
    shutil.rmtree(out, ignore_errors=True)
    os.makedirs(out, exist_ok=True)
    t0 = time.time()
    p = subprocess.run(["apalache-mc", "check", f"--init={init}", f"--inv={inv}", f"--length={length}", f"--out-dir={out}",
                        "--run-dir=" + os.path.join(out, "run"), module + ".tla"], cwd=SPECS, stdout=subprocess.PIPE,
                       stderr=subprocess.STDOUT, text=True, timeout=timeout)
    wall = time.time() - t0
    tail = p.stdout[-3000:]
    if "The outcome is: NoError" in p.stdout and p.returncode == 0:
        return True, wall, tail
    if "The outcome is: Error" in p.stdout and p.returncode == 12:
        return False, wall, tail
    raise MachineryError(f"apalache failed on {module} ({label}): exit {p.returncode}\n{tail}")
