"""Paths, interpreter and environment shared by every check (DESIGN.md section 4)."""
import os
import signal
import subprocess
import sys
import time

VERIF = os.path.dirname(os.path.dirname(os.path.abspath(__file__)))
REPO = os.environ.get("VERIF_REPO", "/repo")
SPECS = os.path.join(VERIF, "specs")
# development tools (seedtool, benigntool) point a check at a scratch tree and scratch output directories; the registered
# commands never set these variables
BUILD = os.environ.get("VERIF_BUILD", os.path.join(VERIF, "build"))
EVIDENCE = os.environ.get("VERIF_EVIDENCE", os.path.join(VERIF, "evidence"))
SHIMS = os.path.join(VERIF, "shims")
PYTHON = "/venv/bin/python"
GUARD = "RPYLIB_VERIF"


def seed() -> int:
    try:
        return int(os.environ.get("VERIF_SEED", "0"))
    except ValueError:
        return 0


def driver_env(extra=None) -> dict:
    env = dict(os.environ)
    env["PYTHONPATH"] = os.pathsep.join([SHIMS, REPO, VERIF])
    env["SYMPY_GROUND_TYPES"] = "python"
    env["MPLBACKEND"] = "Agg"
    env["PYTHONHASHSEED"] = "0"
    env[GUARD] = "1"
    env["VERIF_SEED"] = str(seed())
    env["VERIF_REPO"] = REPO
    env["OMP_NUM_THREADS"] = "1"
    env["OPENBLAS_NUM_THREADS"] = "1"
    env["PYTHONDONTWRITEBYTECODE"] = "1"
    if extra:
        env.update({k: str(v) for k, v in extra.items()})
    return env


class MachineryError(Exception):
    """Something in the verification machinery failed (exit 2, never a violation)."""


class DriverHang(Exception):
    """a driver (rpylib code under scripted inputs) did not finish within its time limit: the code under test hangs"""

    def __init__(self, module, timeout):
        super().__init__(f"driver {module} did not finish within {timeout} s")
        self.module, self.timeout = module, timeout


def run_driver(module: str, args=(), extra_env=None, timeout=1800):
    """Run `python -m harness.drivers.<module> args...` in a fresh interpreter that imports rpylib
    from /repo's current working tree.  Returns (stdout, wall seconds)."""
    cmd = [PYTHON, "-m", "harness.drivers." + module, *map(str, args)]
    t0 = time.time()
    # own process group: on a time-out the driver and whatever worker processes it started are killed together
    proc = subprocess.Popen(cmd, cwd=VERIF, env=driver_env(extra_env), stdout=subprocess.PIPE, stderr=subprocess.PIPE, text=True,
                            start_new_session=True)
    try:
        so, se = proc.communicate(timeout=timeout)
    except subprocess.TimeoutExpired:
        try:
            os.killpg(proc.pid, signal.SIGKILL)
        except OSError:
            pass
        proc.communicate()
        raise DriverHang(module, timeout)
    p = subprocess.CompletedProcess(cmd, proc.returncode, so, se)
    if p.returncode != 0:
        sys.stderr.write(p.stdout[-4000:])
        sys.stderr.write(p.stderr[-8000:])
        raise MachineryError(f"driver {module} exited {p.returncode}")
    return p.stdout, time.time() - t0
