"""Stubs used by the drivers (trusted base, DESIGN.md 3.4 / 4).

ScriptedCoupling  - a coupling process whose every simulated sample carries a unique integer serial
                    as its terminal value, so the statistics arrays show *which* samples they hold.
ScriptedCriteria  - a ConvergenceCriteria whose answers are read from a script (TLC behaviour).
"""
import copy

import numpy as np

from rpylib.montecarlo.path import StochasticJumpPath
from rpylib.process.process import ProcessRepresentation

LOG = []          # event log of the current run (shared by all deep copies: module global)
VALUED = [None]   # None: payoffs are sample serials; dict(c0, jit): bounded pseudo-random payoffs (real criteria runs)
SERIAL = [0]      # next sample serial


def reset_log():
    LOG.clear()
    SERIAL[0] = 0


def emit(**kw):
    LOG.append(kw)


def coarse_of(serial: int) -> int:
    """Coarse terminal value attached to sample `serial` (level >= 1); the specification has the same rule."""
    return (serial * 7) % 5 + 1


def fine_value(serial: int) -> float:
    return 10.0 + ((serial * 37) % 11) / 4.0


class _Model:
    process_representation = ProcessRepresentation.IDENDITY

    def dimension(self):
        return 1

    def dimension_model(self):
        return 1

    def df(self, t):
        return 0.5


class _FineProcess:
    process_representation = ProcessRepresentation.IDENDITY

    def deterministic_path(self, times):
        return np.zeros(shape=np.shape(times))

    def df(self, t):
        return 0.5


class _Grid:
    def __init__(self):
        self.level = 0

    def refine(self):
        self.level += 1


class ScriptedCoupling:
    """Quacks like rpylib's CouplingProcess for the multilevel engine."""

    def __init__(self):
        self.model = _Model()
        self.fine_process = _FineProcess()
        # like the real couplings, the level lives in a mutable grid object that next_level refines IN PLACE: a coupling
        # that was copied shallowly shares it with its copy
        self.grid = _Grid()

    @property
    def level(self):
        return self.grid.level

    # --- life cycle ---------------------------------------------------------------------------
    def initialisation(self, product, max_step_epsilon=None):
        emit(e="ProcInit")

    def pre_computation(self, mc_paths, product):
        emit(e="Pre", lvl=self.level, n=int(mc_paths))

    def reset_one_simulation_cost(self):
        pass

    def one_simulation_cost(self, product):
        return float(self.level + 1)

    def next_level(self, mc_paths, path_managers, product, max_step_epsilon=None):
        self.grid.refine()
        emit(e="Next", lvl=self.level, arg=int(mc_paths))
        if path_managers is not None:
            pm = copy.deepcopy(path_managers[-1])
            pm.update(self.fine_process.process_representation)
            pm.deterministic_path = lambda times: np.zeros(shape=(2,) + np.shape(times))
            path_managers.append(pm)

    # --- simulation ---------------------------------------------------------------------------
    def simulate_one_path(self):
        SERIAL[0] += 1
        s = SERIAL[0]
        emit(e="Sim", lvl=self.level, s=s, coupled=False)
        times = np.array([0.0, 1.0])
        f = float(s) if VALUED[0] is None else fine_value(s)
        return StochasticJumpPath(times, np.zeros(2), np.array([0.0, f]))

    def simulate_one_path_with_coupling(self):
        SERIAL[0] += 1
        s = SERIAL[0]
        emit(e="Sim", lvl=self.level, s=s, coupled=True)
        times = np.array([0.0, 1.0])
        if VALUED[0] is None:
            f, c = float(s), float(coarse_of(s))
        else:
            f = fine_value(s)
            # "dip": one level whose correction is almost nil (the engine's work-around for near-zero level means)
            scale = 1e-6 if VALUED[0].get("dip") == self.level else 1.0
            c = f - scale * VALUED[0]["c0"] * 2.0 ** (-self.level) * (1.0 + VALUED[0]["jit"] * (((s * 13) % 3) - 1))
        jumps = np.array([[0.0, f], [0.0, c]])
        return StochasticJumpPath(times, np.zeros((2, 2)), jumps)


class DummyCOSPricer:
    def __init__(self, model):
        pass

    def density(self, time, s):
        return 0.0 * np.asarray(s)
