"""Regenerate the seed catch matrix of DESIGN.md (between the SEEDS markers) from seeded/*/meta.json.
usage: python -m harness.designtool"""
import glob
import json
import os
import re

VERIF = os.path.dirname(os.path.dirname(os.path.abspath(__file__)))


HDR = "| seeded change | breaks | needs in order to manifest | caught by |\n|---|---|---|---|\n"


def rows():
    out = []
    for d in sorted(glob.glob(os.path.join(VERIF, "seeded", "*", "meta.json"))):
        m = json.load(open(d))
        inv = set()
        for _c, r in m.get("checks_run", {}).items():
            for ln in r.get("violation_lines", []):
                mm = re.search(r"invariant=(\S+)", ln)
                if mm:
                    inv.add(mm.group(1))
        det = ", ".join(m["detected_by"]) or "**not detected**"
        out.append(f"| {m['id']} | {m['breaks_property']} | {m['needs_to_manifest']} | {det} ({', '.join(sorted(inv))}) |")
    return out


def main():
    p = os.path.join(VERIF, "DESIGN.md")
    s = open(p).read()
    b, e = "<!-- SEEDS:BEGIN -->\n", "<!-- SEEDS:END -->\n"
    r = rows()
    i, j = s.index(b) + len(b), s.index(e)
    s = s[:i] + HDR + "\n".join(r) + "\n\n" + s[j:]
    open(p, "w").write(s)
    print(len(r), "seeds")


if __name__ == "__main__":
    main()
