"""Run TLC (exhaustive, simulate, batched trace validation) and parse what it printed."""
import os
import re
import shutil
import subprocess
import time

from .env import BUILD, SPECS, MachineryError

JAR = "/opt/veriftools/tla/tla2tools.jar"
DEPS = "/opt/veriftools/tla/CommunityModules-deps.jar"

_STATES = re.compile(r"(\d+) states generated, (\d+) distinct states found, (\d+) states left on queue")
_DEPTH = re.compile(r"The depth of the complete state graph search is (\d+)")
_INV = re.compile(r"Error: Invariant (\S+) is violated")
_ACTPROP = re.compile(r"Error: Action property (\S+) is violated")
_TEMPORAL = re.compile(r"Error: Temporal properties were violated")
_COV = re.compile(r"^<(\w+) line (\d+), col (\d+) to line (\d+), col (\d+) of module (\w+)>: (\d+):(\d+)", re.M)


class TlcResult:
    def __init__(self, out, wall, rc, cmd):
        self.out = out
        self.wall = wall
        self.rc = rc
        self.cmd = cmd
        m = None
        for m in _STATES.finditer(out):
            pass
        self.generated = int(m.group(1)) if m else 0
        self.distinct = int(m.group(2)) if m else 0
        self.queue = int(m.group(3)) if m else 0
        d = _DEPTH.search(out)
        self.depth = int(d.group(1)) if d else 0
        self.inv_violations = _INV.findall(out) + _ACTPROP.findall(out)
        if _TEMPORAL.search(out):
            self.inv_violations.append("TemporalProperty")
        self.completed = "Model checking completed" in out or "Finished in" in out
        self.prints = parse_prints(out)
        self.coverage = {}
        for mm in _COV.finditer(out):
            name = mm.group(1)
            self.coverage[name] = self.coverage.get(name, 0) + int(mm.group(8))

    def printed(self, tag):
        return [p for p in self.prints if p and p[0] == tag]

    def errors(self):
        """Lines that indicate TLC itself failed (parse error, evaluation error, crash)."""
        bad = []
        for line in self.out.splitlines():
            if line.startswith("Error:") and not (_INV.search(line) or _ACTPROP.search(line) or _TEMPORAL.search(line)):
                if "behavior up to this point" in line or "The behavior up to" in line:
                    continue
                bad.append(line)
        return bad


def _parse_value(s, i):
    """Parse a TLC-printed value (tuples, strings, ints, booleans, records as raw text)."""
    n = len(s)
    while i < n and s[i] in " \n\t":
        i += 1
    if s.startswith("<<", i):
        i += 2
        items = []
        while True:
            while i < n and s[i] in " \n\t,":
                i += 1
            if s.startswith(">>", i):
                return items, i + 2
            v, i = _parse_value(s, i)
            items.append(v)
    if s[i] == '"':
        j = i + 1
        buf = []
        while s[j] != '"':
            if s[j] == "\\":
                j += 1
            buf.append(s[j])
            j += 1
        return "".join(buf), j + 1
    if s[i] == "[" or s[i] == "{" or s[i] == "(":
        # record / set / function: keep raw text with balanced brackets
        depth = 0
        j = i
        while j < n:
            if s[j] in "[{(":
                depth += 1
            elif s[j] in "]})":
                depth -= 1
                if depth == 0:
                    return s[i:j + 1], j + 1
            elif s[j] == '"':
                j += 1
                while s[j] != '"':
                    j += 2 if s[j] == "\\" else 1
            j += 1
        raise ValueError("unbalanced")
    m = re.compile(r"-?\d+|TRUE|FALSE|[A-Za-z_][A-Za-z_0-9]*").match(s, i)
    if not m:
        raise ValueError("cannot parse at %r" % s[i:i + 30])
    t = m.group(0)
    if t == "TRUE":
        return True, m.end()
    if t == "FALSE":
        return False, m.end()
    try:
        return int(t), m.end()
    except ValueError:
        return t, m.end()


def parse_prints(out):
    """Every PrintT(<<"TAG", ...>>) value in TLC's output, robust to interleaving and line wrapping."""
    res = []
    # TLC wraps long tuples over several lines and then writes `<< "TAG",`
    for m in re.finditer(r'^<<\s*"', out, flags=re.M):
        try:
            v, _j = _parse_value(out, m.start())
            res.append(v)
        except (ValueError, IndexError):
            continue
    return res


def run_tlc(module, cfg, *, workers=16, env=None, timeout=1200, extra=(), metaname=None, cont=False,
            deadlock=None, coverage=False, depth_first=False, simulate=None, specs_dir=SPECS, heap="8g"):
    """Run TLC on specs/<module>.tla with specs/<cfg>.  Returns TlcResult."""
    meta = os.path.join(BUILD, "tlc", metaname or (module + "_" + os.path.splitext(os.path.basename(cfg))[0]))
    shutil.rmtree(meta, ignore_errors=True)
    os.makedirs(meta, exist_ok=True)
    java = ["java", "-XX:+UseParallelGC", "-Xss128m", "-Xmx" + heap]
    if depth_first:
        java.append("-Dtlc2.tool.queue.IStateQueue=StateDeque")
    cmd = java + ["-cp", JAR + ":" + DEPS, "tlc2.TLC", "-workers", str(workers), "-metadir", meta,
                  "-noGenerateSpecTE", "-config", cfg]
    if cont:
        cmd.append("-continue")
    if coverage:
        cmd += ["-coverage", "1"]
    if simulate:
        cmd += simulate
    cmd += list(extra)
    cmd.append(module + ".tla")
    e = dict(os.environ)
    if env:
        e.update({k: str(v) for k, v in env.items()})
    t0 = time.time()
    try:
        p = subprocess.run(cmd, cwd=specs_dir, env=e, stdout=subprocess.PIPE, stderr=subprocess.STDOUT, text=True,
                           timeout=timeout)
        out, rc = p.stdout, p.returncode
    except subprocess.TimeoutExpired as ex:
        out = (ex.stdout or b"").decode() if isinstance(ex.stdout, bytes) else (ex.stdout or "")
        rc = 124
    wall = time.time() - t0
    shutil.rmtree(meta, ignore_errors=True)
    r = TlcResult(out, wall, rc, " ".join(cmd))
    return r


def require_clean(r: TlcResult, what: str):
    """TLC must have finished and must not have failed for reasons other than a property violation."""
    errs = r.errors()
    if r.rc == 124:
        raise MachineryError(f"TLC timed out on {what}")
    if errs and not r.inv_violations:
        raise MachineryError(f"TLC failed on {what}: {errs[:3]}\n{r.out[-3000:]}")
    if not r.completed and not r.inv_violations:
        raise MachineryError(f"TLC did not complete on {what}\n{r.out[-3000:]}")


def sany(path):
    p = subprocess.run(["java", "-cp", JAR + ":" + DEPS, "tla2sany.SANY", os.path.basename(path)],
                       cwd=os.path.dirname(path), stdout=subprocess.PIPE, stderr=subprocess.STDOUT, text=True)
    ok = p.returncode == 0 and "Semantic errors" not in p.stdout and "Parse Error" not in p.stdout \
        and "Fatal errors" not in p.stdout and "*** Errors" not in p.stdout
    return ok, p.stdout
