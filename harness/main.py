"""Entry point: ./check <property> --tier quick|thorough | --replay file | --setup"""
import argparse
import importlib
import json
import os
import sys
import traceback

from .core import Ctx
from .env import BUILD, EVIDENCE, SPECS, DriverHang, MachineryError


def setup():
    from . import tlc
    os.makedirs(BUILD, exist_ok=True)
    os.makedirs(EVIDENCE, exist_ok=True)
    bad = 0
    for fn in sorted(os.listdir(SPECS)):
        if fn.endswith(".tla"):
            ok, out = tlc.sany(os.path.join(SPECS, fn))
            print(("ok   " if ok else "FAIL ") + fn)
            if not ok:
                bad += 1
                print(out[-2000:])
    return 1 if bad else 0


def replay(pid, path):
    with open(path) as f:
        payload = json.load(f)
    ctx = Ctx(pid, "quick")
    ctx.known = []  # a replay shows the raw verdict
    if payload.get("kind") == "trace" and payload.get("trace") is not None:
        tf = os.path.join(BUILD, "traces", f"{pid}_replay.ndjson")
        os.makedirs(os.path.dirname(tf), exist_ok=True)
        with open(tf, "w") as f:
            f.write(json.dumps(payload["trace"]) + "\n")
        r = ctx.validate(payload["module"], payload["cfg"], tf, env=payload.get("env"), workers=1)
        for p in r.prints:
            print(p)
    else:
        r = ctx.design(payload["module"], payload["cfg"], env=payload.get("env"), coverage=False)
        print(r.out[-4000:])
    for v in ctx.violations:
        print(f"VIOLATION property={pid} replay={path} invariant={v['inv']} sig={v['sig']}")
    return 1 if ctx.violations else 0


def main():
    ap = argparse.ArgumentParser()
    ap.add_argument("prop", nargs="?")
    ap.add_argument("--tier", default=os.environ.get("VERIF_TIER", "quick"), choices=["quick", "thorough"])
    ap.add_argument("--replay")
    ap.add_argument("--setup", action="store_true")
    a = ap.parse_args()
    if a.setup:
        sys.exit(setup())
    pid = a.prop
    try:
        if a.replay:
            sys.exit(replay(pid, a.replay))
        mod = importlib.import_module(f"harness.props.{pid.lower()}")
        ctx = Ctx(pid, a.tier)
        ctx.clear_replays()
        try:
            mod.run(ctx)
        except DriverHang:
            pass        # already reported as a violation (Reject:Timeout); the evidence says what had been covered until then
        sys.exit(ctx.finish(**getattr(mod, "FINISH", {})))
    except MachineryError as e:
        print(f"MACHINERY-FAILURE {pid}: {e}", file=sys.stderr)
        sys.exit(2)
    except Exception:
        traceback.print_exc()
        print(f"MACHINERY-FAILURE {pid}: unexpected exception", file=sys.stderr)
        sys.exit(2)


if __name__ == "__main__":
    main()
