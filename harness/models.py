"""Model zoo shared by the drivers (real rpylib models with fixed, documented parameters)."""
import numpy as np


def levy_models():
    """name -> 1-d LevyModel (non exponential)"""
    from rpylib.model.utils import create_levy_model, ModelType
    return {
        "hem": create_levy_model(ModelType.HEM)(),
        "hem2": create_levy_model(ModelType.HEM)(sigma=0.1, p=0.3, eta1=12.0, eta2=30.0, intensity=5.0),
        "merton": create_levy_model(ModelType.MERTON)(),
        "vg": create_levy_model(ModelType.VG)(),
        "cgmy05": create_levy_model(ModelType.CGMY)(),
        "cgmy11": create_levy_model(ModelType.CGMY)(c=0.05, g=10.0, m=8.0, y=1.1),
    }


def exp_models():
    from rpylib.model.utils import create_exponential_of_levy_model, ModelType
    return {
        "hem": create_exponential_of_levy_model(ModelType.HEM)(),
        "merton": create_exponential_of_levy_model(ModelType.MERTON)(),
        "merton2": create_exponential_of_levy_model(ModelType.MERTON)(spot=80.0, r=0.03, d=0.01, sigma=0.12, sigma_j=0.04, mu_j=0.08, intensity=2.0),
        "hem2": create_exponential_of_levy_model(ModelType.HEM)(spot=120.0, r=0.01, d=0.02, sigma=0.2, p=0.3, eta1=12.0, eta2=30.0, intensity=5.0),
        "vg": create_exponential_of_levy_model(ModelType.VG)(),
        "cgmy05": create_exponential_of_levy_model(ModelType.CGMY)(),
        "cgmy11": create_exponential_of_levy_model(ModelType.CGMY)(c=0.05, g=10.0, m=8.0, y=1.1),
        "bs": create_exponential_of_levy_model(ModelType.BLACKSCHOLES)(),
    }


def copula_models():
    from rpylib.model.utils import (create_levy_model, ModelType, create_clayton_copula, create_levy_copula_model,
                                    create_independent_copula)
    m = levy_models()
    return {
        "clayton2_hem_merton": create_levy_copula_model([m["hem"], m["merton"]], create_clayton_copula()),
        "clayton2_hem_hem2": create_levy_copula_model([m["hem"], m["hem2"]], create_clayton_copula(theta=1.5, eta=0.6)),
        "clayton3": create_levy_copula_model([m["hem"], m["hem2"], m["merton"]], create_clayton_copula()),
    }
