"""The exact finite world (DESIGN.md section 2): Levy measures made of finitely many atoms with integer weights.

The code under test (rate vectors, intensities, drift compensation, coupling probabilities, samplers, rectangle
masses, credit closed forms) is generic in the measure: it only calls integrate / integrate_against_x(x) / mass /
copula(u).  Over an atomic measure every mass is an integer and the structural logic is checked exactly.
Atoms must never sit on a point the code can use as an interval end (states and cell boundaries are even
multiples of `unit`, atoms odd multiples).
"""
import math

import numpy as np

from rpylib.distribution.levycopula import LevyCopula
from rpylib.model.levycopulamodel import LevyCopulaModel
from rpylib.model.levymodel.levymodel import Cumulant, LevyMeasure, LevyModel, LevyRepresentation, LevyTriplet
from rpylib.model.model import ModelType

UNIT = 2.0 ** -6


class AtomMeasure(LevyMeasure):
    """atoms: list of (k, w): an atom of integer weight w at position k * UNIT (k odd)"""

    def __init__(self, atoms, finite_variation=True, bg_index=0.5, support=(-np.inf, np.inf), unit=UNIT):
        """unit=None: the atoms' first entries are float positions, not multiples of UNIT"""
        if unit is None:
            self.atoms = sorted((float(k), int(w)) for k, w in atoms)
            self.pos = np.array([k for k, _ in self.atoms])
        else:
            self.atoms = sorted((int(k), int(w)) for k, w in atoms)
            self.pos = np.array([k * unit for k, _ in self.atoms])
        self.w = np.array([float(w) for _, w in self.atoms])
        self._fv = finite_variation
        self._bg = bg_index
        self._support = support
        self.calls = 0

    def __call__(self, x):
        return 0.0 * np.asarray(x, dtype=float)

    def support(self):
        return self._support

    def jump_of_finite_activity(self):
        return True

    def jump_of_finite_variation(self):
        return self._fv

    def finite_first_moment(self):
        return True

    def blumenthal_getoor_index(self):
        return self._bg

    def _sel(self, a, b):
        if a > b:
            raise ValueError("Expected a<b when integrating the levy measure")
        return (self.pos > a) & (self.pos < b)

    def integrate(self, a, b):
        self.calls += 1
        return float(np.sum(self.w[self._sel(a, b)]))

    def integrate_against_x(self, a, b):
        s = self._sel(a, b)
        return float(np.sum(self.w[s] * self.pos[s]))

    def integrate_against_xx(self, a, b):
        s = self._sel(a, b)
        return float(np.sum(self.w[s] * self.pos[s] ** 2))

    def integrate_against_xn(self, a, b, n):
        s = self._sel(a, b)
        return float(np.sum(self.w[s] * self.pos[s] ** n))


class _NoCumulant(Cumulant):
    def __init__(self, drift=0.0, parameters=None):
        pass


class AtomLevyModel(LevyModel):
    """The REAL LevyModel / LevyTriplet / truncate / set_representation over an atomic measure."""

    def __init__(self, atoms, sigma=0.0, a=0.0, representation=LevyRepresentation.ONEONE, finite_variation=True,
                 bg_index=0.5, support=(-np.inf, np.inf), unit=UNIT):
        nu = AtomMeasure(atoms, finite_variation=finite_variation, bg_index=bg_index, support=support, unit=unit)
        super().__init__(ModelType.HEM, LevyTriplet(a=a, sigma=sigma, nu=nu, representation=representation), _NoCumulant())
        self._declared = representation

    def __repr__(self):
        return "AtomLevyModel"

    def levy_exponent_pure_jump(self, x):
        """sum_atoms w (e^{x p} - 1 - x p h(p)) with the cut-off h of the representation the model was DECLARED in"""
        nu = self.levy_triplet.nu
        while not isinstance(nu, AtomMeasure):
            nu = nu.levy_measure
        r = self._declared
        if r == LevyRepresentation.ZERO or (r == LevyRepresentation.TILDE and nu.jump_of_finite_variation()):
            h = np.zeros_like(nu.pos)
        elif r == LevyRepresentation.CENTER:
            h = np.ones_like(nu.pos)
        else:
            h = (np.abs(nu.pos) < 1.0).astype(float)
        return complex(np.sum(nu.w * (np.exp(x * nu.pos) - 1.0 - x * nu.pos * h)))

    def intensity(self):
        return self.levy_triplet.nu.integrate(-np.inf, np.inf)


def atoms_everywhere(lo, hi, rng, wmax=9, density=1.0):
    """one atom of random integer weight at every odd multiple of UNIT in (lo, hi) (positions in units)"""
    out = []
    k = lo + 1 if lo % 2 == 0 else lo + 2
    if k % 2 == 0:
        k += 1
    while k < hi:
        if rng.random() < density:
            out.append((k, rng.randint(1, wmax)))
        k += 2
    return out


class TableCopula(LevyCopula):
    """The exact Levy copula of an atomic measure on a lattice of Z^d (all coordinates non-zero):
        F(U_1(x_1), ..., U_d(x_d)) = prod_i sgn(x_i) * nu(I(x_1) x ... x I(x_d)),   U_i = marginal tail integral.
    The marginal tail integrals are strictly monotone step functions, so the table is a function of u: u_i > 0
    selects the atoms whose i-th coordinate lies in the top part of the positive side carrying marginal mass u_i
    (u_i = +inf: the whole positive side), u_i < 0 symmetrically, u_i = 0 nothing."""

    def __init__(self, joint_atoms, dimension, unit=UNIT):
        self.d = dimension
        self.pos = np.array([list(k) for k, _ in joint_atoms], dtype=float) * (1.0 if unit is None else unit)  # (n, d)
        self.w = np.array([float(w) for _, w in joint_atoms])
        self.tables = []
        for i in range(dimension):
            col = self.pos[:, i]
            right, left = {}, {}
            cum = 0.0
            for p in sorted(set(col[col > 0]), reverse=True):
                cum += float(np.sum(self.w[col == p]))
                right[round(cum)] = p
            cum = 0.0
            for p in sorted(set(col[col < 0])):
                cum += float(np.sum(self.w[col == p]))
                left[round(cum)] = p
            self.tables.append((right, left))
        self.unknown = 0

    def _side(self, i, u):
        col = self.pos[:, i]
        if u == 0:
            return np.zeros(len(col), dtype=bool), 1.0
        if u > 0:
            if np.isinf(u):
                return col > 0, 1.0
            key = round(float(u))
            if abs(u - key) > 1e-6 or key not in self.tables[i][0]:
                self.unknown += 1
                raise KeyError(f"TableCopula: u_{i}={u} is not a marginal tail mass")
            return col >= self.tables[i][0][key], 1.0
        if np.isinf(u):
            return col < 0, -1.0
        key = round(float(-u))
        if abs(-u - key) > 1e-6 or key not in self.tables[i][1]:
            self.unknown += 1
            raise KeyError(f"TableCopula: u_{i}={u} is not a marginal tail mass")
        return col <= self.tables[i][1][key], -1.0

    def __call__(self, us):
        us = list(us)
        sel = np.ones(len(self.w), dtype=bool)
        sgn = 1.0
        for i, u in enumerate(us):
            s, e = self._side(i, u)
            sel &= s
            sgn *= e
        return sgn * float(np.sum(self.w[sel]))


def atom_copula_model(joint_atoms, dimension, finite_variation=True, sigma=0.0, unit=UNIT, drifts=None, representations=None):
    """REAL LevyCopulaModel over atomic margins and their exact table copula."""
    models = []
    for i in range(dimension):
        marg = {}
        for k, w in joint_atoms:
            marg[k[i]] = marg.get(k[i], 0) + w
        models.append(AtomLevyModel(sorted(marg.items()), sigma=sigma, finite_variation=finite_variation, unit=unit,
                                    a=(drifts[i] if drifts else 0.0),
                                    representation=(representations[i] if representations else LevyRepresentation.ONEONE)))
    return LevyCopulaModel(models=models, copula=TableCopula(joint_atoms, dimension, unit=unit))


def joint_atoms_in_box(lo, hi, dimension, rng, n_atoms, wmax=5):
    """n_atoms atoms with all coordinates odd, strictly inside (lo_i, hi_i) (units), every odd position of every
    margin carrying at least one atom when possible is NOT required; weights 1..wmax"""
    import itertools
    odds = [[k for k in range(lo[i] + 1, hi[i]) if k % 2 != 0] for i in range(dimension)]
    cells = list(itertools.product(*odds))
    rng.shuffle(cells)
    chosen = cells[:min(n_atoms, len(cells))]
    return [(tuple(c), rng.randint(1, wmax)) for c in chosen]


class StepMeasure(LevyMeasure):
    """A Levy measure with a step density: cells (lo, hi, h) with integer end points and heights (none straddles zero).
    Mass, first and second moment are exact fractions; integrate_against_xn is NOT overridden: the dispatch and the
    quadrature fall-back of the base class are the code under test (C09)."""

    def __init__(self, cells):
        from fractions import Fraction
        self._F = Fraction
        self.cells = [(int(lo), int(hi), int(h)) for lo, hi, h in cells]

    def __call__(self, x):
        for lo, hi, h in self.cells:
            if lo < x < hi:
                return h
        return 0

    def jump_of_finite_activity(self):
        return True

    def jump_of_finite_variation(self):
        return True

    def finite_first_moment(self):
        return True

    def blumenthal_getoor_index(self):
        return 0.0

    def moment(self, a, b, n):
        F = self._F
        if a > b:
            raise ValueError("Expected a<b when integrating the levy measure")
        tot = F(0)
        for lo, hi, h in self.cells:
            lo_c = lo if a < lo else a
            hi_c = hi if b > hi else b
            if lo_c < hi_c:
                tot += F(h) * (F(hi_c) ** (n + 1) - F(lo_c) ** (n + 1)) / (n + 1)
        return tot

    def integrate(self, a, b):
        return self.moment(a, b, 0)

    def integrate_against_x(self, a, b):
        return self.moment(a, b, 1)

    def integrate_against_xx(self, a, b):
        return self.moment(a, b, 2)


class StepLevyModel(LevyModel):
    """The REAL LevyModel (truncate_levy_measure nests the REAL TruncatedLevyMeasure) over a step density."""

    def __init__(self, cells):
        super().__init__(ModelType.HEM, LevyTriplet(a=0.0, sigma=0.0, nu=StepMeasure(cells),
                                                    representation=LevyRepresentation.ONEONE), _NoCumulant())

    def __repr__(self):
        return "StepLevyModel"

    def levy_exponent_pure_jump(self, x):
        raise NotImplementedError

    def intensity(self):
        return self.levy_triplet.nu.integrate(-np.inf, np.inf)
