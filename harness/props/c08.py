"""C08 - randomness discipline: seeded runs repeat; no two samples share random variates."""


def run(ctx):
    # design: schedules (assignment of samples to workers x interleavings), phases, clock ticks, seed given or not
    for cfg, what in (("Rng_fixed_single.cfg", "single process, seed given, 3 paths x 2 phases"),
                      ("Rng_fixed_single_noseed.cfg", "single process, no seed, clock ticking or not"),
                      ("Rng_fixed_workers.cfg", "2 workers, every chunking and interleaving, ONE shared deque (what the property needs)")):
        ctx.design("Rng", cfg, constants=what, coverage=False)
    ctx.exhaustive = True
    for cfg, what, exp in (("Rng_pinned_std.cfg", "pinned: standard engine seeds after the pre-computation", ("Reproducible",)),
                           ("Rng_pinned_mlmc.cfg", "pinned: multilevel engine re-seeds every phase", ("NoReseedToUsedState", "NoSharedVariates"))):
        r = ctx.design("Rng", cfg, constants=what, expect_violations=exp, coverage=False)
        if not r.inv_violations:
            ctx.note("model self-test failed: " + what)
    ctx.design("Rng", "Rng_pinned_workers.cfg", constants="the code: every worker pops a private copy of the pre-drawn deque", coverage=False)  # known finding
    tf = ctx.trace_path("rng")
    ctx.drive("rng_run", [tf, ctx.tier, ctx.seed], timeout=3000)
    ctx.validate("Trace_Rng", "Trace_Rng.cfg", tf)
    ctx.assumptions += [
        "generator states are compared through fingerprints (SHA-1 of the MT19937 key, position, cached gaussian and the `random` module state): equality only",
        "two samples sharing variates are recognised by equal start states or bit-equal simulated values",
        "wall clock frozen (configuration.time replaced in the driver process); statistical independence of distinct streams is not covered",
    ]
