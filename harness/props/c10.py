"""C10 - representation changes are path-independent and reversible; the drift routes of an exponential model give the
forward (exact half).  The analytic half (closed-form exponents = Levy-Khintchine integrals, cumulants = moments) is
judged by thin clauses at sampled parameters / arguments."""


def run(ctx):
    ctx.design("MC_Repr", "Repr_quick.cfg", constants="all sequences of <= 5 representation changes, 3x3x3 compensators / drifts, both variation flags, 4 start representations", coverage=False)
    ctx.exhaustive = True
    tf = ctx.trace_path("repr")
    ctx.drive("repr_run", [tf, ctx.tier, ctx.seed])
    ctx.validate("Trace_Repr", "Trace_Repr.cfg", tf)
    # thin half: exponent = Levy-Khintchine integral of the model's own density; cumulants = its moments
    tx = ctx.trace_path("exponent")
    ctx.drive("exponent_run", [tx, ctx.tier, ctx.seed])
    ctx.validate("Trace_Exponent", "Trace_Exponent.cfg", tx)
    ctx.assumptions += [
        "atomic measures: the drift after every step is an exact integer; real measures: equality classes at relative 1e-9",
        "infinite-variation models are not converted to the ZERO representation (it does not exist)",
        "direct-simulation route: deterministic drift = r - d + omega + drift of L in the ZERO representation (generic conversion), for the models that offer direct simulation (BS, Merton, HEM); martingale under the exact jump law then follows from the characteristic-function route",
        "thin clauses: exponent = Levy-Khintchine integral of the model's own density under the declared representation at 9 arguments (real, complex, -i), cumulants 1, 2, 4, 6 = moments of the density; HEM, Merton, VG, CGMY (y < 0, y = 0, 0 < y < 1, y = 1, 1 < y < 2) at seeded parameters; 2e-6 of max(1, |value|); scipy quadrature trusted as the reference",
        "NOT decided: exponents / cumulants at other parameters and arguments (DESIGN.md section 6)",
    ]
