"""C10 (decided half) - representation changes are path-independent and reversible; the drift routes of an exponential
model give the forward.  The analytic half (closed-form exponents = Levy-Khintchine integrals, cumulants) is not decided."""


def run(ctx):
    ctx.design("MC_Repr", "Repr_quick.cfg", constants="all sequences of <= 5 representation changes, 3x3x3 compensators / drifts, both variation flags, 4 start representations", coverage=False)
    ctx.exhaustive = True
    tf = ctx.trace_path("repr")
    ctx.drive("repr_run", [tf, ctx.tier, ctx.seed])
    ctx.validate("Trace_Repr", "Trace_Repr.cfg", tf)
    ctx.assumptions += [
        "atomic measures: the drift after every step is an exact integer; real measures: equality classes at relative 1e-9",
        "infinite-variation models are not converted to the ZERO representation (it does not exist)",
        "direct-simulation route: deterministic drift = r - d + omega + drift of L in the ZERO representation (generic conversion), for the models that offer direct simulation (BS, Merton, HEM); martingale under the exact jump law then follows from the characteristic-function route",
        "NOT decided: closed-form exponents equal the Levy-Khintchine integral of the density; cumulants are derivatives of the exponent (real analysis, see DESIGN.md section 6)",
    ]
