"""C16 - the SDE scheme is the Euler scheme of its driver; rate models discount sanely."""


def run(ctx):
    ctx.design("MC_Sde", "Sde_quick.cfg", constants="driver increments in quarters from {-2..3}, <= 4 steps, x0 in {1,3}, c in {1,2}", coverage=False)
    ctx.design("MC_Discount", "Discount_quick.cfg", constants="tenors <<2,4,5,8>>, rates <<3,1,4>> tenths, every mesh time", coverage=False)
    ctx.exhaustive = True
    r = ctx.design("MC_Discount", "Discount_pinned.cfg", constants="pinned code: last accrual overwrites", expect_violations=("DfMonotone",), coverage=False)
    if not r.inv_violations:
        ctx.note("model self-test failed")
    tf = ctx.trace_path("sde")
    ctx.drive("sde_run", [tf, ctx.tier, ctx.seed])
    ctx.validate("Trace_Sde", "Trace_Sde.cfg", tf)
    # the drifts / coefficients handed over to the coupled scheme by next_level (levels 1..2), driven on real chains
    tf2 = ctx.trace_path("sdecoupling")
    ctx.drive("coupling_run", [tf2, ctx.tier, ctx.seed, "sde-only"])
    ctx.validate("Trace_Coupling", "Trace_Coupling.cfg", tf2, only={"CoarseIsPrevious"})
    ctx.assumptions += [
        "driver paths are scripted (the driver's own path simulation is C15 / C03): increments, times and chain drift in quarters, all values exact in sixteenths",
        "one-dimensional driver and underlying; a = Constant and DiagX; coupled pair at level 1",
        "discount factors quantised to 1e-9 on a mesh reaching the last tenor (points at and next to every tenor)",
    ]
