"""C19 - credit closed forms equal the default-region jump rate of the benchmarked chain."""


def run(ctx):
    for d in (1, 2, 3):
        ctx.design("MC_Credit", f"Credit_d{d}.cfg", constants=f"d = {d}: all thresholds in {{-6,-4,-2}}^d: inclusion-exclusion = mass of the union, monotone", coverage=False)
    ctx.exhaustive = True
    tf = ctx.trace_path("credit")
    ctx.drive("credit_run", [tf, ctx.tier, ctx.seed])
    ctx.validate("Trace_Credit", "Trace_Credit.cfg", tf)
    ctx.assumptions += [
        "real CTMCCredit grids (built with real HEM / Merton / Clayton models), chains over atomic measures placed after seeing the grid",
        "survival probability / par spread are recovered as exact integers (theta); the implied spread is judged through par = (1-R) theta at pv = 0 and the annuity relation A(2T) = A(T)(1 + e^{-(r+theta)T}) (quantised 1e-4): thin",
        "implied spread only when the par spread lies inside the root finder's bracket",
    ]
