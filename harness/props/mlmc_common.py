"""Shared by C05 and C06: design runs of MLMC.tla, behaviour export, replay into the engine, trace validation."""
import json
import os
import random

from ..core import write_traces
from ..env import BUILD, MachineryError
from .. import tlc as T

C05_INV = {"Numeric", "NoEmptyLevel", "NlExact", "SamplesGenuine", "RowsExact", "StatsExact", "StatsWithControls"}
C06_INV = {"LevelBound", "ExitOnCriteria", "AllocationMet", "FixedShape", "RateIsTheRegressedOrGivenOne"}


def export_scripts(ctx, num, seed):
    """Behaviours of MLMC.tla (environment choices of finished runs) from TLC simulation."""
    r = T.run_tlc("MC_MLMC", "MLMC_sim.cfg", workers=4, timeout=600, metaname=f"{ctx.pid}_mlmc_sim",
                  simulate=["-simulate", f"num={num}", "-depth", "400", "-seed", str(seed + 11)])
    T.require_clean(r, "MLMC simulate")
    ctx._account(r, "MC_MLMC/MLMC_sim.cfg (behaviour export, -simulate)", "simulation")
    scripts, seen = [], set()
    for p in r.printed("SCRIPT"):
        _, l0, n0, lmax, fixed, steps = p
        if l0 > lmax:
            continue   # initial level above the maximum level: excluded configuration (see DESIGN.md, C06)
        key = json.dumps(p)
        if key in seen:
            continue
        seen.add(key)
        st = [[k, (v if k == "Conv" else list(v))] for k, v in steps]
        scripts.append({"L0": l0, "N0": n0, "LMax": lmax, "fixed": bool(fixed), "steps": st})
    return scripts


def random_scripts(n, seed):
    """Longer histories than TLC's bounds: the environment's answers are drawn on the fly (mode 'gen')."""
    rng = random.Random(seed)
    out = []
    for i in range(n):
        l0 = rng.randint(0, 3)
        sc = {"L0": l0, "N0": rng.choice([1, 2, 3, 4, 5, 6, 8, 10]), "LMax": l0 + rng.randint(0, 3),
              "fixed": rng.random() < 0.15, "gen": rng.randint(0, 2 ** 30), "steps": []}
        if i % 5 == 4:
            sc.update(big=1, N0=rng.choice([100, 101, 200]), L0=min(l0, 2), LMax=min(l0, 2) + rng.randint(0, 1), fixed=False)
        out.append(sc)
    return out


def run_and_validate(ctx, scripts, name, only):
    for i, s in enumerate(scripts):
        s["tid"] = f"{name}{i}"
    sj = os.path.join(BUILD, "traces", f"{ctx.pid}_{name}_scripts.json")
    with open(sj, "w") as f:
        json.dump(scripts, f)
    tf = ctx.trace_path(name)
    ctx.drive("mlmc_run", [sj, tf])
    return ctx.validate("Trace_MLMC", "Trace_MLMC.cfg", tf, only=only)
