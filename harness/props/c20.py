"""C20 (decided half) - derived parameters stay in sync with updates; the calibration contract.
Existence / uniqueness of a calibration solution is not decided."""


def run(ctx):
    ctx.design("MC_Params", "Params_quick.cfg", constants="2 parameters x 4 values, all histories of <= 5 assignments / initialisations / builds", coverage=False)
    ctx.exhaustive = True
    r = ctx.design("MC_Params", "Params_stale.cfg", constants="a class whose initialisation() does not refresh its cache",
                   expect_violations=("InitialisationRefreshes",), coverage=False)
    if not r.inv_violations:
        ctx.note("model self-test failed")
    tf = ctx.trace_path("params")
    ctx.drive("params_run", [tf, ctx.tier, ctx.seed])
    ctx.validate("Trace_Params", "Trace_Params.cfg", tf)
    ctx.assumptions += [
        "rebuilt vs direct: every numeric attribute of the parameter object and omega / exponent / measure masses / second cumulant of the model built from it, compared as bit-equality classes",
        "calibration: value inside the default interval, relative repricing error <= 1e-4 against Black-Scholes with the model's own spot, r, d, input untouched, same type; 'raises' is accepted",
        "NOT decided: existence / uniqueness of the calibration solution (analysis of the COS price as a function of the parameter)",
    ]
