"""C01 - CTMC jump rates are the Levy-measure masses of the grid cells (1-d and copula)."""
from . import chain_common as C


def run(ctx):
    ctx.design("MC_Chain", "Chain_quick.cfg", constants="lattice grids: 4 shapes, d = 1..2, levels 0..1, one atom per elementary box", coverage=False)
    ctx.design("MC_Chain", "Chain_3d.cfg", constants="3-d, shape <<1,1>>", coverage=False)
    ctx.exhaustive = True
    C.run_traces(ctx, C.C01_INV)
    ctx.assumptions += [
        "atomic Levy measures (integer weights, atoms strictly between every state and cell boundary): masses are exact integers",
        "the grid chooses its own cell boundary (grid.middle); it must lie strictly between the two states",
        "real models only through the quantised clause sum(rates) = intensity (thin); closed-form integrals are C09 (not applicable)",
    ]
