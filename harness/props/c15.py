"""C15 - simulated paths are running sums on the product dates within the time-step cap."""


def run(ctx):
    ctx.design("Path", "Path_quick.cfg", constants="maturity 8 ticks, <= 3 jump times, eps in {1,2,3,5,8,9}: refinement up to maturity", coverage=False)
    ctx.exhaustive = True
    r = ctx.design("Path", "Path_pinned.cfg", constants="pinned code: refinement before the maturity is appended",
                   expect_violations=("RefinedOK",), coverage=False)
    if not r.inv_violations:
        ctx.note("model self-test failed")
    tf = ctx.trace_path("paths")
    ctx.drive("path_run", [tf, ctx.tier, ctx.seed])
    ctx.validate("Trace_Path", "Trace_Path.cfg", tf)
    ctx.assumptions += [
        "random sources are scripted (jump counts, jump times, jump sizes / state increments, the j-th normal increment is j)",
        "times are multiples of 1/8, product-date gaps perfect squares, sizes multiples of the lattice unit: all values exact",
        "direct, Markov-chain and coupled ONE-DIMENSIONAL simulators and both refinement functions; copula simulators not yet driven",
    ]
