"""C15 - simulated paths are running sums on the product dates within the time-step cap."""


def run(ctx):
    ctx.design("Path", "Path_quick.cfg", constants="maturity 8 ticks, <= 3 jump times, eps in {1,2,3,5,8,9}: refinement up to maturity", coverage=False)
    ctx.exhaustive = True
    r = ctx.design("Path", "Path_pinned.cfg", constants="pinned code: refinement before the maturity is appended",
                   expect_violations=("RefinedOK",), coverage=False)
    if not r.inv_violations:
        ctx.note("model self-test failed")
    tf = ctx.trace_path("paths")
    ctx.drive("path_run", [tf, ctx.tier, ctx.seed])
    ctx.validate("Trace_Path", "Trace_Path.cfg", tf)
    # the series-representation simulator of a two-dimensional Levy copula process
    ctx.design("MC_Series", "Series_quick.cfg", constants="24 affine streams x Poisson counts 0..3 x 0..3 x 4 date sets", coverage=False)
    ts = ctx.trace_path("series")
    td = ctx.trace_path("dates")
    ctx.drive("series_run", [ts, ctx.tier, ctx.seed, td])
    ctx.validate("Trace_Series", "Trace_Series.cfg", ts)
    # the observation dates the products hand to the simulators (spot; Asian of every discretisation)
    ctx.validate("Trace_Dates", "Trace_Dates.cfg", td)
    ctx.assumptions += [
        "random sources are scripted (jump counts, jump times, jump sizes / state increments, the j-th normal increment is j)",
        "times are multiples of 1/8, product-date gaps perfect squares, sizes multiples of the lattice unit: all values exact",
        "direct, Markov-chain, copula (2-d, 3-d), coupled and series-representation simulators and both refinement functions",
        "series simulator: copula inverse conditional distribution and inverse tail integrals are integer stand-ins installed on the real model object (Series.tla Inv / Ivt); uniform date grids",
    ]
