"""C18 - Fourier and closed-form pricers are mutually consistent and arbitrage-free (THIN: the relations are a TLA+
specification, model-checked for discrete laws; the real pricers are judged against them at sampled models / maturities /
strikes with a stated tolerance)."""


def run(ctx):
    ctx.design("MC_Pricers", "Pricers_quick.cfg",
               constants="every law with weights 0..2 on {0..6} (2186 laws) x 6 uniform strike ladders, discount factor 3/4: exact prices satisfy every relation with tolerance 0",
               coverage=False)
    ctx.exhaustive = True
    tf = ctx.trace_path("pricers")
    ctx.drive("pricer_run", [tf, ctx.tier, ctx.seed])
    ctx.validate("Trace_Pricers", "Trace_Pricers.cfg", tf)
    ctx.assumptions += [
        "documented box: the exponential models of harness/models.py (HEM x2, Merton x2, VG, CGMY y = 0.5 and 1.1, Black-Scholes), VG written as CGMY, a Black-Scholes model with a dividend yield, a Black-Scholes and a CGMY model whose r and d were assigned after construction; maturities 0.02 .. 2; uniform ladders of 21 (41) strikes inside the middle half of the COS truncation range, within [0.3, 3] spot; density / cdf clauses for maturities >= 0.1",
        "plus seeded random parameters (1 draw of HEM / Merton / VG / CGMY / Black-Scholes quick, 8 thorough; spot 50..150, r <= 6%, d <= 4%, CGMY c <= 1.2 and y <= 1, pure-jump models from 6 months on; agreement within 1.2e-5 spot) for the price clauses only",
        "tolerances: 3e-5 spot on the shape relations (they carry the series-truncation error; largest deviation observed in the box 1.2e-6 spot), 6e-6 spot on the agreement between pricers (largest observed 1.2e-6), 3e-7 spot on relations that hold by construction (parity through the pricer's own forward, scalar = vector, price() dispatch)",
        "NOT decided: other models, parameters, maturities and strikes; the accuracy of the pricers themselves (no reference other than their mutual agreement and the Black-Scholes closed form)",
    ]
