"""Shared by C01 and C04: chains over atomic measures (driver chain_run, Trace_Chain.tla)."""
C01_INV = {"GridCellsTile", "RateIsCellMass", "SumOfRatesIsIntensity", "BucketIsUnionOfCells"}
C04_INV = {"MeanIsExact", "VarianceRule"}


def run_traces(ctx, only):
    tf = ctx.trace_path("chain")
    ctx.drive("chain_run", [tf, ctx.tier, ctx.seed])
    return ctx.validate("Trace_Chain", "Trace_Chain.cfg", tf, only=only)
