"""C12 - rectangle mass of a copula model is a measure consistent with its margins."""


def run(ctx):
    ctx.design("MC_CopulaMass", "CopulaMass_d2.cfg", constants="d = 2: all 144 lattice rectangles (ends +-2, +-4, +-inf), every sub-family", coverage=False)
    ctx.design("MC_CopulaMass", "CopulaMass_d3.cfg", constants="d = 3: all 2646 lattice rectangles, every sub-family", coverage=False, timeout=1500)
    ctx.exhaustive = True
    tf = ctx.trace_path("copmass")
    ctx.drive("copmass_run", [tf, ctx.tier, ctx.seed])
    ctx.validate("Trace_CopulaMass", "Trace_CopulaMass.cfg", tf)
    ctx.assumptions += [
        "atomic Levy measures on a lattice with their exact table copula: every mass is an integer; equality with a joint density's integral is outside (C09 / C11)",
        "end points never sit on an atom; rectangles containing the origin are excluded (the property excludes them)",
        "inverse_tail_integral (root finding) is not validated",
    ]
