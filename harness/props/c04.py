"""C04 - drift compensation: the chain reproduces the mean of the process it replaces; variance rule."""
from . import chain_common as C


def run(ctx):
    ctx.design("MC_Chain", "Chain_quick.cfg", constants="cells of lattice grids tile (the cells the compensation sums over)", coverage=False)
    C.run_traces(ctx, C.C04_INV)
    ctx.assumptions += [
        "lattice grids (positions multiples of 2^-6) so that first and second moments are exact integers",
        "the truncated process is the one with triplet (a, sigma, nu restricted to the grid's truncation) in the declared representation",
        "copula chains: finite-variation flag only (the infinite-variation diffusion matrix needs numerical quadrature)",
        "the variance bound by the per-cell oscillation of x^2 is not evaluated (only the rule for the central cell)",
    ]
