"""C17 - payoffs and underlyings are pure functions of the path obeying static identities."""


def run(ctx):
    quick = ctx.quick()
    # design: all histories (<= 4 steps) of update / evaluate on one object, for every term x path of the model;
    # static identities of the pure functions for all strikes / paths of the model
    ctx.design("MC_Product", "Product_quick.cfg", constants="PathsSmall x TermsSmall, MaxHist 4")
    ctx.exhaustive = True
    for cfg, what in (("Product_pinned_flag.cfg", "barrier flag never reset"), ("Product_pinned_bind.cfg", "sticky LOG binding")):
        r = ctx.design("MC_Product", cfg, constants=what + " (pinned code)", expect_violations=("Pure",), coverage=False)
        if not r.inv_violations:
            ctx.note(f"model self-test failed: {what} did not violate Pure")
    # code -> spec: evaluation histories on real product objects
    tf = ctx.trace_path("prod")
    ctx.drive("product_run", [tf, ctx.tier, ctx.seed])
    ctx.validate("Trace_Product", "Trace_Product.cfg", tf)
    # multi-asset underlyings and rate payoffs over exact rationals (Product2.tla)
    ctx.design("MC_Product2", "Product2_quick.cfg", constants="static identities of bond / cap / swaption / rainbow for all rate vectors (<= 3 rates from 5 values) x 4 strikes", coverage=False)
    t2 = ctx.trace_path("prod2")
    ctx.drive("product2_run", [t2, ctx.tier, ctx.seed])
    ctx.validate("Trace_Product2", "Trace_Product2.cfg", t2)
    ctx.assumptions += [
        "multi-asset underlyings (Mean, Performances, MaximumOfPerformances, NthSpot, Indicators, Libors) and rate payoffs (Bond, Cap, Swaption, Ratchet, Rainbow, FixedCoupon): dyadic inputs, values read as reduced fractions (1e-9 relative under the log representation)",
        "CDS payoff, LogSpot underlying: not modelled (exponentials / logarithms of the inputs)",
        "paths, strikes, barriers, thresholds are (half-)integers so that every value is an exact integer after doubling",
        "LookBack is excluded: its process() raises unconditionally in the repository",
        "under the log representation strikes/barriers at half-integers only meet spot values away from ties (exp(log(x)) rounding)",
    ]
