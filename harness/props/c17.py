"""C17 - payoffs and underlyings are pure functions of the path obeying static identities."""


def run(ctx):
    quick = ctx.quick()
    # design: all histories (<= 4 steps) of update / evaluate on one object, for every term x path of the model;
    # static identities of the pure functions for all strikes / paths of the model
    ctx.design("MC_Product", "Product_quick.cfg", constants="PathsSmall x TermsSmall, MaxHist 4")
    ctx.exhaustive = True
    for cfg, what in (("Product_pinned_flag.cfg", "barrier flag never reset"), ("Product_pinned_bind.cfg", "sticky LOG binding")):
        r = ctx.design("MC_Product", cfg, constants=what + " (pinned code)", expect_violations=("Pure",), coverage=False)
        if not r.inv_violations:
            ctx.note(f"model self-test failed: {what} did not violate Pure")
    # code -> spec: evaluation histories on real product objects
    tf = ctx.trace_path("prod")
    ctx.drive("product_run", [tf, ctx.tier, ctx.seed])
    ctx.validate("Trace_Product", "Trace_Product.cfg", tf)
    ctx.assumptions += [
        "paths, strikes, barriers, thresholds are (half-)integers so that every value is an exact integer after doubling",
        "LookBack is excluded: its process() raises unconditionally in the repository",
        "under the log representation strikes/barriers at half-integers only meet spot values away from ties (exp(log(x)) rounding)",
    ]
