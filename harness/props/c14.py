"""C14 - index/state enumerations are bijections: every admissible state exactly once."""


def run(ctx):
    quick = ctx.quick()
    ctx.design("MC_Pairing", "Pairing_quick.cfg" if quick else "Pairing_thorough.cfg",
               constants="9 pairings/extensions, indices 0..%d, intervals 1..6 x 1..6, lazy product sizes with product <= 64" % (300 if quick else 2500),
               timeout=3000)
    ctx.design("MC_Enumeration", "Enumeration_quick.cfg", constants="boxes: 25 1-d, 81 2-d, 6 3-d; bound <= largest index of ANY admissible state")
    ctx.exhaustive = True
    r = ctx.design("MC_Enumeration", "Enumeration_pinned.cfg", constants="pinned code: strict bound on the frontier maximum",
                   expect_violations=("ExactlyOnce",), coverage=False)
    if not r.inv_violations:
        ctx.note("model self-test failed: the pinned loop bound did not violate ExactlyOnce")
    tf = ctx.trace_path("pairing")
    ctx.drive("pairing_run", [tf, ctx.tier, ctx.seed])
    ctx.validate("Trace_Pairing", "Trace_Pairing.cfg", tf)
    ctx.assumptions += [
        "gmpy2 is replaced by an exact-rational shim (qdiv = Fraction): behaviour under a real gmpy2 is not observed",
        "large indices are limb-encoded; TLC compares them for equality only",
        "enumeration domains without boundary (the factory's default Boundary)",
    ]
