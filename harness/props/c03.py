"""C03 - level coupling keeps the coarse path in the previous level's law (telescoping)."""


def run(ctx):
    ctx.design("MC_Coupling", "Coupling_quick.cfg", constants="5 grid shapes, levels 0..3, unit atoms at every odd lattice point (set identity: any weights)", coverage=False)
    ctx.exhaustive = True
    r = ctx.design("MC_Coupling", "Coupling_nocopy.cfg", constants="deviation: coarse coefficient / drift not carried over",
                   expect_violations=("CoarseIsPrevious",), coverage=False)
    if not r.inv_violations:
        ctx.note("model self-test failed")
    # the copula coupling in two dimensions: corner probabilities conditioned on the fine cell telescope for any joint
    # weights; the I-margin rule (the pinned code) only for factorising weights
    ctx.design("CouplingNd", "CouplingNd_cell.cfg" if ctx.tier == "quick" else "CouplingNd_thorough.cfg",
               constants="2-d lattice, half-widths x joint weight tables, levels 0..2, rule: cell", coverage=False)
    ctx.design("CouplingNd", "CouplingNd_imargin_product.cfg", constants="I-margin rule on factorising weights (agrees with the cell rule)", coverage=False)
    r = ctx.design("CouplingNd", "CouplingNd_pinned.cfg", constants="pinned: I-margin rule on non-factorising weights",
                   expect_violations=("Telescoping",), coverage=False)
    if not r.inv_violations:
        ctx.note("model self-test failed: CouplingNd pinned")
    tf = ctx.trace_path("coupling")
    ctx.drive("coupling_run", [tf, ctx.tier, ctx.seed])
    ctx.validate("Trace_Coupling", "Trace_Coupling.cfg", tf)
    ctx.assumptions += [
        "atomic Levy measures on lattice grids: the coupling probabilities are ratios of integer masses; the coupling map is observed by sweeping the coupling uniform over a lattice",
        "Levy-copula coupling: finite-variation atomic copula models on lattice grids (2-d, 3-d); the infinite-variation diffusion adjustment (nquad over masses) is not driven",
    ]
