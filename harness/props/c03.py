"""C03 - level coupling keeps the coarse path in the previous level's law (telescoping)."""


def run(ctx):
    ctx.design("MC_Coupling", "Coupling_quick.cfg", constants="5 grid shapes, levels 0..3, unit atoms at every odd lattice point (set identity: any weights)", coverage=False)
    ctx.exhaustive = True
    r = ctx.design("MC_Coupling", "Coupling_nocopy.cfg", constants="deviation: coarse coefficient / drift not carried over",
                   expect_violations=("CoarseIsPrevious",), coverage=False)
    if not r.inv_violations:
        ctx.note("model self-test failed")
    tf = ctx.trace_path("coupling")
    ctx.drive("coupling_run", [tf, ctx.tier, ctx.seed])
    ctx.validate("Trace_Coupling", "Trace_Coupling.cfg", tf)
    ctx.assumptions += [
        "atomic Levy measures on lattice grids: the coupling probabilities are ratios of integer masses; the coupling map is observed by sweeping the coupling uniform over a lattice",
        "one-dimensional coupling (CouplingMarkovChain) only in this check; copula coupling and SDE coupling: see DESIGN.md",
    ]
