"""C09 - closed-form Levy-measure integrals equal integrals of the model's own density (PARTIAL: the truncation wrapper,
the dispatch on the order and additivity / signs are decided exactly on step densities; the special-function closed
forms are compared with quadrature by thin clauses)."""


def run(ctx):
    quick = ctx.quick()
    ctx.design("MC_Measure", "Measure_quick.cfg" if quick else "Measure_thorough.cfg",
               constants="4 step densities (cells touching zero, gap around zero, one-sided, zero-height cell); end points "
                         + ("{-inf, -5, -3, -1, 0, 1, 3, 5, inf}" if quick else "{-inf, -7, -5, -4, -3, -1, 0, 1, 2, 3, 5, inf}")
                         + "; orders 0.." + ("4" if quick else "5") + "; every history of two nested truncations",
               coverage=False, timeout=3000)
    ctx.exhaustive = True
    r = ctx.design("MC_Measure", "Measure_pinned.cfg",
                   constants="deviation: integrate_against_xn(n = 0) = integrate(a, a), the code as found (repaired by 63916fa)",
                   expect_violations=("TruncatedIsRestriction", "Additive"), coverage=False)
    if not r.inv_violations:
        ctx.note("model self-test failed: Measure pinned zero rule")
    # unbounded: Apalache proves the clipping lemmas for ALL integer end points (hence, the operators being max / min /
    # comparisons only, for all real ones): clipped pair = intersection, nested wrappers = intersection of the windows
    from .. import apalache as A
    for inv in ("ClipLemma", "NestLemma"):
        ok, wall, tail = A.check("MC_MeasureClip", "AnyInit", inv, 0, f"clip_{inv}")
        ctx.runs.append({"label": f"apalache MC_MeasureClip: {inv} for all integers", "kind": "inductive-invariant", "wall_s": round(wall, 1), "holds": ok})
        if not ok:
            ctx._report("design", inv, "design:MC_MeasureClip:apalache", None, None,
                        {"property": ctx.pid, "kind": "design", "module": "MC_MeasureClip", "cfg": f"--init=AnyInit --inv={inv} --length=0",
                         "invariant": inv, "tlc_tail": tail})
    tf = ctx.trace_path("measure")
    ctx.drive("measure_run", [tf, ctx.tier, ctx.seed])
    ctx.validate("Trace_Measure", "Trace_Measure.cfg", tf)
    ctx.assumptions += [
        "exact clauses: step densities with integer break points and heights (no cell straddling zero) under histories of up to three nested truncations; mass, first and second moment through every route as reduced fractions",
        "thin clauses: HEM, Merton, variance gamma, CGMY (y < 0, y = 0, 0 < y < 1, y = 1, 1 < y < 2) at seeded parameters on a 13-point lattice of end points with -inf, 0, +inf, orders 0..4: closed form vs scipy quadrature of x^n nu(x) summed over adjacent intervals (2e-6 relative, floor 2e-9), additivity (3e-7 of the table's largest entry), signs, truncated = restriction (same floats), density of the truncated measure",
        "intervals touching zero are examined only for the orders whose integral is finite there (finite activity: n >= 0; finite variation: n >= 1; otherwise n >= 2)",
        "not decided: other parameter values, end points off the lattice, orders above 4 (5 at design level); the accuracy of scipy's quadrature is trusted as the reference of the thin clauses (DESIGN.md section 6)",
    ]
