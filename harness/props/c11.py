"""C11 - the Levy copulas are Levy copulas (PARTIAL: exact on the representable sub-family, thin elsewhere)."""


def run(ctx):
    ctx.design("MC_Copula", "Copula_quick.cfg",
               constants="independent, complete dependence, Clayton theta = 1 x eta in {0, 3/10, 1/2, 1}; d = 2 (9-point lattice), d = 3 (7-point lattice); all lattice rectangles",
               coverage=False, timeout=3000)
    ctx.exhaustive = True
    r = ctx.design("MC_Copula", "Copula_pinned.cfg", constants="deviation: orthant weight by 'all arguments of one sign' (agrees with the code in dimension 2 only)",
                   expect_violations=("DIncreasing", "UniformMargins"), coverage=False, timeout=3000)
    if not r.inv_violations:
        ctx.note("model self-test failed: Copula pinned sign rule")
    tf = ctx.trace_path("copula")
    ctx.drive("copula_run", [tf, ctx.tier, ctx.seed])
    ctx.validate("Trace_Copula", "Trace_Copula.cfg", tf)
    ctx.assumptions += [
        "exact clauses: independent / complete-dependence copulas and Clayton at theta = 1 (rational function) on integer lattices with +-infinity; the code's values are read as reduced fractions (denominator <= 10^5, 1e-11 relative)",
        "thin clauses: Clayton at theta in {0.5, 0.7, 2, 5, ...} x eta: values quantised to 1e-7 on the lattice, slack 12 quanta on volumes and margins",
        "mixed derivative (thin): Clayton theta <= 2, two points per orthant with magnitudes in [0.5, 2], central mixed difference quotient of the copula as the reference (2e-3 relative); the code's convention (the derivative itself instead of the derivative times the product) is the known finding C11-mixed-derivative-convention",
        "not decided: groundedness / d-increasingness / margins off the lattice and for other theta",
    ]
