"""C05 - multilevel estimator = sum of per-level means over exactly the simulated samples (DESIGN.md section 5)."""
from . import mlmc_common as M


def run(ctx):
    quick = ctx.quick()
    # (a) design: every history of the adaptive loop / fixed variant within the bounds of the cfg
    ctx.design("MC_MLMC", "MLMC_quick.cfg" if quick else "MLMC_thorough.cfg",
               constants="ConfsQuick" if quick else "ConfsThorough", timeout=3000 if quick else 14400)
    ctx.exhaustive = True
    # regression demonstration kept in the model: with the pinned counter (1) TLC finds the padded row
    r = ctx.design("MC_MLMC", "MLMC_pinned.cfg", constants="ConfsPinned (newCounter = 1)",
                   expect_violations=("RowsExact", "MidRunRows", "AllSamplesKept"), coverage=False)
    if not r.inv_violations:
        ctx.note("model self-test failed: pinned counter did not violate RowsExact")
    # (a') unbounded: Apalache proves an inductive invariant of the counter abstraction MLMCCount.tla (any number of passes,
    # any sample sizes, LMax = 3): RowsExact, NoCrash, NoPaddingAtReturn; with the pinned counter the step is not inductive
    if True:
        from .. import apalache as A
        for init, inv, length, what in (("Init", "IndInv", 0, "Init => IndInv"), ("IndInv", "IndInv", 1, "IndInv /\\ Next => IndInv'"),
                                        ("IndInv", "Safety", 0, "IndInv => RowsExact /\\ NoCrash /\\ NoPaddingAtReturn")):
            ok, wall, tail = A.check("MC_MLMCCount", init, inv, length, f"count_{init}_{inv}")
            ctx.runs.append({"label": f"apalache MC_MLMCCount: {what}", "kind": "inductive-invariant", "wall_s": round(wall, 1), "holds": ok})
            if not ok:
                ctx._report("design", inv, "design:MC_MLMCCount:apalache", None, None,
                            {"property": ctx.pid, "kind": "design", "module": "MC_MLMCCount", "cfg": f"--init={init} --inv={inv} --length={length}",
                             "invariant": inv, "tlc_tail": tail})
        ok, wall, tail = A.check("MC_MLMCCountPinned", "IndInv", "IndInv", 1, "count_pinned")
        ctx.runs.append({"label": "apalache MC_MLMCCountPinned (new-level counter 1): step must NOT be inductive", "kind": "inductive-invariant",
                         "wall_s": round(wall, 1), "holds": ok})
        if ok:
            ctx.note("model self-test failed: pinned counter is inductive in MLMCCount")
    # (b) spec -> code: TLC behaviours replayed into the real engine; (c) code -> spec: recorded runs validated
    scripts = M.export_scripts(ctx, 400 if quick else 4000, ctx.seed)
    both = []
    for s in scripts:
        both.append(dict(s, cv=0))
        if not s["fixed"]:
            both.append(dict(s, cv=1))
    M.run_and_validate(ctx, both, "tlc", M.C05_INV)
    rnd = M.random_scripts(150 if quick else 1500, ctx.seed)
    for i, s in enumerate(rnd):
        s["cv"] = 1 if (i % 4 == 3 and not s["fixed"]) else 0
    M.run_and_validate(ctx, rnd, "rnd", M.C05_INV)
    # (d) end to end: the real engine on the real coupling over an atomic model; every sample's discounted payoffs are
    # recomputed by TLC from the paths the engine handed to the statistics (Run.tla)
    tr = ctx.trace_path("run")
    ctx.drive("run_run", [tr, ctx.tier, ctx.seed])
    ctx.validate("Trace_Run", "Trace_Run.cfg", tr)
    ctx.assumptions += [
        "ScriptedCoupling stands for the coupling process: the engine's bookkeeping does not depend on how a sample is simulated",
        "payoff dimension 1 (the multilevel path manager cannot store vector payoffs: np.array([payoff, 0.0]) raises)",
        "initial level <= maximum level",
    ]
