"""C13 - state grids are well formed and refinement nests them."""


def run(ctx):
    quick = ctx.quick()
    ctx.design("MC_Grid", "Grid_quick.cfg", constants="dims 1..3, 5 shapes, K=3, shared/per-axis storage, arithmetic mid-points")
    ctx.design("MC_Grid", "Grid_any.cfg", constants="dims 1..2, K=2, any interior point as cell boundary (probability-step grids)")
    ctx.exhaustive = True
    r = ctx.design("MC_Grid", "Grid_inplace.cfg", constants="InPlace = TRUE (deviation: shared array modified in place)",
                   expect_violations=("WellFormed", "NestedNow", "Nesting", "HalvesAndDoubles"), coverage=False)
    if not r.inv_violations:
        ctx.note("model self-test failed: in-place refinement of a shared array did not violate anything")
    tf = ctx.trace_path("grid")
    ctx.drive("grid_run", [tf, ctx.tier, ctx.seed])
    ctx.validate("Trace_Grid", "Trace_Grid.cfg", tf)
    ctx.assumptions += [
        "truncation-based constructors are used with a spatial step smaller than the truncation (h < min(|l|, r))",
        "floats are rank-encoded per trace: order and equality are exact, magnitudes are not compared",
        "tail / per-step probabilities are numeric post-conditions (quantised, slack 1e-8 / 1e-5): thin",
    ]
