"""C02 - every state sampler realises exactly the target law, independent of call history."""


def run(ctx):
    quick = ctx.quick()
    t = "quick" if quick else "thorough"
    ctx.design("SamplerLaw", "SamplerLaw_quick.cfg", constants="all weight vectors len <= 2, sum <= 2, every draw order with repetitions", coverage=False)
    ctx.design("Alias", f"Alias_{t}.cfg", constants="Vose construction (two LIFO stacks, both leftover loops), all weight vectors", coverage=False)
    ctx.design("Bst", f"Bst_{t}.cfg", constants="implicit-heap cumulative tree for every length, all weight vectors", coverage=False)
    ctx.design("Huffman", f"Huffman_{t}.cfg", constants="heap as written (vals no longer mirrors nodes after the first pop), all weight vectors", coverage=False)
    # the inversion sampler and the enumeration it drives, as written: every history of draws x admissibility patterns
    # with gaps x storage caps; the pinned restart rule (before c8e8b57) must violate the law
    ctx.design("MC_Inversion", f"Inversion_{t}.cfg", constants="admissibility patterns len 2..5, 3 weight tables, caps 1..4, all draw histories", coverage=False)
    r = ctx.design("MC_Inversion", "Inversion_pinned.cfg", constants="pinned: skip pointer reset to -1 at the storage cap",
                   expect_violations=("LawOK", "PrefixOK"), coverage=False)
    if not r.inv_violations:
        ctx.note("model self-test failed: Inversion pinned")
    ctx.exhaustive = True
    ti = ctx.trace_path("inversion")
    ctx.drive("inversion_run", [ti, ctx.tier, ctx.seed])
    ctx.validate("Trace_Inversion", "Trace_Inversion.cfg", ti)
    # specification -> code: the constructions of Alias / Bst / Huffman are run by TLC on the driver's weight vectors and
    # the final structure is compared with the real object's (DRIFT notice if they differ)
    for kind, mod in (("alias", "Struct_Alias"), ("bst", "Struct_Bst"), ("huffman", "Struct_Huffman"), ("table", "Struct_Table")):
        ts = ctx.trace_path("struct_" + kind)
        ctx.drive("struct_run", [ts, ctx.tier, ctx.seed, kind])
        ctx.validate(mod, mod + ".cfg", ts)
    tf = ctx.trace_path("samplers")
    ctx.drive("sampler_run", [tf, ctx.tier, ctx.seed])
    ctx.validate("Trace_Sampler", "Trace_Sampler.cfg", tf)
    # the adapted trees: the descent as written (AdaptedTree.tla) induces exactly the target law on every small grid; the
    # same descent is then evaluated by TLC on the driver's sweeps and compared draw by draw with the real samplers
    ctx.design("MC_AdaptedTree", "AdaptedTree_1d.cfg", constants="1-d: 3..6 states, every origin, cell weights 0..2, lattice 2 S", coverage=False)
    ctx.design("MC_AdaptedTree", "AdaptedTree_2dq.cfg" if quick else "AdaptedTree_2d.cfg",
               constants="2-d: 3 x 3 grid, cell weights 0.." + ("1" if quick else "2") + ", lattice 2 S", coverage=False, timeout=3000)
    if not quick:
        ctx.design("MC_AdaptedTree", "AdaptedTree_2db.cfg", constants="2-d: 3 x 4 and 4 x 3 grids, cell weights 0..1", coverage=False, timeout=3000)
    import json
    ta = ctx.trace_path("adapted")
    kept = {}
    with open(tf) as f, open(ta, "w") as g:
        for ln in f:
            if "BINARYSEARCHTREEADAPTED" in ln:
                o = json.loads(ln)
                h = o["hdr"]
                m = h["method"]
                if not (m.startswith("chain") and "shape" in h and len(h["W"]) <= 64 and h["N"] <= (600 if quick else 1500)):
                    continue
                # sizes and (1-based) origin index of every axis, from the header conventions of sampler_run.py
                if m == "chain1d:BINARYSEARCHTREEADAPTED1D":
                    nl, nr, lvl = h["shape"]
                    h["ad"] = {"sizes": [len(h["W"])], "orgs": [nl * 2 ** lvl + 1]}
                elif m.startswith("chain1d:") and m.endswith(":BINARYSEARCHTREEADAPTED1D"):
                    h["ad"] = {"sizes": [h["shape"][0]], "orgs": [h["shape"][1] + 1]}
                elif m.endswith("d:BINARYSEARCHTREEADAPTED"):
                    d, nl, nr = h["shape"]
                    h["ad"] = {"sizes": [nl + nr + 1] * d, "orgs": [nl + 1] * d}
                else:
                    continue
                kept[m] = kept.get(m, 0) + 1
                if kept[m] <= (8 if quick else 40):
                    g.write(json.dumps(o) + "\n")
    ctx.validate("Struct_Adapted", "Struct_Adapted.cfg", ta)
    ctx.assumptions += [
        "uniforms range over the lattice of mid-points (2i+1)/(2N): no draw sits on a threshold, counts are exact",
        "the table method is judged up to the 2^-24 resolution of its embedded alias draw (slack 2K+2 lattice points)",
        "chains are built over atomic Levy measures (integer cell masses) through the public factory",
        "statistical quality of the underlying uniform generator is not covered",
    ]
