"""C02 - every state sampler realises exactly the target law, independent of call history."""


def run(ctx):
    quick = ctx.quick()
    t = "quick" if quick else "thorough"
    ctx.design("SamplerLaw", "SamplerLaw_quick.cfg", constants="all weight vectors len <= 2, sum <= 2, every draw order with repetitions", coverage=False)
    ctx.design("Alias", f"Alias_{t}.cfg", constants="Vose construction (two LIFO stacks, both leftover loops), all weight vectors", coverage=False)
    ctx.design("Bst", f"Bst_{t}.cfg", constants="implicit-heap cumulative tree for every length, all weight vectors", coverage=False)
    ctx.exhaustive = True
    tf = ctx.trace_path("samplers")
    ctx.drive("sampler_run", [tf, ctx.tier, ctx.seed])
    ctx.validate("Trace_Sampler", "Trace_Sampler.cfg", tf)
    ctx.assumptions += [
        "uniforms range over the lattice of mid-points (2i+1)/(2N): no draw sits on a threshold, counts are exact",
        "the table method is judged up to the 2^-24 resolution of its embedded alias draw (slack 2K+2 lattice points)",
        "chains are built over atomic Levy measures (integer cell masses) through the public factory",
        "statistical quality of the underlying uniform generator is not covered",
    ]
