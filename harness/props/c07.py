"""C07 - standard Monte-Carlo price, error and control-variate adjustment are textbook."""


def run(ctx):
    ctx.design("StdMC", "StdMC_quick.cfg", constants="all integer sample sets of length <= 4 over {0,1,3}, one control", coverage=False)
    ctx.exhaustive = True
    tf = ctx.trace_path("stdmc")
    ctx.drive("stdmc_run", [tf, ctx.tier, ctx.seed])
    ctx.validate("Trace_StdMC", "Trace_StdMC.cfg", tf)
    ctx.assumptions += [
        "ScriptedProcess stands for the simulated process (terminal values scripted); notional and discount factor are powers of two",
        "controls are priced at their own sample mean, so the adjusted mean must equal the raw mean exactly",
        "ill-conditioned control covariance (the 1e-12 guard) is reached only through constant controls",
    ]
