"""C06 - sample allocation meets the variance budget; runs stop only on stated criteria (DESIGN.md section 5)."""
import json
import os
import random

from . import mlmc_common as M


def giles_scripts(n, seed):
    rng = random.Random(seed + 5)
    out = []
    for i in range(n):
        l0 = rng.randint(0, 3)
        out.append({"L0": l0, "N0": rng.choice([2, 3, 4, 6]), "LMax": l0 + rng.randint(0, 4), "fixed": False, "steps": [],
                    "giles": {"rmse": rng.choice([1.0, 1.5, 2.0, 3.0, 0.75]), "c0": rng.choice([2.0, 4.0, 6.0, 8.0]),
                              "jit": rng.choice([0.0, 0.25, 0.5]), "rates": "given"}})
    # convergence rates regressed from the level means (no rates given): runs that reach four levels and more; several
    # such runs follow each other in one process
    for i in range(n // 2):
        l0 = rng.randint(0, 2)
        out.append({"L0": l0, "N0": rng.choice([3, 4, 6, 8]), "LMax": l0 + rng.randint(2, 5), "fixed": False, "steps": [],
                    "giles": {"rmse": rng.choice([0.5, 0.75, 1.0, 0.3]), "c0": rng.choice([2.0, 4.0, 6.0, 8.0]),
                              "jit": rng.choice([0.0, 0.25, 0.5]), "rates": "regressed"}})
    # ... and with one level (>= 3) whose mean correction is almost nil: the work-around that floors such means is active
    for i in range(max(4, n // 6)):
        dip = rng.choice([3, 4])
        out.append({"L0": dip, "N0": rng.choice([4, 6, 8]), "LMax": dip + rng.randint(0, 2), "fixed": False, "steps": [],
                    "giles": {"rmse": rng.choice([0.5, 1.0, 0.3]), "c0": rng.choice([2.0, 4.0, 8.0]),
                              "jit": rng.choice([0.0, 0.25]), "rates": "regressed", "dip": dip}})
    return out


def run(ctx):
    quick = ctx.quick()
    # --- the loop: design level ---------------------------------------------------------------------------------
    ctx.design("MC_MLMC", "MLMC_quick.cfg" if quick else "MLMC_thorough.cfg",
               constants="ConfsQuick" if quick else "ConfsThorough", timeout=3000 if quick else 14400)
    ctx.design("MC_MLMC", "MLMC_live.cfg", constants="ConfsLive, weak fairness, no state constraint", coverage=False)
    ctx.design("MC_MLMC", "MLMC_exit.cfg", constants="ConfsQuick", coverage=False)   # known finding C06-fallout
    ctx.exhaustive = True
    # --- the allocation and the stopping test: shares measured on the code, then TLC -------------------------------
    tf = ctx.trace_path("alloc")
    out = ctx.drive("alloc_run", [tf, ctx.tier])
    shares = json.loads(out.strip().splitlines()[-1])
    env = {"ALLOC_VN": shares["vn"], "ALLOC_VD": shares["vd"], "ALLOC_BN": shares["bn"], "ALLOC_BD": shares["bd"]}
    ctx.note(f"shares measured on the code: variance {shares['vn']}/{shares['vd']}, squared bias {shares['bn']}/{shares['bd']}")
    if shares["vn"] <= 0 or shares["bn"] <= 0:
        # degenerate measurement: still let TLC decide on the recorded Shares event
        env = {"ALLOC_VN": max(shares["vn"], 1), "ALLOC_VD": max(shares["vd"], 1), "ALLOC_BN": max(shares["bn"], 1),
               "ALLOC_BD": max(shares["bd"], 1)}
    ctx.design("MC_Allocation", "Allocation_quick.cfg" if quick else "Allocation_thorough.cfg", env=env,
               constants={"shares": shares, "MaxLevels": 3}, coverage=False)
    ctx.design("MC_Allocation", "Allocation_zerocost.cfg", env=env, coverage=False)   # known finding C06-zerocost
    ctx.validate("Trace_Allocation", "Trace_Allocation.cfg", tf, env=env)
    # --- the loop: recorded runs of the real engine ----------------------------------------------------------------
    scripts = M.export_scripts(ctx, 400 if quick else 4000, ctx.seed)
    M.run_and_validate(ctx, [dict(s, cv=0) for s in scripts], "tlc", M.C06_INV)
    M.run_and_validate(ctx, M.random_scripts(150 if quick else 1500, ctx.seed + 1), "rnd", M.C06_INV)
    M.run_and_validate(ctx, giles_scripts(60 if quick else 400, ctx.seed), "giles", M.C06_INV | {"NlExact"})
    ctx.assumptions += [
        "termination is checked for environments that draw sample sizes from a bounded set (the loop has no bound of its own)",
        "initial level <= maximum level",
        "allocation inequality decided exactly on perfect-square variances/costs and rational rmse^2; zero-cost levels are a recorded finding",
    ]
