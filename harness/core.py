"""Check context: runs TLC, collects verdicts printed by TLC, matches known findings, writes evidence.

Verdicts come from TLC only:
  * design runs (exhaustive / simulation on a specification): an INVARIANT / PROPERTY violated;
  * trace validation: one PrintT line per recorded trace, printed by the trace specification:
        <<"ACCEPT", tid>>                       every line explained, every invariant true at every step
        <<"REJECT", tid, line, clause>>         no spec action explains line `line`
        <<"VIOL",   tid, line, invariant, sig>> a property invariant is false on the recorded state
Python only counts these lines, matches `VIOL`/`REJECT` against known_findings.json and writes files.
"""
import fnmatch
import json
import os
import sys
import time

from . import tlc as T
from .env import BUILD, EVIDENCE, VERIF, DriverHang, MachineryError, run_driver, seed

KNOWN = os.path.join(VERIF, "known_findings.json")


def load_known():
    if not os.path.exists(KNOWN):
        return {"findings": [], "fixed": []}
    with open(KNOWN) as f:
        return json.load(f)


class Ctx:
    def __init__(self, pid, tier):
        self.pid = pid
        self.tier = tier
        self.seed = seed()
        self.t0 = time.time()
        self.states = 0
        self.transitions = 0
        self.traces = 0
        self.accepted = 0
        self.samples = []
        self.runs = []          # one dict per TLC run
        self.violations = []    # dicts: kind, inv, sig, tid, line, replay
        self.known_hits = {}    # finding id -> count
        self.notes = []
        self.drift = []
        self.assumptions = []
        self.exhaustive = False
        self.known = [k for k in load_known().get("findings", []) if k.get("property") == pid]
        os.makedirs(os.path.join(BUILD, "traces"), exist_ok=True)
        os.makedirs(os.path.join(BUILD, "replay"), exist_ok=True)
        os.makedirs(EVIDENCE, exist_ok=True)

    def clear_replays(self):
        """a run of the check starts without the replay files of earlier runs of the same property"""
        import glob
        for f in glob.glob(os.path.join(BUILD, "replay", f"{self.pid}_*.json")):
            try:
                os.remove(f)
            except OSError:
                pass

    # ------------------------------------------------------------------ helpers
    def quick(self):
        return self.tier == "quick"

    def trace_path(self, name):
        return os.path.join(BUILD, "traces", f"{self.pid}_{name}.ndjson")

    def note(self, s):
        self.notes.append(s)
        print("NOTE", s, flush=True)

    def sample(self, x):
        if len(self.samples) < 12:
            # a sample is there to show what a case looks like: a very large one (e.g. a run with thousands of recorded
            # fingerprints) is cut, so that the evidence file stays small
            try:
                txt = json.dumps(x)
            except (TypeError, ValueError):
                txt = str(x)
            if len(txt) > 6000:
                x = {"cut_to_6000_characters_of": len(txt), "head": txt[:6000]}
            self.samples.append(x)

    def _account(self, r, label, kind, constants=None):
        self.states += r.distinct
        self.transitions += r.generated
        d = {"label": label, "kind": kind, "distinct_states": r.distinct, "states_generated": r.generated,
             "depth": r.depth, "wall_s": round(r.wall, 2)}
        if constants:
            d["constants"] = constants
        if r.coverage:
            d["action_coverage"] = r.coverage
        self.runs.append(d)
        return d

    def _match_known(self, inv, sig):
        for k in self.known:
            for s in k.get("signatures", [k.get("signature", {})]):
                if s.get("inv", "*") not in ("*", inv):
                    continue
                if fnmatch.fnmatchcase(str(sig), s.get("sig", "*")):
                    return k
        return None

    def _report(self, kind, inv, sig, tid, line, replay_payload):
        k = self._match_known(inv, sig)
        if k is not None:
            self.known_hits[k["id"]] = self.known_hits.get(k["id"], 0) + 1
            return
        n = len(self.violations)
        path = os.path.join(BUILD, "replay", f"{self.pid}_{n}.json")
        if n < 50:
            with open(path, "w") as f:
                json.dump(replay_payload, f)
        self.violations.append({"kind": kind, "inv": inv, "sig": sig, "tid": tid, "line": line, "replay": path})

    # ------------------------------------------------------------------ design-level TLC runs
    def design(self, module, cfg, label=None, constants=None, expect_violations=(), min_actions=None, **kw):
        """Exhaustive (or simulation) TLC run of a specification.  An invariant violation is a verdict
        about the design as transcribed from the code (constants measured on the code are passed via env)."""
        label = label or f"{module}/{cfg}"
        kw.setdefault("coverage", True)
        r = T.run_tlc(module, cfg, **kw)
        T.require_clean(r, label)
        d = self._account(r, label, "design", constants)
        if kw.get("coverage") and r.coverage:
            zero = [a for a, c in r.coverage.items() if c == 0 and not a.startswith("_")]
            d["actions_never_taken"] = zero
        for inv in r.inv_violations:
            if inv in expect_violations:
                d.setdefault("expected_violations", []).append(inv)
                continue
            self._report("design", inv, f"design:{module}:{cfg}", None, None,
                         {"property": self.pid, "kind": "design", "module": module, "cfg": cfg,
                          "env": kw.get("env"), "invariant": inv, "tlc_tail": r.out[-6000:]})
        return r

    # ------------------------------------------------------------------ drivers
    def drive(self, module, args=(), extra_env=None, timeout=3600):
        # a driver of the quick tier finishes in seconds to a few minutes; one that is still running after 25 minutes is
        # reported as a hang of the code under test (exit 1), not as a failure of the machinery
        if self.quick():
            timeout = min(timeout, int(os.environ.get("VERIF_DRIVER_CAP", "1500")))   # (the variable is a development override)
        try:
            out, wall = run_driver(module, args, extra_env, timeout)
        except DriverHang as ex:
            self._report("reject", "Reject:Timeout", f"driver:{module}", None, None,
                         {"property": self.pid, "kind": "hang", "module": module, "args": list(map(str, args)), "what": str(ex)})
            raise
        self.runs.append({"label": module, "kind": "driver", "wall_s": round(wall, 2), "args": list(map(str, args))})
        return out

    # ------------------------------------------------------------------ trace validation
    def validate(self, module, cfg, trace_file, label=None, env=None, workers=16, timeout=1800, depth_first=False,
                 sample_every=None, only=None, ignore=()):
        """Validate every trace in trace_file (ndjson, one trace per line) against specs/<module>.tla."""
        label = label or f"{module}:{os.path.basename(trace_file)}"
        with open(trace_file) as f:
            lines = [ln for ln in f if ln.strip()]
        n = len(lines)
        if n == 0:
            raise MachineryError(f"no traces recorded in {trace_file}")
        lines = self._drop_unobservable(lines, trace_file)
        e = {"TRACE_FILE": trace_file}
        if env:
            e.update(env)
        r = T.run_tlc(module, cfg, env=e, workers=workers, timeout=timeout, depth_first=depth_first,
                      metaname=f"{self.pid}_{module}_{os.path.basename(trace_file)}")
        try:
            T.require_clean(r, label)
        except MachineryError:
            if "Overflow when computing" in r.out:
                # a recorded value so wild that TLC's 32-bit arithmetic overflows while judging it: on the unchanged tree no
                # recorded value comes near that (every run of every seed would fail), so this is the code's doing
                self._account(r, label, "trace-validation")
                self._report("reject", "Reject:WildValue", f"overflow:{module}", None, None,
                             {"property": self.pid, "kind": "trace", "module": module, "cfg": cfg, "env": env, "tlc_tail": r.out[-3000:]})
                self.traces += n
                return r
            if not (r.printed("VIOL") or r.printed("REJECT")):
                raise
            # TLC stopped on a record it could not evaluate (a field of another shape than the specification reads) after
            # having rejected other traces of the same file: those verdicts stand; the traces it did not reach have none
            partial = True
        else:
            partial = False
        self._account(r, label, "trace-validation")
        acc = {p[1] for p in r.printed("ACCEPT")}
        rej = r.printed("REJECT")
        vio = r.printed("VIOL")
        drift = r.printed("DRIFT")
        bytid = {}
        for ln in lines:
            try:
                o = json.loads(ln)
                bytid[o.get("tid")] = o
            except ValueError:
                raise MachineryError("unparsable trace line")
        bad_tids = set()
        for p in rej:
            tid, line, clause = p[1], p[2], (p[3] if len(p) > 3 else "")
            sig = p[4] if len(p) > 4 else ""
            bad_tids.add(tid)
            self._report("reject", f"Reject:{clause}", sig, tid, line,
                         {"property": self.pid, "kind": "trace", "module": module, "cfg": cfg, "env": env,
                          "verdict": p, "trace": bytid.get(tid)})
        for p in vio:
            tid, line, inv = p[1], p[2], p[3]
            sig = p[4] if len(p) > 4 else ""
            bad_tids.add(tid)
            if (only is not None and inv not in only) or inv in ignore:
                continue   # belongs to another property's check (same trace, same specification)
            self._report("invariant", inv, sig, tid, line,
                         {"property": self.pid, "kind": "trace", "module": module, "cfg": cfg, "env": env,
                          "verdict": p, "trace": bytid.get(tid)})
        for inv in r.inv_violations:
            self._report("invariant", inv, "tlc-invariant", None, None,
                         {"property": self.pid, "kind": "trace", "module": module, "cfg": cfg, "env": env,
                          "tlc_tail": r.out[-6000:]})
        for p in drift:
            self.drift.append(p[1:])
        # total verdicts: every trace must have exactly one verdict
        verdicts = acc | bad_tids
        missing = [t for t in bytid if t not in verdicts]
        if missing and not r.inv_violations and not partial:
            raise MachineryError(f"{label}: {len(missing)} traces without verdict, e.g. {missing[:3]}\n{r.out[-2000:]}")
        self.traces += n
        self.accepted += len(acc - bad_tids)
        step = sample_every or max(1, n // 3)
        for i in range(0, n, step):
            o = json.loads(lines[i])
            s = json.dumps(o)
            self.sample(o if len(s) < 1500 else {"tid": o.get("tid"), "hdr": o.get("hdr"), "ev_head": o.get("ev", [])[:4],
                                                   "n_events": len(o.get("ev", []))})
        return r

    # an observation point of a driver is gone (a PRIVATE attribute of rpylib that a driver reads or replaces was renamed or
    # removed): that is a change of the implementation the specification does not talk about, not a verdict.  The event is
    # dropped from the trace before TLC sees it and reported as a SPEC-DRIFT notice.
    PRIVATE_OBSERVATION_POINTS = (
        "_proba_left_axis", "_buckets_probabilities", "_buckets_coordinates", "_mass_nd", "_mass_2d", "_mass_3d",
        "_path_coupling_simulation", "_path_simulation", "_brownian_increments", "_poisson_rv", "_diffusion_matrix_h",
        "_diffusion_matrix_2h", "_uniform", "_coupling_states_for_a_slice", "_theta", "_max_storage", "_payoff_statistics",
        "_payoff_statistics_with_cv", "_ncms_dp", "_draw_with_u", "_cumulative_probabilities", "_simulated_state_increments",
        "__coupling_state", "_precomputed_cum_p_for_axes", "_cum_ps")

    def _drop_unobservable(self, lines, trace_file):
        changed = False
        out = []
        for ln in lines:
            if '"Raise"' not in ln or "AttributeError" not in ln:
                out.append(ln)
                continue
            o = json.loads(ln)
            ev = []
            for e in o.get("ev", []):
                w = str(e.get("what", "")) if isinstance(e, dict) else ""
                if isinstance(e, dict) and e.get("e") == "Raise" and "AttributeError" in w and "has no attribute" in w \
                        and any(("'" + nm + "'") in w or (nm + "'") in w for nm in self.PRIVATE_OBSERVATION_POINTS):
                    self.drift.append([o.get("tid"), "unobservable", w[:120]])
                    changed = True
                    continue
                ev.append(e)
            o["ev"] = ev
            out.append(json.dumps(o, separators=(",", ":")) + "\n")
        if changed:
            with open(trace_file, "w") as f:
                f.writelines(out)
        return out

    # ------------------------------------------------------------------ finish
    def finish(self, level="model_checking", extra_cov=None):
        wall = time.time() - self.t0
        cov = {
            "states": self.states,
            "transitions": self.transitions,
            "traces_validated_against_impl": self.traces,
            "traces_accepted": self.accepted,
            "samples": self.samples or ["(none)"],
            "tlc_runs": self.runs,
            "exhaustive": self.exhaustive,
            "spec_drift_notices": self.drift[:20],
            "known_findings_hit": self.known_hits,
            "notes": self.notes,
        }
        if extra_cov:
            cov.update(extra_cov)
        ev = {
            "property_id": self.pid,
            "tier": self.tier,
            "seed": self.seed,
            "level": level,
            "coverage": cov,
            "assumptions": self.assumptions,
            "wall_s": round(wall, 2),
            "violations": len(self.violations),
        }
        with open(os.path.join(EVIDENCE, f"{self.pid}.json"), "w") as f:
            json.dump(ev, f, indent=1, default=str)
        for k in self.known:
            if self.known_hits.get(k["id"]):
                print(f"KNOWN-FINDING: property={self.pid} {k['id']}: {k['what']} (hits={self.known_hits[k['id']]})")
        for d in self.drift[:10]:
            print("SPEC-DRIFT", d)
        if self.violations:
            seen = set()
            for v in self.violations:
                key = (v["inv"], v["sig"])
                if key in seen:
                    continue
                seen.add(key)
                print(f"VIOLATION property={self.pid} replay={v['replay']} invariant={v['inv']} sig={v['sig']} "
                      f"trace={v['tid']} line={v['line']}")
            print(f"{self.pid}: {len(self.violations)} violation(s); states={self.states} traces={self.traces} "
                  f"wall={wall:.1f}s")
            return 1
        print(f"{self.pid}: held; states={self.states} transitions={self.transitions} traces={self.traces} "
              f"accepted={self.accepted} wall={wall:.1f}s")
        return 0


def write_traces(path, traces):
    with open(path, "w") as f:
        for t in traces:
            f.write(json.dumps(t, separators=(",", ":")) + "\n")
