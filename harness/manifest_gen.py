"""Regenerate MANIFEST.json from the table below (keeps it valid at all times)."""
import json
import os

VERIF = os.path.dirname(os.path.dirname(os.path.abspath(__file__)))

CLAIMED = {
    "C05": dict(
        technique="TLA+ spec MLMC.tla model-checked by TLC (all loop histories within bounds) and its counter abstraction MLMCCount.tla proved by Apalache (inductive invariant, unbounded passes and sample sizes); TLC behaviours replayed into the real engine; recorded runs trace-validated against the specs by TLC (incl. Run.tla end to end on the real coupling)",
        text="Exhaustive TLC exploration of the adaptive loop / fixed-level variant (every sequence of sample-size vectors and bias-test answers within small bounds) for RowsExact / MidRunRows / AllSamplesKept / NoCrash; TLC-generated and random environment scripts are replayed into the real Engine.price / price_with_constant_mc_paths_and_level and every recorded run is validated by TLC against the specification: N_l, array contents, level means/variances/cost/price must be the exact integer functions of the samples that were simulated.",
        note="Trusted: TLC, the ScriptedCoupling stub (sample identity carried as payoff), exact-integer / rank sensors. Payoff dimension 1 only (the MLMC path manager cannot hold vector payoffs). Kurtosis and control-variate results are compared with the repository's own estimator applied to the samples the spec says the level holds (rank equality up to 1e-9).",
        ref="5 (C05)"),
    "C06": dict(
        technique="TLA+ specs MLMC.tla (loop, incl. liveness under weak fairness) and Allocation.tla (Giles allocation / bias test over exact rationals) model-checked by TLC; real compute_mc_paths_giles / criteria_giles / Engine.price runs trace-validated by TLC",
        text="TLC checks on MLMC.tla, for every loop history within bounds: level bound, return only after the 1% rule, process existence, termination (liveness, weak fairness, bounded environment). Allocation.tla: TLC checks the variance budget for all perfect-square variance/cost vectors (<= 3 levels) and rational rmse^2 with the variance/bias shares MEASURED on the code passed as constants, and that the two shares fit in rmse^2. The real allocation function and bias test are run on the same enumerated inputs and validated by TLC in exact rational arithmetic; recorded runs of the real engine (scripted, random and real Giles criteria) are validated against the loop monitor (exit only on criteria, allocation met within 1%, level bound).",
        note="Trusted: TLC, sensors, ScriptedCoupling. Known findings (recorded, not repaired): fall-out exit of the while loop (C06-fallout), zero-cost levels (C06-zerocost). Termination is for environments with bounded sample sizes. initial_level <= maximum_level assumed.",
        ref="5 (C06)"),
    "C17": dict(
        technique="TLA+ specs Product.tla (payoffs/underlyings as pure functions of integer paths + the objects' hidden state) and Product2.tla (multi-asset underlyings, rate payoffs over exact rationals) model-checked by TLC over all evaluation histories / static identities; evaluation histories of real product objects trace-validated by TLC",
        text="TLC explores every history (<= 4 steps) of update(representation) / evaluate(path) on one product object for every term x path of the model and checks Pure (value = pure function of terms and path) and the static identities (parity, spread/butterfly = call combinations >= 0, digitals sum to one, in+out = vanilla, average between extremes). Real objects of every payoff / underlying class are driven through all histories of length <= 3 (<= 4 thorough) plus longer random ones over integer paths, non-uniform time grids, identity and log representations; every returned value must equal notional * PureValue computed by TLC.",
        note="Trusted: TLC, exact-integer sensor (values doubled). LookBack excluded (its process() raises unconditionally). Ties spot = strike under the log representation are not judged (exp(log x) rounding). Multi-asset underlyings and Rainbow / Bond / Cap / Swaption / Ratchet / FixedCoupon are modelled over exact rationals in Product2.tla (static identities model-checked; real objects trace-validated after update / evaluate histories); the CDS payoff and the LogSpot underlying are not modelled (exponentials / logarithms).",
        ref="5 (C17)"),
    "C13": dict(
        technique="TLA+ spec Grid.tla (axes with explicit shared/per-axis array storage, in-place refinement) model-checked by TLC; every real constructor + refinements trace-validated by TLC on rank-encoded axes",
        text="TLC checks WellFormed in every state and Nesting on every Refine step for dimensions 1..3, several left/right shapes, up to 3 refinements, aliased and per-dimension storage, arithmetic mid-points and arbitrary interior cell boundaries. Every real grid constructor (fixed-size, uniform, geometric, geometric-with-bounds, probability-step, credit symmetric/asymmetric, user-built per-axis grids; 6 one-dimensional models, 2-d and 3-d copula models) is run and refined up to 3-5 times; each recorded grid is validated by TLC: strictly increasing, 0 / -h / +h at the origin index, truncations = end points, old states at twice their index, inserted state strictly inside the gap and equal to the grid's own middle() computed before the refinement, h halved, origin doubled. TimeGrid end points / length / monotonicity / argument checks.",
        note="Trusted: TLC, rank sensor (order/equality exact). Promised tail and per-step probabilities are quantised numeric post-conditions (thin). Precondition h < min(|l|, r) for truncation-based constructors.",
        ref="5 (C13)"),
    "C14": dict(
        technique="TLA+ specs Pairing.tla (pairings, signed extensions, interval enumeration, lazy product in exact integer arithmetic) and Enumeration.tla (stateful StatesManager enumeration) model-checked by TLC; recorded calls of the real functions in many call orders trace-validated by TLC",
        text="TLC walks indices 0..300 (2500 thorough) for nine pairings/extensions and checks round trip, range, injectivity, ontoness of the interval enumeration, and bijectivity of the mixed-radix lazy product for all size tuples with product <= 64; Enumeration.tla checks that the skip-pointer enumeration returns every admissible state of 112 boxes (1-d..3-d) exactly once before exhaustion. The real Cantor / Rosenberg-Strong / Szudzik / Pepis-Kalmar / hyperbolic pairings (d = 2, 3), PairingToZd, PairingToZ1d (increasing, decreasing, permuted, repeated, revisiting call orders), lazy_indices_product and StatesManager are run; TLC validates projection-then-pairing and pairing-then-projection (limb-encoded at magnitudes next to perfect squares up to m = 2e8 and cubes up to m = 1e5), every-tuple-once on index blocks, call-order independence, exactly-once enumeration.",
        note="Trusted: TLC, limb sensor. gmpy2 shimmed by exact rationals. Domains without boundary only.",
        ref="5 (C14)"),
    "C02": dict(
        technique="TLA+ specs SamplerLaw.tla (abstract law + history independence), Alias.tla, Bst.tla, Huffman.tla, Inversion.tla (implementation-shaped refinements) model-checked by TLC for all small integer weight vectors / draw histories; lattice sweeps and draw histories of every real sampler trace-validated by TLC; constructions replayed by TLC and compared with the real objects' structures (Struct_*.tla)",
        text="TLC checks SamplerLaw for every draw order with repetitions on small vectors, and that the Vose alias construction (as coded: two LIFO stacks, both leftover loops) and the implicit-heap cumulative tree induce exactly the target law for every integer weight vector (length <= 5, sum <= 8; zeros, ties, single non-zero entry). Every real sampler (alias, table, binary search tree, Huffman, inversion, adapted tree 1-d and n-d), built directly on all those vectors and through the public factory for every SamplingMethod on atomic chains in 1-d, 2-d, 3-d, is swept over a lattice of uniforms through the single-uniform entry point and through the batch call with the generator scripted, after arbitrary draw histories; TLC validates: count_k * S = N * W_k exactly, never a zero-weight / out-of-grid / origin state, memo never contradicted.",
        note="Trusted: TLC, atomic measure / table copula stubs (integer masses), scripted generator. Table method judged up to its 2^-24 resolution. The table method's J table and the adapted trees have no implementation-shaped TLA+ module (law-level verdict only). Inversion.tla also models the stateful enumeration (skip pointer, storage cap, rewind) and is compared draw by draw with the real sampler's internal state (DRIFT notices, not verdicts).",
        ref="5 (C02)"),
    "C01": dict(
        technique="TLA+ spec Chain.tla (cells, rates, intensity over atomic Levy measures) model-checked by TLC on lattice grids; rates / intensities / tree buckets recorded from real 1-d and copula chains trace-validated by TLC against exact atomic masses",
        text="TLC checks on all small lattice grids (d = 1..3, levels 0..1) that the cells tile the truncation box minus the central cell, each state lies in its own cell and the rates sum to the intensity. Real MarkovChainProcess / MarkovChainLevyCopula objects are built over atomic Levy measures and table copulas on fixed-size, irregular, geometric, probability-step, credit (1-d and n-d, symmetric / asymmetric), user-built per-axis and aliased-axis grids, refined 0..2 times in place; every state's rate through create_q_vector, through the inversion factory, the adapted tree's buckets and left/right split, and the reported intensity are recorded as exact integers and TLC recomputes each as the mass of the state's cell (boundaries = the grid's own middle()).",
        note="Trusted: TLC, atomic measure / table copula stubs, rank sensor. Real models only through the thin quantised clause sum(rates) = intensity; the closed-form integrals themselves are C09 (not applicable).",
        ref="5 (C01)"),
    "C04": dict(
        technique="TLA+ definitions of the truncated process' mean / variance rule over atomic measures (Trace_Chain.tla on Chain.tla); drift and equivalent diffusion coefficient recorded from real chains validated by TLC in exact integer arithmetic",
        text="For 1-d chains in all four declared Levy-Khintchine representations x finite/infinite variation flag x diffusion on/off, and for each margin of 2-d / 3-d copula chains (aliased and per-axis grids, refined in place), TLC checks process_drift + sum_k x_k rate_k = canonical drift of the truncated process + its large-jump first moment (exact integers in lattice units), and equivalent variance = sigma^2 + [infinite variation] second moment of the atoms in the central cell.",
        note="Trusted: TLC, atomic stubs, exact-integer sensor. Lattice grids only (exact moments). The x^2-oscillation bound on the total variance is not evaluated. Copula chains with the finite-variation flag only.",
        ref="5 (C04)"),
    "C03": dict(
        technique="TLA+ specs Coupling.tla (next_level state machine + telescoping as an identity between sets of atoms) and CouplingNd.tla (corner rule of the copula coupling in exact rationals) model-checked by TLC; real CouplingMarkovChain / CouplingProcessLevyCopula / CouplingSDE objects driven through next_level and trace-validated by TLC (coupling map observed by sweeping the coupling uniform)",
        text="TLC checks for 5 grid shapes and levels 0..3 that the atoms the coupling sends to each coarse state are exactly the atoms of that state's cell in the level-(l-1) chain (valid for any weights), locality, and that the coarse coefficient / drift are the previous level's fine ones. Real one-dimensional couplings (every sampling method, lattice / geometric / probability-step grids, finite and infinite variation flag, sigma on/off) are driven through next_level up to 3 times; per level TLC validates on recorded exact data: nesting of the in-place refined grid, locality of every move, telescoping against the PREVIOUS level's recorded cells, coarse diffusion coefficient and deterministic drift = previous fine ones, both diffusion components = cumulative sums of the same scripted increments scaled by their own coefficient. The SDE coupling's hand-over of coefficient and drift (path_managers=None route) is validated too.",
        note="Trusted: TLC, atomic stubs, rank sensor. The Levy-copula coupling (2-d, 3-d; aliased and per-axis lattice grids; every parity pattern) is validated the same way on finite-variation atomic copula models, plus slices of several jumps and a real infinite-variation model for the step-dependent diffusion matrix; the infinite-variation adjustment itself is only compared across levels.",
        ref="5 (C03)"),
    "C07": dict(
        technique="TLA+ spec StdMC.tla (bookkeeping + integer statistics incl. one control variate) model-checked by TLC over all small integer sample sets; runs of the real standard engine on scripted paths trace-validated by TLC",
        text="TLC checks for every integer sample set (length <= 4 over a 3-letter alphabet, with one control) the bookkeeping (row i = path i), non-negative error numerator, adjusted mean = raw mean when the control's sample mean is its price, adjusted variance <= raw variance. The real Engine.price is run on the same sets (and random longer ones) with a scripted process, scalar and vector strikes, 0-2 controls, notional / discount powers of two, spot statistics on/off; TLC validates on exact integers: each path stored once at its own index, price * n = sum, error^2 * n^2 (n-1) = n*sumsq - sum^2 per component, adjusted samples of one control, mean / variance relations with controls.",
        note="Trusted: TLC, ScriptedProcess, exact-integer sensor. Two controls: only the mean and variance relations (quantised variance).",
        ref="5 (C07)"),
    "C15": dict(
        technique="TLA+ specs Path.tla (running-sum predicates + design model of the epsilon-refinement) and Series.tla (the series-representation simulator as a function of the random numbers it consumes, in order) model-checked by TLC; paths of the real simulators with every random source scripted trace-validated by TLC",
        text="TLC checks the refinement design (insert until every gap <= epsilon, INCLUDING the gap that ends at maturity) for all grids with <= 3 jump times on 8 ticks and 6 epsilons. The real direct / Markov-chain / coupled one-dimensional simulators in fixed-date, jump-time and maximum-step modes are run with scripted jump counts, jump times, jump sizes (state increments) and recognisable Brownian increments over several product-date sets; TLC validates: start at 0, strictly increasing times ending at maturity, product dates / jump times present, jump path = running sum of all jumps up to each time (both coupled components), k-th diffusion increment = sigma * sqrt(dt_k) * k-th variate, every step <= epsilon; the two refinement functions are also validated directly on integer arrays. The two- and three-dimensional copula chain and the copula coupling are driven the same way (per-row diffusion coefficients). Series.tla: the series-representation simulator of a 2-d Levy copula process with Poisson counts, the stream of uniforms and the normals scripted and the copula / tail-integral inverses replaced by integer stand-ins: both jump components must equal the running sums of the accepted terms of each date interval exactly, every uniform consumed once in the specified order, diffusion increments as above.",
        note="Trusted: TLC, scripted sources, exact-integer sensor. The series simulator is validated on uniform date grids (its time grid class is uniform by construction).",
        ref="5 (C15)"),
    "C16": dict(
        technique="TLA+ specs Sde.tla (Euler recursion and closed forms) and Discount.tla (piecewise simple compounding) model-checked by TLC; real MarkovChainSDE / CouplingSDE runs on scripted driver paths and df(t) of every model trace-validated by TLC",
        text="TLC checks that the Euler recursion has the closed forms x0 + c*Y_T and x0*prod(1+dY_i) for all small driver paths, and df(0)=1, positivity, monotonicity of the compounding rule at every mesh time. The real schemes are run on scripted driver paths (increments, times and chain drift in quarters) for a = Constant and DiagX, single process and both components of the coupled pair with their own drifts; TLC validates every step of the solution in exact sixteenths and the time-step rule epsilon = h^BG. df(t) of LevyModel, ExponentialOfLevyModel, LevyCopulaModel, LevyDrivenSDEModel, LevyForwardModel (even / uneven tenors, copula driver), LevyLiborModel on a mesh with points at and next to each tenor: df(0)=1, positive, non-increasing, no jump.",
        note="Trusted: TLC, scripted driver paths, exact / quantised sensors. One-dimensional driver only.",
        ref="5 (C16)"),
    "C08": dict(
        technique="TLA+ spec Rng.tla (generator states <<epoch, pos>>, pre-drawn deques, forked workers, clock) model-checked by TLC over all chunkings / interleavings; real pricing runs with both engines, 1-2 processes, observed from outside and trace-validated by TLC",
        text="TLC explores every assignment of samples to workers, every interleaving, 1-2 phases, clock ticking or not, seed given or not, and checks Reproducible, NoSharedVariates, PreDrawnOnce, NoReseedToUsedState for the seeding discipline of the (repaired) engines; the pinned disciplines are kept as configurations that must violate them. Real standard and multilevel engines (direct HEM, HEM chain, coupled chain; fixed-level and adaptive; 1 and 2 processes; seed / no seed) are each run twice; every sample carries its process, generator fingerprint before/after, the identities of the pre-drawn rows it popped and a hash of its values; TLC validates: no two samples start from the same generator state or have equal values, every pre-drawn row popped once, no seed call lands on a state from which variates were already consumed, seeded single-process runs repeat bit for bit.",
        note="Trusted: TLC, class-level wrappers installed by the driver (no repo hooks), fingerprints (equality only). Known finding: worker processes pop private copies of the pre-drawn deques (C08-forked-deque-copies) - multi-process violations of PreDrawnOnce / NoSharedVariates are therefore reported as that finding.",
        ref="5 (C08)"),
    "C12": dict(
        technique="TLA+ spec CopulaMass.tla (direct atomic sum, the general recursion, the hard-coded 2-d / 3-d formulas branch by branch) model-checked by TLC on every lattice rectangle; every mass route of the real LevyCopulaModel over atomic models with their exact table copula trace-validated by TLC",
        text="TLC checks that the general algorithm and both fast paths equal the direct sum, for all 144 (d=2) and 2646 (d=3) rectangles with ends in {+-2, +-4, +-inf} not containing the origin and for every sub-family of coordinates; non-negativity. The real _mass_nd, _mass_2d, _mass_3d, mass (all index subsets), additivity along every axis and the cached marginal tail integrals are recorded over several atomic models (shuffled call order) and TLC compares each number with the direct atomic sum.",
        note="Trusted: TLC, atomic measure + table copula stubs. Known finding: end points exactly at 0 (C12-zero-endpoint). Equality with a joint density's integral and the inverse tail integral are not covered.",
        ref="5 (C12)"),
    "C19": dict(
        technique="TLA+ spec Credit.tla (mass of the union of default half-spaces, inclusion-exclusion) model-checked by TLC; real CFLevyModel / CFLevyCopulaModel closed forms and the default-region rate of real chains on real credit grids trace-validated by TLC",
        text="TLC checks Theta = inclusion-exclusion and monotonicity for all thresholds on a lattice, d = 1..3. On real CTMCCredit grids (1-d, 2-d, 3-d, symmetric / asymmetric, thresholds on cell boundaries) chains are built over atomic (copula) models; TLC validates: closed-form theta = mass of the union of the default half-spaces inside the truncation box = sum of the rates of the chain states with a coordinate below its threshold; survival probability and par spread recover theta exactly; implied threshold maps back to the same theta; implied spread = par spread at pv = 0 and satisfies the annuity relation between maturities T and 2T.",
        note="Trusted: TLC, atomic stubs, rank / exact / quantised sensors. The implied-spread clauses are thin (quantised 1e-4, only inside the root finder's bracket).",
        ref="5 (C19)"),
    "C10": dict(
        technique="TLA+ spec Repr.tla (drift conversion between Levy-Khintchine representations over integer compensators) model-checked by TLC for all sequences of changes; histories on real LevyTriplet objects and the drift routes of exponential models trace-validated by TLC; exponents and cumulants of the real models compared by TLC with the Levy-Khintchine integral of their own density (thin)",
        text="PARTIAL (exact on the history / state half, thin on the analytic half). TLC checks for all sequences of <= 5 representation changes (4 start representations, both variation flags, 27 compensator / drift combinations) that the canonical drift is invariant and that returning to a representation restores its drift. Real LevyTriplet objects over atomic measures (exact integers) and over HEM / Merton / VG / CGMY measures (equality classes at 1e-9) are driven through sequences of set_representation; exponential models (real ones, and atomic ones wrapped after arbitrary conversion histories) must give the forward through the characteristic function at -i, and the direct-simulation drift must equal r - d + omega + the drift of L in the ZERO representation. Thin clauses (Trace_Exponent.tla): for HEM, Merton, VG and CGMY in all five activity branches at seeded parameters, levy_exponent at nine real / complex arguments (incl. -i) must equal i x a - sigma^2 x^2 / 2 + the Levy-Khintchine integral of the model's own density under the representation the model declares, and cumulant 1, 2, 4, 6 the corresponding moments (2e-6 of max(1, |value|)).",
        note="The analytic half is judged at sampled parameters and arguments only, with scipy quadrature of the model's own density as the trusted reference (DESIGN.md section 6); it is not a proof for all parameters. Two defects repaired (CGMY y = 0, y = 1, y < 0).",
        ref="5 (C10)"),
    "C20": dict(
        technique="TLA+ spec Params.tla (raw parameters, stamp of the cached derived quantities, guarded assignment, initialisation, build) model-checked by TLC; assignment histories on the real parameter classes and the calibration contract trace-validated by TLC",
        text="PARTIAL (history half + contract). TLC checks on all histories of <= 5 steps that initialisation refreshes the cache and that a rejected assignment changes nothing. Every real parameter class (HEM, VG, CGMY, Merton, Black-Scholes) is driven through assignment histories (all ordered batches of distinct fields, random histories with interleaved initialisations, inadmissible values) ending with initialisation(); every numeric attribute of the object and omega / exponent / measure masses / cumulant of the model rebuilt from it must be bit-equal to the directly constructed one; constraints must be enforced on every assignment. The default calibration of HEM / Merton / VG / CGMY models (zero and non-zero dividend) must return a same-type model with the parameter inside its interval, repricing the Black-Scholes target within 1e-4, leaving the input untouched.",
        note="NOT decided: existence / uniqueness of a calibration solution.",
        ref="5 (C20)"),
    "C11": dict(
        technique="TLA+ spec Copula.tla (exact rational transcription of the case analysis of the independent, complete-dependence and Clayton theta = 1 Levy copulas) model-checked by TLC on lattices of arguments; values, volume() / margin() operators and conditional distributions of the real copula objects trace-validated by TLC",
        text="PARTIAL. TLC checks Grounded, DIncreasing (every rectangle of the lattice, incl. infinite and zero-straddling sides) and UniformMargins for the independent and complete-dependence copulas and for Clayton at theta = 1 with eta in {0, 3/10, 1/2, 1}, d = 2 (9-point lattice incl. +-infinity and 0) and d = 3 (7-point lattice), in exact rational arithmetic; a pinned deviation of the orthant-weight rule (same-sign test) must violate. The real copula objects are evaluated on the same lattices: every value, volume() and margin() result and the theta = 1 conditional distribution must equal the transcription exactly (reduced fractions). For Clayton at other theta x eta, TLC forms all lattice volumes and margins from the table of recorded values (quantised 1e-7): grounded, volumes >= -slack, margins = identity; the 2-d conditional distribution must be non-decreasing from 0 to 1 and be inverted by its stated inverse where it is strictly increasing.",
        note="NOT decided: the inequalities off the lattice / for all theta (a continuum); the mixed-derivative clause (the code returns the mixed partial derivative itself - what its only caller integrates - not that times the product of the arguments; no verdict is given on it). Trusted: TLC, rational / quantise sensors.",
        ref="6 (C11)"),
    "C09": dict(
        technique="TLA+ spec Measure.tla (moment integrals of step densities over exact rationals; the truncation wrapper, nested as LevyModel.truncate_levy_measure nests it, and the dispatch on the order transcribed as written) model-checked by TLC over all histories of two nested truncations; queries on real TruncatedLevyMeasure / LevyMeasure objects and on the HEM / Merton / VG / CGMY measures trace-validated by TLC",
        text="PARTIAL. TLC checks for 4 step densities, every history of <= 2 nested truncation windows over a lattice of end points with +-infinity and 0, orders 0..4 (0..5 thorough): the wrappers as written return the moment of the density restricted to the intersection of the windows (TruncatedIsRestriction, NestingIsIntersection), Additive over adjacent intervals, SignOfMoment, DensityVanishesOutside; the pinned deviation xn(n = 0) = integrate(a, a) (the code as found) must violate. Real TruncatedLevyMeasure wrappers (directly and through LevyModel.truncate_levy_measure, up to three nested) around step densities with exact-fraction moments are queried through integrate / _x / _xx / _xn: every value must equal the specification's exactly; orders 3, 4 reach the base class's quadrature (compared within 1e-4). Thin clauses: for HEM, Merton, VG and CGMY in all five activity branches at seeded parameters, every route on a 13-point lattice of end points (with -inf, 0, +inf), orders 0..4: closed form = scipy quadrature of x^n nu(x) (2e-6 relative), additivity, signs, truncated = restriction, truncated density.",
        note="NOT decided: parameter values, end points and orders outside the sampled ones - the equality of a special-function antiderivative with an integral over a continuum is judged only at sampled points, with scipy's quadrature as the trusted reference (DESIGN.md section 6). Known finding C09-fallback-halfline (generic quadrature over a half-line can miss a narrow jump law). Five defects repaired by fix: commits (known_findings.json).",
        ref="6 (C09)"),
    "C18": dict(
        technique="TLA+ spec Pricers.tla (the no-arbitrage relations of a ladder of European prices as predicates over integer vectors) model-checked by TLC on every small discrete law; price ladders recorded from the real COS / FFT / Black-Scholes pricers trace-validated by TLC against the same predicates with a stated tolerance",
        text="THIN. TLC checks that for every discrete terminal law with weights 0..2 on {0..6} and six uniform strike ladders the exact prices satisfy call-put parity, intrinsic <= call <= discounted forward, monotonicity, convexity and the digital relations with tolerance 0 (the predicates are the right ones). For the exponential models of the documented box (HEM x2, Merton x2, VG, CGMY x2, Black-Scholes with and without dividend yield, VG written as CGMY, models whose r / d were assigned after construction) and maturities 0.02..2, the real COS call / put / forward / digital prices on a uniform ladder inside the truncation range are quantised (1e-7 spot) and TLC applies the same predicates within 3e-5 spot; COS = FFT (calls and puts, 6e-6 spot), COS = Black-Scholes closed form (incl. digital and the degenerate branch = discounted intrinsic), VG = its CGMY parametrisation; scalar strike = vector entry and COSPricer.price / butterfly dispatch within 3e-7 spot; the implied density is >= -tol and integrates to one, and the cdf increments equal the density's mass.",
        note="The accuracy of the pricers themselves is not decided: the reference of every clause is another pricer of the library, the closed form, or a relation between its own outputs; models, maturities and strikes are sampled from a documented box (DESIGN.md section 6). Two defects repaired (degenerate Black-Scholes digital with a scalar strike; COS cdf discounted).",
        ref="6 (C18)"),
}

NOT_APPLICABLE = {
}

PENDING = "check not built yet in this round (planned, see DESIGN.md section 5)"
ALL = ["C%02d" % i for i in range(1, 21)]


def main():
    checks = []
    for pid, c in CLAIMED.items():
        checks.append({
            "property_id": pid,
            "quick_cmd": f"./check {pid} --tier quick",
            "thorough_cmd": f"./check {pid} --tier thorough",
            "evidence_file": f"/verif/evidence/{pid}.json",
            "replay_cmd_template": f"./check {pid} --replay {{path}}",
            "engine": "tlc",
            "level_claimed": {"category": "model_checking", "text": c["text"], "design_ref": c["ref"]},
            "level_note": c["note"],
            "technique": c["technique"],
        })
    na = []
    for pid in ALL:
        if pid in CLAIMED:
            continue
        na.append({"property_id": pid, "reason": NOT_APPLICABLE.get(pid, PENDING)})
    m = {
        "version": 1,
        "setup_cmd": "./check --setup",
        "hooks": {
            "guard": "RPYLIB_VERIF",
            "enable": "no source hooks: all observation points are reached from outside (module-namespace wrappers installed by the drivers in their own process); drivers set RPYLIB_VERIF=1 anyway",
            "baseline_off_cmd": "cd /repo && /venv/bin/python -m pytest -ra -q -p no:cacheprovider --timeout=900 --continue-on-collection-errors",
            "source_commits": [],
            "add_only": True,
        },
        "engines": [
            {"name": "tlc", "path": "/verif/check", "serves_properties": sorted(CLAIMED),
             "kind_free_text": "TLA+ specifications under /verif/specs checked by TLC 1.8 (exhaustive / -simulate / batched trace validation); Python drivers under /verif/harness/drivers replay spec behaviours into rpylib and record traces"}
        ],
        "checks": checks,
        "not_applicable": na,
        "notes": "Verdicts originate from TLC only (invariant violated, or a recorded trace line no spec action explains). Exit 2 = machinery failure. Genuine defects repaired by 'fix:' commits in /repo or listed in /verif/known_findings.json.",
    }
    with open(os.path.join(VERIF, "MANIFEST.json"), "w") as f:
        json.dump(m, f, indent=1)
    print("MANIFEST.json:", len(checks), "checks,", len(na), "not applicable")


if __name__ == "__main__":
    main()
