"""Apply a behaviour-preserving refactoring to /repo, run checks, undo it, file the outcome under benign/<id>/.
(development tool, not a registered check)   usage: python -m harness.benigntool <area> <k> <id> <check> [check ...]"""
import json
import os
import re
import shutil
import subprocess
import sys

VERIF = os.path.dirname(os.path.dirname(os.path.abspath(__file__)))
REPO = "/repo"


def sh(cmd):
    return subprocess.run(cmd, shell=True, stdout=subprocess.PIPE, stderr=subprocess.STDOUT, text=True)


def main():
    area, k, bid = sys.argv[1:4]
    checks = sys.argv[4:]
    diff = os.path.join(VERIF, "benign", "_incoming", area, f"benign_{area}_{k}.diff")
    assert sh(f"git -C {REPO} status --porcelain").stdout.strip() == "", "repo not clean"
    r = sh(f"git -C {REPO} apply {diff}")
    if r.returncode:
        print("does not apply:", r.stdout)
        return 1
    res = {}
    try:
        t = sh(f"cd {REPO} && /venv/bin/python -m pytest -q -p no:cacheprovider --timeout=900 --continue-on-collection-errors 2>&1 | tail -1")
        for c in checks:
            p = sh(f"cd {VERIF} && ./check {c} --tier quick")
            res[c] = {"exit": p.returncode,
                      "violation_lines": [ln for ln in p.stdout.splitlines() if ln.startswith("VIOLATION")][:5],
                      "drift": sum(1 for ln in p.stdout.splitlines() if ln.startswith("SPEC-DRIFT")),
                      "machinery": [ln for ln in p.stdout.splitlines() if ln.startswith("MACHINERY")][:2]}
            print(c, res[c])
    finally:
        sh(f"git -C {REPO} checkout -- .")
    d = os.path.join(VERIF, "benign", bid)
    os.makedirs(d, exist_ok=True)
    shutil.copy(diff, os.path.join(d, "patch.diff"))
    json.dump({"id": bid, "area": area, "pytest": t.stdout.strip(), "checks_run": res,
               "false_alarms": [c for c, v in res.items() if v["exit"] == 1],
               "machinery_failures": [c for c, v in res.items() if v["exit"] not in (0, 1)]},
              open(os.path.join(d, "meta.json"), "w"), indent=1)
    return 0


if __name__ == "__main__":
    sys.exit(main())
