"""Apply a behaviour-preserving refactoring to a scratch worktree of /repo HEAD, run checks against it, file the outcome
under benign/<id>/ (development tool, not a registered check).
usage: python -m harness.benigntool <area> <k> <id> <check> [check ...]"""
import json
import os
import shutil
import subprocess
import sys

VERIF = os.path.dirname(os.path.dirname(os.path.abspath(__file__)))
REPO = "/repo"


def sh(cmd):
    return subprocess.run(cmd, shell=True, stdout=subprocess.PIPE, stderr=subprocess.STDOUT, text=True)


def main():
    area, k, bid = sys.argv[1:4]
    checks = sys.argv[4:]
    diff = os.path.join(VERIF, "benign", "_incoming", area, f"benign_{area}_{k}.diff")
    wt, scratch = f"/tmp/cb_{bid}", f"/tmp/cb_out_{bid}"
    sh(f"git -C {REPO} worktree remove --force {wt}")
    assert sh(f"git -C {REPO} worktree add -q --detach {wt} HEAD").returncode == 0
    res = {}
    try:
        r = sh(f"git -C {wt} apply {diff}")
        if r.returncode:
            print("does not apply:", r.stdout)
            return 1
        t = sh(f"cd {wt} && /venv/bin/python -m pytest -q -p no:cacheprovider --timeout=900 --continue-on-collection-errors 2>&1 | tail -1")
        shutil.rmtree(scratch, ignore_errors=True)
        os.makedirs(scratch + "/build")
        os.makedirs(scratch + "/evidence")
        for c in checks:
            p = sh(f"cd {VERIF} && VERIF_REPO={wt} VERIF_BUILD={scratch}/build VERIF_EVIDENCE={scratch}/evidence ./check {c} --tier quick")
            res[c] = {"exit": p.returncode,
                      "violation_lines": [ln.replace(scratch, "<scratch>") for ln in p.stdout.splitlines() if ln.startswith("VIOLATION")][:5],
                      "drift": sum(1 for ln in p.stdout.splitlines() if ln.startswith("SPEC-DRIFT")),
                      "machinery": [ln for ln in p.stdout.splitlines() if ln.startswith("MACHINERY")][:2]}
            print(c, res[c])
    finally:
        sh(f"git -C {REPO} worktree remove --force {wt}")
        shutil.rmtree(wt, ignore_errors=True)
        shutil.rmtree(scratch, ignore_errors=True)
    d = os.path.join(VERIF, "benign", bid)
    os.makedirs(d, exist_ok=True)
    shutil.copy(diff, os.path.join(d, "patch.diff"))
    json.dump({"id": bid, "area": area, "pytest": t.stdout.strip(), "checks_run": res,
               "base_commit": sh(f"git -C {REPO} rev-parse --short HEAD").stdout.strip(),
               "false_alarms": [c for c, v in res.items() if v["exit"] == 1],
               "machinery_failures": [c for c, v in res.items() if v["exit"] not in (0, 1)]},
              open(os.path.join(d, "meta.json"), "w"), indent=1)
    return 0


if __name__ == "__main__":
    sys.exit(main())
