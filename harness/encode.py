"""Sensors (DESIGN.md 3.3): how real numbers reach TLC without moving the verdict to Python."""
import math
from fractions import Fraction


NONINT = -77777   # sentinel; the driver counts its occurrences in the record field "bad"


def count_bad(obj):
    if isinstance(obj, dict):
        return sum(count_bad(v) for v in obj.values())
    if isinstance(obj, (list, tuple)):
        return sum(count_bad(v) for v in obj)
    return 1 if (isinstance(obj, int) and not isinstance(obj, bool) and obj == NONINT) else 0


def exact_int(x, tol=1e-9):
    """The value is an integer by construction; anything else is emitted as the string "NONINT",
    which no specification action accepts (so TLC, not Python, rejects the trace)."""
    try:
        xf = float(x)
    except (TypeError, ValueError):
        return NONINT
    if math.isnan(xf) or math.isinf(xf):
        return NONINT
    r = round(xf)
    if abs(xf - r) > tol * max(1.0, abs(xf)):
        return NONINT
    if abs(r) >= 2 ** 31:
        return NONINT
    return int(r)


def ranks(values, rel=0.0):
    """Rank sensor: equal floats get equal rank, order is preserved.  NaN gets rank -1.
    With rel > 0, values closer than rel (relative) are merged into one class (quantised equality)."""
    vals = []
    for v in values:
        try:
            vals.append(float(v))
        except (TypeError, ValueError):
            vals.append(float("nan"))
    finite = sorted({v for v in vals if not math.isnan(v)})
    classes = []
    for v in finite:
        if classes and rel > 0 and abs(v - classes[-1][-1]) <= rel * max(1.0, abs(v), abs(classes[-1][-1])):
            classes[-1].append(v)
        else:
            classes.append([v])
    rank = {}
    for i, cl in enumerate(classes):
        for v in cl:
            rank[v] = i
    return [(-1 if math.isnan(v) else rank[v]) for v in vals]


def rational(x, max_den=10 ** 6):
    """<<num, den>> with small integers, or "NONRAT"."""
    if isinstance(x, Fraction):
        fr = x
    else:
        try:
            fr = Fraction(float(x)).limit_denominator(max_den)
            if abs(float(fr) - float(x)) > 1e-12 * max(1.0, abs(float(x))):
                return "NONRAT"
        except (ValueError, OverflowError, TypeError):
            return "NONRAT"
    if abs(fr.numerator) >= 2 ** 31 or fr.denominator >= 2 ** 31:
        return "NONRAT"
    return [fr.numerator, fr.denominator]


def quantise(x, unit):
    try:
        q = round(float(x) / unit)
    except (ValueError, OverflowError, TypeError):
        return NONINT
    if abs(q) >= 2 ** 31:
        return NONINT
    return int(q)
