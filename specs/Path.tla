--------------------------------- MODULE Path ---------------------------------
(***************************************************************************)
(* Simulated paths (rpylib/process/levyprocess.py, markovchain.py,         *)
(* coupling/*.py) as running sums on the product dates, and the            *)
(* epsilon-refinement of time grids (create_build_finer_grid_fun).         *)
(* Times are integers (ticks).  A jump is a pair <<time, size>>.           *)
(*                                                                         *)
(* The refinement is modelled as the code does it (insert a point epsilon  *)
(* before every gap larger than epsilon, repeat) so that TLC can check the *)
(* design for every small grid; the properties are stated on the result.   *)
(* C15: StartsAtZero, TimesIncreasing, EndsAtMaturity, RunningSum,         *)
(*      StepCap, KeepsJumps.                                               *)
(***************************************************************************)
EXTENDS Integers, Sequences, FiniteSets, TLC

RECURSIVE SumSeq(_)
SumSeq(s) == IF s = <<>> THEN 0 ELSE Head(s) + SumSeq(Tail(s))

\* value of the pure-jump path at time t: all jumps up to and including t
JumpSum(jumps, t) == SumSeq([i \in 1..Len(jumps) |-> IF jumps[i][1] <= t THEN jumps[i][2] ELSE 0])

StartsAtZero(times, path) == times[1] = 0 /\ path[1] = 0
TimesIncreasing(times) == \A k \in 1..(Len(times) - 1) : times[k] < times[k + 1]
EndsAtMaturity(times, maturity) == times[Len(times)] = maturity
RunningSum(times, path, jumps) == Len(path) = Len(times) /\ \A k \in 1..Len(times) : path[k] = JumpSum(jumps, times[k])
StepCap(times, eps) == \A k \in 1..(Len(times) - 1) : times[k + 1] - times[k] <= eps
KeepsJumps(times, jumps) == \A i \in 1..Len(jumps) : \E k \in 1..Len(times) : times[k] = jumps[i][1]
KeepsDates(times, dates) == \A i \in 1..Len(dates) : \E k \in 1..Len(times) : times[k] = dates[i]

-----------------------------------------------------------------------------
(* Design model of the refinement: insert points until every gap <= eps.  ApplyToMaturity = TRUE is the rule the    *)
(* property needs (the gap that ends at maturity and the no-jump path are refined too); FALSE is the pinned code,    *)
(* which refines the jump times before 0 / maturity are attached.                                                    *)
CONSTANTS Maturity, MaxJumps, EpsVals, ApplyToMaturity
VARIABLES jt, eps, grid, pc
pvars == <<jt, eps, grid, pc>>

SortedSubsets == {s \in SUBSET (1..(Maturity - 1)) : Cardinality(s) <= MaxJumps}
RECURSIVE SetToSeq(_)
SetToSeq(S) == IF S = {} THEN <<>> ELSE LET m == CHOOSE x \in S : \A y \in S : x <= y IN <<m>> \o SetToSeq(S \ {m})

Init == /\ \E S \in SortedSubsets : jt = SetToSeq(S)
        /\ eps \in EpsVals
        /\ grid = (IF ApplyToMaturity THEN <<0>> \o jt \o <<Maturity>> ELSE <<0>> \o jt)
        /\ pc = "refine"
FirstBigGap == LET G == {k \in 1..(Len(grid) - 1) : grid[k + 1] - grid[k] > eps} IN
               IF G = {} THEN 0 ELSE CHOOSE k \in G : \A j \in G : k <= j
InsertStep ==
    /\ pc = "refine" /\ FirstBigGap # 0
    /\ LET k == FirstBigGap IN
       grid' = SubSeq(grid, 1, k) \o <<grid[k + 1] - eps>> \o SubSeq(grid, k + 1, Len(grid))   \* a point eps before the gap's end
    /\ UNCHANGED <<jt, eps, pc>>
Finish ==
    /\ pc = "refine" /\ FirstBigGap = 0
    /\ grid' = (IF ApplyToMaturity THEN grid ELSE grid \o <<Maturity>>)
    /\ pc' = "done" /\ UNCHANGED <<jt, eps>>
Next == InsertStep \/ Finish
Spec == Init /\ [][Next]_pvars

RefinedOK == pc = "done" => /\ TimesIncreasing(grid) /\ grid[1] = 0 /\ EndsAtMaturity(grid, Maturity)
                            /\ StepCap(grid, eps)
                            /\ \A i \in 1..Len(jt) : \E k \in 1..Len(grid) : grid[k] = jt[i]
=============================================================================
