SPECIFICATION Spec
CONSTANT Dim = 3
INVARIANT GeneralIsDirect
INVARIANT FastIsDirect
INVARIANT NonNegative
INVARIANT SubFamilies
CHECK_DEADLOCK FALSE
