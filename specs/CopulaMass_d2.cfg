SPECIFICATION Spec
CONSTANT Dim = 2
INVARIANT GeneralIsDirect
INVARIANT FastIsDirect
INVARIANT NonNegative
INVARIANT SubFamilies
CHECK_DEADLOCK FALSE
