--------------------------------- MODULE Bst ---------------------------------
(***************************************************************************)
(* Binary search tree sampler (binarysearchtree.py): an implicit heap with *)
(* K = len - 1 internal nodes holding cumulative sums filled by an         *)
(* in-order traversal with an explicit stack; leaves K+1..2K+1.            *)
(* Draw: ptr = 1; while ptr <= K: ptr = 2ptr if u < bst[ptr] else 2ptr+1;  *)
(* state = ptr - K - 1.  Checked for every weight vector of length >= 2    *)
(* (any length, not only powers of two).                                   *)
(***************************************************************************)
EXTENDS Integers, Sequences, FiniteSets, TLC

CONSTANTS MaxLen, MaxSum
RECURSIVE SumSeq(_)
SumSeq(s) == IF s = <<>> THEN 0 ELSE Head(s) + SumSeq(Tail(s))
Vectors == UNION {{w \in [1..n -> 0..MaxSum] : SumSeq(w) \in 1..MaxSum} : n \in 2..MaxLen}

VARIABLES W, bst, ptr, stack, cum, pc
bvars == <<W, bst, ptr, stack, cum, pc>>
S == SumSeq(W)
K == Len(W) - 1

InitFor(w) ==
        /\ W = w
        /\ bst = [j \in 1..(2 * Len(w) - 1) |-> IF j <= Len(w) - 1 THEN 0 ELSE w[j - (Len(w) - 1)]]
        /\ ptr = 1 /\ stack = <<>> /\ cum = 0 /\ pc = "build"
Init == \E w \in Vectors : InitFor(w)

Step ==
    /\ pc = "build"
    /\ IF ptr <= K
       THEN /\ stack' = Append(stack, ptr) /\ ptr' = 2 * ptr /\ UNCHANGED <<bst, cum>> /\ pc' = pc
       ELSE LET c == cum + bst[ptr] p == stack[Len(stack)] IN
            /\ cum' = c /\ bst' = [bst EXCEPT ![p] = c] /\ stack' = SubSeq(stack, 1, Len(stack) - 1)
            /\ ptr' = 2 * p + 1
            /\ pc' = IF 2 * p + 1 > K /\ Len(stack) = 1 THEN "ready" ELSE "build"
    /\ UNCHANGED W
Next == Step
Spec == Init /\ [][Next]_bvars

N == 2 * S
RECURSIVE Descend(_, _)
Descend(p, i) == IF p > K THEN p - K          \* 1-based state
                 ELSE IF 2 * i + 1 < 4 * bst[p] THEN Descend(2 * p, i) ELSE Descend(2 * p + 1, i)   \* u = (2i+1)/(4S) against cum/S
DrawOf(i) == Descend(1, i)
CountOf(k) == Cardinality({i \in 0..(N - 1) : DrawOf(i) = k})
ExactLaw == pc = "ready" => \A k \in 1..Len(W) : CountOf(k) * S = N * W[k]
NeverZeroWeight == pc = "ready" => \A i \in 0..(N - 1) : W[DrawOf(i)] > 0
=============================================================================
