----------------------------- MODULE Trace_MLMC -----------------------------
(***************************************************************************)
(* Trace validation of recorded runs of the real multilevel engine         *)
(* (harness/drivers/mlmc_run.py) against MLMC.tla.                         *)
(*                                                                         *)
(* One ndjson line = one run: hdr (configuration) + ev (one event per      *)
(* specification action).  All runs of the file are validated in one TLC   *)
(* invocation: the run number is part of the initial state.                *)
(*                                                                         *)
(* Two layers:                                                             *)
(*  - faithful layer: every event is matched against the MLMC action it    *)
(*    belongs to (silent actions are taken in between).  When the code's   *)
(*    step-by-step behaviour departs from the transcription the run is     *)
(*    marked DRIFT (no alarm) and only the monitor layer continues;        *)
(*  - monitor layer (the verdict): which samples were simulated at which   *)
(*    level / index (mon), the last allocation and bias-test answers.  At  *)
(*    the Ret event the properties C05 / C06 are evaluated on the recorded *)
(*    results against the monitor.                                         *)
(***************************************************************************)
EXTENDS MLMC, Json, IOUtils, TLCExt, SequencesExt

Lines == ndJsonDeserialize(IOEnv.TRACE_FILE)

VARIABLES tid, ln, fin, drifted,
          mon,       \* monitor: sequence of Add records [lvl, idx, f, c, slvl, s] in order
          mNs,       \* last vector returned by compute_mc_paths (sequence, level k at k+1)
          mConv,     \* last answer of criteria, or "none"
          mLost      \* number of simulated samples that never reached statistics.add

tvars == <<vars, tid, ln, fin, drifted, mon, mNs, mConv, mLost>>

T == Lines[tid].ev
H == Lines[tid].hdr
Id == Lines[tid].tid
E == T[ln]

ConfOf(h) == [L0 |-> h.L0, N0 |-> h.N0, LMax |-> h.LMax, NsVals |-> {}, fixed |-> h.fixed, newCounter |-> 0]

TraceInit ==
    /\ tid \in 1..Len(Lines)
    /\ InitWith(ConfOf(Lines[tid].hdr))
    /\ ln = 1 /\ fin = FALSE /\ drifted = FALSE
    /\ mon = <<>> /\ mNs = <<>> /\ mConv = "none" /\ mLost = 0

More == ~fin /\ ln <= Len(T)
Is(e) == More /\ E.e = e
Consume == ln' = ln + 1
SeqToFun(s) == [k \in 0..(Len(s) - 1) |-> s[k + 1]]
FunToSeq(f, n) == [i \in 1..n |-> f[i - 1]]
KeepMon == UNCHANGED <<mon, mNs, mConv, mLost>>
KeepCtl == UNCHANGED <<tid, fin, drifted>>

(***************************************************************************)
(* Monitor updates (independent of the faithful layer).                    *)
(***************************************************************************)
MonUpdate ==
    CASE E.e = "Add"  -> /\ mon' = Append(mon, [lvl |-> E.lvl, idx |-> E.idx, f |-> E.f, c |-> E.c,
                                               slvl |-> E.slvl, s |-> E.s, xf |-> E.xf, xc |-> E.xc])
                         /\ UNCHANGED <<mNs, mConv, mLost>>
      [] E.e = "Ns"   -> mNs' = E.ret /\ UNCHANGED <<mon, mConv, mLost>>
      [] E.e = "Crit" -> /\ mConv' = (IF E.ret THEN "T" ELSE "F") /\ UNCHANGED <<mon, mNs, mLost>>
                         /\ (IF "alpha" \in DOMAIN E /\ E.alpha[1] # E.alpha[2]
                             THEN PrintT(<<"VIOL", Id, ln, "RateIsTheRegressedOrGivenOne", "crit">>) ELSE TRUE)
      [] E.e = "Lost" -> mLost' = mLost + 1 /\ UNCHANGED <<mon, mNs, mConv>>
      [] OTHER        -> KeepMon

(***************************************************************************)
(* Faithful layer: event e is explained by MLMC action A.                  *)
(***************************************************************************)
FInit    == Is("Init") /\ serial = 0 /\ nproc = 1
            /\ E.lens = FunToSeq([k \in DOMAIN rows |-> Len(rows[k])], L + 1)
            /\ UNCHANGED vars
FPre0    == Is("Pre") /\ ln = 1 /\ E.n = conf.N0 /\ UNCHANGED vars      \* Engine.initialisation
FNext    == Is("Next") /\ ((pc = "level" /\ E.lvl = cur /\ E.arg = EnsureProcessArg /\ EnsureProcess)
                           \/ (pc = "addproc" /\ E.lvl = L /\ E.arg = AddLevelProcArg /\ AddLevelProc)
                           \/ (pc = "f_level" /\ E.lvl = cur /\ E.arg = conf.N0 /\ FNextLevel))
FPre     == Is("Pre") /\ ln > 1 /\ pc = "level" /\ E.lvl = cur /\ E.n = dNl[cur] /\ PreCompute
FAdd     == Is("Add") /\ ((pc = "sim" /\ E.lvl = cur /\ E.idx = Nl[cur] + it /\ E.s = serial + 1 /\ SimulateOne)
                          \/ (pc = "f_sim" /\ E.lvl = cur /\ E.idx = it /\ E.s = serial + 1 /\ FSimulateOne))
            /\ pc' # "crash"
FRes     == Is("Res") /\ ((pc = "results" /\ E.Nl = FunToSeq(Nl, L + 1) /\ SetResults)
                          \/ (pc = "done" /\ E.Nl = FunToSeq(Nl, L + 1) /\ UNCHANGED vars))
FNs      == Is("Ns") /\ ((pc = "ns" /\ Len(E.ret) = L + 1 /\ ComputeNs(SeqToFun(E.ret)))
                         \/ (pc = "addlevel" /\ Len(E.ret) = L + 2 /\ AddLevelNs(SeqToFun(E.ret))))
FCrit    == Is("Crit") /\ pc = "crit" /\ Crit(E.ret)
FExt     == Is("Ext") /\ ((pc = "extend" /\ E.arg = FunToSeq(Plus(Nl, dNl), L + 1) /\ Extend)
                          \/ (pc = "f_extend" /\ E.arg = [i \in 1..(conf.LMax + 1) |-> conf.N0] /\ FExtend))

Faithful == FInit \/ FPre0 \/ FNext \/ FPre \/ FAdd \/ FRes \/ FNs \/ FCrit \/ FExt

\* a silent (unobservable, deterministic) MLMC action
SilentStep == ~fin /\ ~drifted /\ Silent /\ UNCHANGED <<tid, ln, fin, drifted, mon, mNs, mConv, mLost>>

EventStep ==
    /\ ~drifted /\ More /\ E.e \notin {"Ret", "Raise"}
    /\ ~ENABLED Silent
    /\ Faithful /\ Consume /\ MonUpdate /\ KeepCtl

\* the transcription no longer explains the code: note it once, keep monitoring
DriftStep ==
    /\ More /\ E.e \notin {"Ret", "Raise"}
    /\ IF drifted THEN TRUE
       ELSE (~ENABLED Silent /\ ~ENABLED Faithful /\ PrintT(<<"DRIFT", Id, ln, E.e, pc>>))
    /\ drifted' = TRUE /\ Consume /\ MonUpdate
    /\ UNCHANGED <<vars, tid, fin>>

(***************************************************************************)
(* Verdict at return: properties evaluated on the recorded results against *)
(* the monitor.                                                            *)
(***************************************************************************)
SumSeq(s) == FoldSeq(LAMBDA x, y : x + y, 0, s)       \* (a recursive definition overflows the Java stack on long runs)
AddsAt(k) == SelectSeq(mon, LAMBDA r : r.lvl = k)
NObs == Len(E.Nl)                      \* number of levels in the returned results
CoarseOf(s) == ((s * 7) % 5) + 1
Abs(x) == IF x < 0 THEN -x ELSE x
SumDp(k)  == SumSeq([i \in 1..Len(AddsAt(k)) |-> AddsAt(k)[i].f - AddsAt(k)[i].c])
SumDp2(k) == SumSeq([i \in 1..Len(AddsAt(k)) |-> (AddsAt(k)[i].f - AddsAt(k)[i].c) * (AddsAt(k)[i].f - AddsAt(k)[i].c)])
SumF1(k)  == SumSeq([i \in 1..Len(AddsAt(k)) |-> AddsAt(k)[i].f])
SumF2(k)  == SumSeq([i \in 1..Len(AddsAt(k)) |-> AddsAt(k)[i].f * AddsAt(k)[i].f])
LevelsObs == 0..(NObs - 1)

\* C05: reported N_l = number of samples simulated at level ln
V_NlExact == \A k \in LevelsObs : E.Nl[k + 1] = Len(AddsAt(k))
\* C05: every sample handed to the statistics is one simulated by the process of that level, its coarse
\*      component is the coupled one (identically 0 at level 0), and no simulated sample was dropped
V_SamplesGenuine ==
    /\ mLost = 0
    /\ \A i \in 1..Len(mon) : /\ mon[i].s >= 1 /\ mon[i].f = mon[i].s /\ mon[i].slvl = mon[i].lvl
                              /\ mon[i].c = (IF mon[i].lvl = 0 THEN 0 ELSE CoarseOf(mon[i].s))
    /\ \A i, j \in 1..Len(mon) : i # j => mon[i].s # mon[j].s
    \* the control variates (calls struck at 3, 7, ..) are evaluated on the sample's own fine and coarse paths
    /\ \A i \in 1..Len(mon) : \A j \in 1..Len(mon[i].xf) :
          LET K == 3 + 4 * (j - 1)
              call(x) == IF x > K THEN x - K ELSE 0
          IN /\ mon[i].xf[j] = call(mon[i].f)
             /\ mon[i].xc[j] = (IF mon[i].lvl = 0 THEN 0 ELSE call(mon[i].c))
\* C05: the arrays hold exactly those samples, each once at its own index (no placeholder, no overwrite)
V_RowsExact ==
    /\ Len(E.rows) >= NObs
    /\ \A k \in LevelsObs :
          LET a == AddsAt(k) IN
          /\ Len(E.rows[k + 1]) = Len(a)
          /\ \A i \in 1..Len(a) : a[i].idx \in 0..(Len(a) - 1) /\ \A j \in 1..Len(a) : i # j => a[i].idx # a[j].idx
          /\ \A i \in 1..Len(a) : a[i].idx + 1 <= Len(E.rows[k + 1]) =>
                  E.rows[k + 1][a[i].idx + 1] = a[i].f /\ E.crows[k + 1][a[i].idx + 1] = a[i].c
    /\ \A k \in 1..Len(mon) : mon[k].lvl \in LevelsObs
\* C05: level means / variances / cost / price are the stated functions of exactly those samples
V_StatsExact ==
    E.cv \/
    /\ \A k \in LevelsObs :
          LET n == Len(AddsAt(k)) IN
          /\ E.mlN[k + 1] = Abs(SumDp(k))
          /\ E.meanN[k + 1] = SumF1(k)
          /\ (E.vchk = 1 => /\ E.vlN[k + 1] = n * SumDp2(k) - SumDp(k) * SumDp(k)
                            /\ E.varN[k + 1] = n * SumF2(k) - SumF1(k) * SumF1(k))
          /\ E.clN[k + 1] = (k + 1) * n
          /\ E.kurt[k + 1] = E.kurt_ref[k + 1]
    /\ E.cost = SumSeq([k \in 1..NObs |-> k * Len(AddsAt(k - 1))])
    /\ (E.D > 0 => /\ \A k \in LevelsObs : Len(AddsAt(k)) > 0 /\ E.D % Len(AddsAt(k)) = 0
                   /\ E.priceD = SumSeq([k \in 1..NObs |-> (E.D \div Len(AddsAt(k - 1))) * SumDp(k - 1)]))
V_StatsWithControls == ~E.cv \/ E.cvobs = E.cvref
\* sensor guard: every recorded number that is an integer by construction was one
V_Numeric == E.bad = 0

\* C06
W_LevelBound == NObs - 1 <= H.LMax /\ \A i \in 1..Len(mon) : mon[i].lvl <= H.LMax
W_ExitOnCriteria == H.fixed \/ mConv = "T" \/ NObs - 1 = H.LMax
W_AllocationMet ==
    H.fixed \/ (/\ Len(mNs) = NObs
                /\ \A k \in LevelsObs : 100 * Max(0, mNs[k + 1] - E.Nl[k + 1]) <= E.Nl[k + 1])
W_FixedShape == ~H.fixed \/ (NObs = H.LMax + 1 /\ \A k \in LevelsObs : E.Nl[k + 1] = H.N0)

ChecksC06 == << <<"LevelBound", W_LevelBound>>, <<"ExitOnCriteria", W_ExitOnCriteria>>,
               <<"AllocationMet", W_AllocationMet>>, <<"FixedShape", W_FixedShape>> >>
\* every level of the returned result was simulated (a level without samples has no mean, variance or cost)
V_NoEmptyLevel == Len(E.empty) = 0
Checks == IF ~V_Numeric THEN << <<"Numeric", FALSE>> >> ELSE
          IF ~V_NoEmptyLevel THEN << <<"NoEmptyLevel", FALSE>> >> \o ChecksC06 ELSE
          IF ~H.ids THEN << <<"NlExact", V_NlExact>> >> \o ChecksC06 ELSE
          << <<"NlExact", V_NlExact>>, <<"SamplesGenuine", V_SamplesGenuine>>, <<"RowsExact", V_RowsExact>>,
             <<"StatsExact", V_StatsExact>>, <<"StatsWithControls", V_StatsWithControls>>,
             <<"LevelBound", W_LevelBound>>, <<"ExitOnCriteria", W_ExitOnCriteria>>,
             <<"AllocationMet", W_AllocationMet>>, <<"FixedShape", W_FixedShape>> >>
Failed == SelectSeq(Checks, LAMBDA c : ~c[2])
\* how the run ended: the results are set right before the return; before that comes the bias test (return branch) or the
\* extension of the arrays at the end of a pass (the loop condition failed: the fall-out exit)
Sig == IF H.fixed THEN "fixed" ELSE IF mConv = "T" THEN "converged"
       ELSE IF NObs - 1 = H.LMax THEN "maxlevel"
       ELSE IF ln >= 3 /\ T[ln - 2].e = "Crit" THEN "failed-test-return" ELSE "fallout"

RetStep ==
    /\ Is("Ret") /\ (drifted \/ ~ENABLED Silent)
    /\ IF Failed = <<>>
       THEN PrintT(<<"ACCEPT", Id>>)
       ELSE \A i \in 1..Len(Failed) : PrintT(<<"VIOL", Id, ln, Failed[i][1], Sig>>)
    /\ IF drifted \/ pc = "done" THEN TRUE ELSE PrintT(<<"DRIFT", Id, ln, "Ret", pc>>)
    /\ fin' = TRUE /\ Consume /\ KeepMon /\ UNCHANGED <<vars, tid, drifted>>

\* an exception escaped from the engine: no specification action explains it
RaiseStep ==
    /\ Is("Raise")
    /\ PrintT(<<"REJECT", Id, ln, "Raise", E.what>>)
    /\ fin' = TRUE /\ Consume /\ KeepMon /\ UNCHANGED <<vars, tid, drifted>>

\* a trace that ends without Ret / Raise
Truncated ==
    /\ ~fin /\ ln = Len(T) + 1
    /\ PrintT(<<"REJECT", Id, ln, "Truncated", "">>)
    /\ fin' = TRUE /\ UNCHANGED <<vars, tid, ln, drifted, mon, mNs, mConv, mLost>>

TraceNext == SilentStep \/ EventStep \/ DriftStep \/ RetStep \/ RaiseStep \/ Truncated
TraceSpec == TraceInit /\ [][TraceNext]_tvars
=============================================================================
