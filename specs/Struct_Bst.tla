--------------------------- MODULE Struct_Bst ---------------------------
(***************************************************************************)
(* Specification -> code: the construction of Bst.tla is run by TLC for   *)
(* the weight vectors the driver used (harness/drivers/struct_run.py) and  *)
(* the structure it ends with is compared with the structure of the REAL   *)
(* object built by rpylib for the same vector.  A difference is a DRIFT    *)
(* notice (the transcription and the code took different steps), not a     *)
(* verdict: the law is judged by Bst.tla (design) and Trace_Sampler.tla.   *)
(***************************************************************************)
EXTENDS Bst, Json, IOUtils, TLCExt
Lines == ndJsonDeserialize(IOEnv.TRACE_FILE)
VARIABLES tid, done
svars == <<tid, done, bvars>>
Mine == {i \in 1..Len(Lines) : Lines[i].hdr.kind = "bst"}
SInit == tid \in Mine /\ done = FALSE /\ InitFor(Lines[tid].hdr.W)
Seen == Lines[tid].ev[1]
Model == SubSeq(bst, 1, Len(W))
Compare ==
    /\ pc = "ready" /\ ~done
    /\ IF Model = Seen.bst THEN TRUE ELSE PrintT(<<"DRIFT", Lines[tid].tid, 1, "bst", Model, Seen.bst>>)
    /\ PrintT(<<"ACCEPT", Lines[tid].tid>>)
    /\ done' = TRUE /\ UNCHANGED <<tid, bvars>>
SNext == (Next /\ UNCHANGED <<tid, done>>) \/ Compare
SSpec == SInit /\ [][SNext]_svars
=============================================================================
