SPECIFICATION Spec
CONSTANT MaxLevels = 3
CONSTANT AVals <- AQuick
CONSTANT BVals <- BQuick
CONSTANT PQ <- PQs
CONSTANT vn <- Vn
CONSTANT vd <- Vd
CONSTANT bn <- Bn
CONSTANT bd <- Bd
INVARIANT Budget
INVARIANT SharesFit
INVARIANT ZeroVarianceGetsNothing
CHECK_DEADLOCK FALSE
