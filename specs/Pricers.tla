------------------------------- MODULE Pricers -------------------------------
(***************************************************************************)
(* What a vector of European prices over a ladder of strikes must satisfy  *)
(* (C18): call - put = forward contract, intrinsic value <= call <=        *)
(* discounted forward, calls decreasing and convex in the strike, digital  *)
(* = discounted probability, decreasing in the strike.                     *)
(*                                                                         *)
(* The relations are stated once, with a tolerance, as predicates over     *)
(* integer vectors (prices in quanta).  The design check establishes that  *)
(* they are the right relations: for EVERY discrete terminal law on a      *)
(* small support and every uniform ladder, the exact prices (expectations, *)
(* scaled by the total weight and by a discount factor num / den) satisfy  *)
(* them with tolerance 0.  Trace_Pricers.tla applies the same predicates   *)
(* to what the COS / FFT / closed-form pricers of rpylib return.           *)
(***************************************************************************)
EXTENDS Integers, Sequences, FiniteSets, FiniteSetsExt

CONSTANTS Support,      \* terminal values of the underlying (naturals)
          MaxWeight,    \* weights 0..MaxWeight on each point of the support
          Ladders,      \* set of uniform strike ladders (sequences of naturals)
          DfNum         \* discount factor DfNum / DfDen ...
DfDen == 4              \* ... with this denominator

VARIABLES law, lad
pvars == <<law, lad>>

Abs(x) == IF x < 0 THEN -x ELSE x
Max2(x, y) == IF x >= y THEN x ELSE y
SumOver(S, f(_)) == FoldSet(LAMBDA x, acc : acc + f(x), 0, S)

\* ---- the relations (prices in quanta; f = value of the forward contract; dF = discounted forward; dfq = discount factor)
Parity(c, p, f, tol) == \A i \in 1..Len(c) : Abs(c[i] - p[i] - f[i]) <= tol
Bounds(c, f, dF, tol) == \A i \in 1..Len(c) : c[i] >= Max2(f[i], 0) - tol /\ c[i] <= dF + tol
PutBounds(p, f, tol) == \A i \in 1..Len(p) : p[i] >= Max2(-f[i], 0) - tol
Decreasing(c, tol) == \A i \in 1..(Len(c) - 1) : c[i + 1] <= c[i] + tol
Increasing(p, tol) == \A i \in 1..(Len(p) - 1) : p[i + 1] >= p[i] - tol
Convex(c, tol) == \A i \in 1..(Len(c) - 2) : c[i] - 2 * c[i + 1] + c[i + 2] >= -tol
DigitalOK(d, dfq, tol) == /\ \A i \in 1..Len(d) : d[i] >= -tol /\ d[i] <= dfq + tol
                          /\ \A i \in 1..(Len(d) - 1) : d[i + 1] <= d[i] + tol

\* ---- exact prices under a discrete law (scaled by W * DfDen) ------------------------------------------------------------
W == SumOver(Support, LAMBDA s : law[s])
Call(k) == DfNum * SumOver(Support, LAMBDA s : law[s] * Max2(s - k, 0))
Put(k) == DfNum * SumOver(Support, LAMBDA s : law[s] * Max2(k - s, 0))
Fwd == SumOver(Support, LAMBDA s : law[s] * s)
Contract(k) == DfNum * (Fwd - k * W)
Digital(k) == DfNum * SumOver(Support, LAMBDA s : IF s > k THEN law[s] ELSE 0)
Vec(f(_)) == [i \in 1..Len(lad) |-> f(lad[i])]

ParityHolds == Parity(Vec(Call), Vec(Put), Vec(Contract), 0)
BoundsHold == Bounds(Vec(Call), Vec(Contract), DfNum * Fwd, 0) /\ PutBounds(Vec(Put), Vec(Contract), 0)
MonotoneHolds == Decreasing(Vec(Call), 0) /\ Increasing(Vec(Put), 0)
ConvexHolds == Convex(Vec(Call), 0) /\ Convex(Vec(Put), 0)
DigitalHolds == DigitalOK(Vec(Digital), DfNum * W, 0)

Init == /\ law \in [Support -> 0..MaxWeight] /\ (\E s \in Support : law[s] > 0)
        /\ lad \in Ladders
Next == UNCHANGED pvars
Spec == Init /\ [][Next]_pvars
=============================================================================
