SPECIFICATION Spec
CONSTANT MaxLevels = 3
CONSTANT AVals <- AThorough
CONSTANT BVals <- BThorough
CONSTANT PQ <- PQsThorough
CONSTANT vn <- Vn
CONSTANT vd <- Vd
CONSTANT bn <- Bn
CONSTANT bd <- Bd
INVARIANT Budget
INVARIANT SharesFit
INVARIANT ZeroVarianceGetsNothing
CHECK_DEADLOCK FALSE
