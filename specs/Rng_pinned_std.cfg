SPECIFICATION Spec
CONSTANT NWorkers = 0
CONSTANT NPaths = 3
CONSTANT NPhases = 1
CONSTANT SeedGiven = TRUE
CONSTANT SeedBeforePreDraw = FALSE
CONSTANT SeedOncePerRun = TRUE
CONSTANT SharedDeque = TRUE
INVARIANT NoSharedVariates
INVARIANT PreDrawnOnce
INVARIANT NoReseedToUsedState
INVARIANT Reproducible
CHECK_DEADLOCK FALSE
