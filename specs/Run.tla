--------------------------------- MODULE Run ---------------------------------
(***************************************************************************)
(* One multilevel pricing run seen from the samples: what the engine, the  *)
(* path manager and the statistics (montecarlo/multilevel/engine.py,       *)
(* montecarlo/path.py, montecarlo/statistic/statistic.py) must make of the *)
(* paths they are handed.  Values in lattice units, discounted payoffs in  *)
(* half units (discount factor 1/2).                                       *)
(*                                                                         *)
(* A sample of level l > 0 carries a fine and a coarse component, each     *)
(* with a deterministic, a diffusion and a jump part; its payoffs are the  *)
(* product's payoff of the terminal value of each component; a sample of   *)
(* level 0 has no coarse component and a coarse payoff 0.  Level l         *)
(* contributes the mean of (fine - coarse) over its own samples; the price *)
(* is the sum of the level means (C05).                                    *)
(***************************************************************************)
EXTENDS Integers, Sequences, FiniteSets, SequencesExt

Max2(a, b) == IF a >= b THEN a ELSE b
Pay(kind, K, s) == IF kind = "forward" THEN s - K
                   ELSE IF kind = "call" THEN Max2(s - K, 0) ELSE Max2(K - s, 0)
Terminal(smp, c) == smp.det[c] + smp.dif[c] + smp.jmp[c]
\* discounted payoffs (half units) of a sample: <<fine, coarse>>
Payoffs(kind, K, smp) == IF smp.coupled THEN <<Pay(kind, K, Terminal(smp, 1)), Pay(kind, K, Terminal(smp, 2))>>
                         ELSE <<Pay(kind, K, Terminal(smp, 1)), 0>>
\* two-dimensional processes: a component has one terminal value per dimension; the underlying is the mean of the two
\* (und = 0) or the und-th one; payoffs in quarter units (forward / call / put are positively homogeneous)
Terminal2(smp, c, j) == smp.det[c][j] + smp.dif[c][j] + smp.jmp[c][j]
Under2(und, smp, c) == IF und = 0 THEN Terminal2(smp, c, 1) + Terminal2(smp, c, 2) ELSE 2 * Terminal2(smp, c, und)
Payoffs2(kind, K, und, smp) == IF smp.coupled THEN <<Pay(kind, 2 * K, Under2(und, smp, 1)), Pay(kind, 2 * K, Under2(und, smp, 2))>>
                               ELSE <<Pay(kind, 2 * K, Under2(und, smp, 1)), 0>>
SumSeq(s) == FoldSeq(LAMBDA x, y : x + y, 0, s)
AtLevel(samples, l) == SelectSeq(samples, LAMBDA s : s.lvl = l)
LevelDiffSum(samples, l) == SumSeq([i \in 1..Len(AtLevel(samples, l)) |-> AtLevel(samples, l)[i].pay2[1] - AtLevel(samples, l)[i].pay2[2]])
LevelDiffSum4(samples, l) == SumSeq([i \in 1..Len(AtLevel(samples, l)) |-> AtLevel(samples, l)[i].pay4[1] - AtLevel(samples, l)[i].pay4[2]])
ScaledPrice4(samples, Nl, prodN) == SumSeq([l \in 1..Len(Nl) |-> LevelDiffSum4(samples, l - 1) * (prodN \div Nl[l])])
LevelFineSum(samples, l) == SumSeq([i \in 1..Len(AtLevel(samples, l)) |-> AtLevel(samples, l)[i].pay2[1]])
\* price * prod(N_l) = sum_l (level sum) * prod(N_k, k # l)
ScaledPrice(samples, Nl, prodN) == SumSeq([l \in 1..Len(Nl) |-> LevelDiffSum(samples, l - 1) * (prodN \div Nl[l])])
\* every index 0..N_l-1 of every level filled by exactly one sample
IndexedOnce(samples, Nl) ==
    \A l \in 1..Len(Nl) : LET A == AtLevel(samples, l - 1) IN
        /\ Len(A) = Nl[l]
        /\ {A[i].idx : i \in 1..Len(A)} = 0..(Nl[l] - 1)
=============================================================================
