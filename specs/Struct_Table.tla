--------------------------- MODULE Struct_Table ---------------------------
(***************************************************************************)
(* Specification -> code for the table method (variate/table.py): for the  *)
(* driver's weight vectors W (sum S) the 256-slot table is                 *)
(*   floor(256 W_i / S) copies of i, for i = 1, 2, .., then -1 up to 256,  *)
(* and the embedded alias method is the construction of Alias.tla on the   *)
(* remainders (256 W_i) mod S.  TLC runs Alias.tla on those remainders and *)
(* compares table and alias structure with the real object's (DRIFT notice *)
(* if they differ; the law is judged by Trace_Sampler.tla).                *)
(***************************************************************************)
EXTENDS Alias, Json, IOUtils, TLCExt, SequencesExt
Lines == ndJsonDeserialize(IOEnv.TRACE_FILE)
VARIABLES tid, done
svars == <<tid, done, avars>>
HW == Lines[tid].hdr.W
HS == FoldSeq(LAMBDA x, y : x + y, 0, HW)
Theta == [i \in 1..Len(HW) |-> (256 * HW[i]) % HS]
Copies(i) == (256 * HW[i]) \div HS
\* slot j (1..256) of the table
RECURSIVE OwnerFrom(_, _)
OwnerFrom(j, i) == IF i > Len(HW) THEN -1 ELSE IF j <= Copies(i) THEN i ELSE OwnerFrom(j - Copies(i), i + 1)
TableJ == [j \in 1..256 |-> OwnerFrom(j, 1)]
HasAlias == FoldSeq(LAMBDA x, y : x + y, 0, Theta) > 0
SInit == /\ tid \in 1..Len(Lines) /\ done = FALSE
         /\ IF HasAlias THEN InitFor(Theta)
            ELSE W = Theta /\ q = <<>> /\ J = <<>> /\ smaller = <<>> /\ greater = <<>> /\ pc = "ready"
Seen == Lines[tid].ev[1]
Model == <<TableJ, IF HasAlias THEN <<q, J>> ELSE <<<<>>, <<>>>>>>
SeenAll == <<Seen.table, <<Seen.q, Seen.J>>>>
Compare ==
    /\ pc = "ready" /\ ~done
    /\ IF Model = SeenAll THEN TRUE ELSE PrintT(<<"DRIFT", Lines[tid].tid, 1, "table", Model[2], SeenAll[2]>>)
    /\ PrintT(<<"ACCEPT", Lines[tid].tid>>)
    /\ done' = TRUE /\ UNCHANGED <<tid, avars>>
SNext == (Next /\ UNCHANGED <<tid, done>>) \/ Compare
SSpec == SInit /\ [][SNext]_svars
=============================================================================
