SPECIFICATION Spec
CONSTANT Paths <- PathsSmall
CONSTANT Terms <- TermsSmall
CONSTANT MaxHist = 4
CONSTANT ResetPerPath = FALSE
CONSTANT Rebind = TRUE
INVARIANT Pure
CHECK_DEADLOCK FALSE
