------------------------------ MODULE MC_Series ------------------------------
EXTENDS Series
\* pseudo-random streams of 24 numerators (affine congruences)
Stream(a, b) == [j \in 1..24 |-> (a * j + b) % 64]
StreamsAll == {Stream(a, b) : a \in {1, 7, 13, 21, 29, 37}, b \in {0, 5, 31, 50}}
CountsAll == {<<x, y>> : x \in 0..3, y \in 0..3}
DateSetsAll == {<<0, 8>>, <<0, 4, 8>>, <<0, 2, 4, 6, 8>>, <<0, 3, 6, 9, 12>>}
=============================================================================
