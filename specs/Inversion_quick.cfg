SPECIFICATION ISpec
CONSTANT Configs <- ConfigsQ
CONSTANT Restart = "rewind"
CONSTANT MaxDraws = 3
INVARIANT LawOK
INVARIANT PrefixOK
CHECK_DEADLOCK FALSE
