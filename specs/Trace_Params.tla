----------------------------- MODULE Trace_Params -----------------------------
(***************************************************************************)
(* Validation of assignment histories on real parameter objects and of the *)
(* calibration contract (harness/drivers/params_run.py) against Params.tla.*)
(***************************************************************************)
EXTENDS Integers, Sequences, FiniteSets, TLC, Json, IOUtils, TLCExt

Lines == ndJsonDeserialize(IOEnv.TRACE_FILE)
VARIABLES tid, ln, bad, fin
tvars == <<tid, ln, bad, fin>>
T == Lines[tid].ev
H == Lines[tid].hdr
Id == Lines[tid].tid
E == T[ln]
Abs(x) == IF x < 0 THEN -x ELSE x

TraceInit == tid \in 1..Len(Lines) /\ ln = 1 /\ bad = 0 /\ fin = FALSE
More == ~fin /\ ln <= Len(T)
Viol(name) == PrintT(<<"VIOL", Id, ln, name, H.kind>>)
Judge(checks) ==
    LET failed == SelectSeq(checks, LAMBDA c : ~c[2]) IN
    IF failed = <<>> THEN bad' = bad ELSE (\A i \in 1..Len(failed) : Viol(failed[i][1])) /\ bad' = bad + 1

\* pairs: <<class of the value on the mutated-then-initialised object, class of the value on the fresh object>>
\* assign: <<admissible, accepted, unchanged-if-rejected>> for every assignment of the history
RebuildStep ==
    /\ More /\ E.e = "Rebuild"
    /\ Judge(<< <<"RebuiltEqualsDirect", \A i \in 1..Len(E.pairs) : E.pairs[i][1] = E.pairs[i][2]>>,
                <<"ConstraintsEnforcedOnAssignment", \A i \in 1..Len(E.assign) : E.assign[i][1] = E.assign[i][2] /\ E.assign[i][3] = 1>> >>)
    /\ ln' = ln + 1 /\ UNCHANGED <<tid, fin>>
CalibStep ==
    /\ More /\ E.e = "Calib"
    /\ Judge(<< <<"CalibratedValueInsideInterval", E.lo <= E.res /\ E.res <= E.hi>>,
                <<"CalibratedModelReprices", Abs(E.resid) <= 100000>>,               \* relative 1e-4 (root finder / COS accuracy)
                <<"CalibrationLeavesInputUntouched", E.input_unchanged /\ E.same_type /\ E.market_same>> >>)
    /\ ln' = ln + 1 /\ UNCHANGED <<tid, fin>>
CalibRaised == More /\ E.e = "CalibRaised" /\ ln' = ln + 1 /\ UNCHANGED <<tid, fin, bad>>     \* "or raises": allowed
\* the constraint declared for a parameter decides what an assignment / a construction accepts (values in tenths)
Admissible(k, b, v) == IF k = "pos" THEN v >= b ELSE IF k = "spos" THEN v > b ELSE v < b
DomainStep ==
    /\ More /\ E.e = "Domain"
    /\ IF E.accepted = Admissible(E.ckind, E.bound10, E.v10) THEN bad' = bad
       ELSE PrintT(<<"VIOL", Id, ln, "ConstraintEnforced", H.kind>>) /\ bad' = bad + 1
    /\ ln' = ln + 1 /\ UNCHANGED <<tid, fin>>
RaiseStep ==
    /\ More /\ E.e = "Raise"
    /\ PrintT(<<"REJECT", Id, ln, "Raise", H.kind>>)
    /\ bad' = bad + 1 /\ ln' = ln + 1 /\ UNCHANGED <<tid, fin>>
Finish ==
    /\ ~fin /\ ln = Len(T) + 1
    /\ IF bad = 0 THEN PrintT(<<"ACCEPT", Id>>) ELSE TRUE
    /\ fin' = TRUE /\ UNCHANGED <<tid, ln, bad>>
TraceNext == RebuildStep \/ DomainStep \/ CalibStep \/ CalibRaised \/ RaiseStep \/ Finish
TraceSpec == TraceInit /\ [][TraceNext]_tvars
=============================================================================
