SPECIFICATION TraceSpec
CONSTANT MaxLevels = 3
CONSTANT AVals = {}
CONSTANT BVals = {}
CONSTANT PQ = {}
CONSTANT vn <- Vn
CONSTANT vd <- Vd
CONSTANT bn <- Bn
CONSTANT bd <- Bd
CHECK_DEADLOCK FALSE
