SPECIFICATION ESpec
CONSTANT NMax = 0
CONSTANT Kinds = {}
CONSTANT Intervals = {}
CONSTANT Boxes <- BoxesQ
CONSTANT StrictBound = FALSE
CONSTANT BoundFromAllStates = FALSE
INVARIANT FrontierIsLast
CHECK_DEADLOCK FALSE
