--------------------------------- MODULE Rng ---------------------------------
(***************************************************************************)
(* Randomness discipline of the two engines                                *)
(* (rpylib/montecarlo/configuration.py, standard/engine.py,                *)
(* multilevel/engine.py, process/levyprocess.py).                          *)
(*                                                                         *)
(* A generator state is <<epoch, pos>>: `epoch` identifies the seed value  *)
(* (or the ambient, unseeded state of a run), `pos` counts the variates    *)
(* consumed since.  A run consists of phases (the standard engine has one; *)
(* the multilevel engine one per level and pass).  In a phase the parent   *)
(* pre-draws one row per sample (Brownian increments / jump counts), then  *)
(* the samples are simulated - by the parent, or by forked workers which   *)
(* each receive a COPY of the parent's process object, pre-drawn deque     *)
(* included.  A sample pops the next row of its process' deque and         *)
(* consumes fresh variates from its process' generator.                    *)
(*                                                                         *)
(* The constants describe the code:                                        *)
(*   SeedBeforePreDraw  std engine seeds before the pre-computation        *)
(*   SeedOncePerRun     the seed is applied once per run, not per phase    *)
(*   SharedDeque        workers pop rows of ONE deque (no private copies)  *)
(* C08: Reproducible, NoSharedVariates, PreDrawnOnce, NoReseedToUsedState. *)
(***************************************************************************)
EXTENDS Integers, Sequences, FiniteSets, TLC

CONSTANTS NWorkers,          \* 0: single process; w >= 1: samples are simulated by workers 1..w
          NPaths, NPhases,
          SeedGiven,
          SeedBeforePreDraw, SeedOncePerRun, SharedDeque

VARIABLES run, phase, gen, rows, nextRow, used, todo, assign, seeded, consumedEpochs, reseedBad, log, pc, clock
rvars == <<run, phase, gen, rows, nextRow, used, todo, assign, seeded, consumedEpochs, reseedBad, log, pc, clock>>

Procs == 0..NWorkers
Ambient(r) == <<"ambient", r>>          \* the unseeded generator state of run r
UserSeed == <<"seed", 0>>
WorkerSeed(r, ph, w) == <<"pidclock", r, ph, w>>      \* multiprocessing: seed from pid and clock; every pool has fresh pids

Init ==
    /\ run = 1 /\ phase = 1
    /\ gen = [p \in Procs |-> <<Ambient(1), 0>>]
    /\ rows = <<>> /\ nextRow = [p \in Procs |-> 1]
    /\ used = <<>>                        \* sequence over samples: set of variates <<epoch, pos>>
    /\ todo = {} /\ assign = <<>>
    /\ seeded = FALSE /\ consumedEpochs = {} /\ reseedBad = FALSE
    /\ log = <<>>                         \* per run: sequence of variate sets (for Reproducible)
    /\ pc = IF SeedBeforePreDraw THEN "seed" ELSE "predraw"
    /\ clock = 0

Consume(p, n) == {<<gen[p][1], gen[p][2] + k>> : k \in 0..(n - 1)}

\* np.random.seed(...) in process p
DoSeed(p, epoch) ==
    /\ reseedBad' = (reseedBad \/ epoch \in consumedEpochs)
    /\ gen' = [gen EXCEPT ![p] = <<epoch, 0>>]

SeedParent ==
    /\ pc = "seed"
    /\ IF NWorkers > 0 \/ (SeedOncePerRun /\ seeded)
       THEN UNCHANGED <<gen, reseedBad>>                      \* workers seed themselves in the pool initializer
       ELSE IF SeedGiven THEN DoSeed(0, UserSeed)
            ELSE DoSeed(0, <<"pidclock", run, clock>>)        \* pid * int(time()): the same value within one second
    /\ seeded' = TRUE
    /\ pc' = IF SeedBeforePreDraw THEN "predraw" ELSE "fork"
    /\ UNCHANGED <<run, phase, rows, nextRow, used, todo, assign, consumedEpochs, log, clock>>

\* the parent pre-draws one row per sample of this phase
PreDraw ==
    /\ pc = "predraw"
    /\ rows' = [k \in 1..NPaths |-> <<gen[0][1], gen[0][2] + k - 1>>]
    /\ gen' = [gen EXCEPT ![0] = <<gen[0][1], gen[0][2] + NPaths>>]
    /\ consumedEpochs' = consumedEpochs \cup {gen[0][1]}
    /\ nextRow' = [p \in Procs |-> 1]
    /\ pc' = IF SeedBeforePreDraw THEN "fork" ELSE "seed"
    /\ UNCHANGED <<run, phase, used, todo, assign, seeded, reseedBad, log, clock>>

\* fork the pool: any assignment of the samples to the workers; each worker seeds itself; it starts from a copy of
\* the parent's generator state and of the parent's deque
Fork ==
    /\ pc = "fork"
    /\ todo' = 1..NPaths
    /\ IF NWorkers = 0
       THEN assign' = [k \in 1..NPaths |-> 0] /\ UNCHANGED <<gen, reseedBad>>
       ELSE /\ \E a \in [1..NPaths -> 1..NWorkers] : assign' = a
            /\ gen' = [p \in Procs |-> IF p = 0 THEN gen[0] ELSE <<WorkerSeed(run, phase, p), 0>>]
            /\ UNCHANGED reseedBad
    /\ pc' = "sim"
    /\ UNCHANGED <<run, phase, rows, nextRow, used, seeded, consumedEpochs, log, clock>>

\* one sample, by the process it is assigned to: pops the next row of that process' deque, consumes 2 fresh variates
Sample(s) ==
    /\ pc = "sim" /\ s \in todo
    /\ LET p == assign[s]
           d == IF SharedDeque THEN 0 ELSE p
           row == rows[nextRow[d]]
       IN /\ used' = Append(used, {row} \cup Consume(p, 2))
          /\ nextRow' = [nextRow EXCEPT ![d] = @ + 1]
          /\ gen' = [gen EXCEPT ![p] = <<gen[p][1], gen[p][2] + 2>>]
          /\ consumedEpochs' = consumedEpochs \cup {gen[p][1]}
    /\ todo' = todo \ {s}
    /\ UNCHANGED <<run, phase, rows, assign, seeded, reseedBad, log, pc, clock>>
\* chunks are simulated in index order inside a worker
InOrder(s) == \A t \in todo : assign[t] = assign[s] => s <= t

EndPhase ==
    /\ pc = "sim" /\ todo = {}
    /\ IF phase < NPhases
       THEN /\ phase' = phase + 1 /\ pc' = (IF SeedBeforePreDraw THEN "seed" ELSE "predraw")
            /\ UNCHANGED <<run, gen, used, seeded, consumedEpochs, log, reseedBad>>
       ELSE IF run = 1
            THEN /\ run' = 2 /\ phase' = 1 /\ log' = used /\ used' = <<>>
                 /\ gen' = [p \in Procs |-> <<Ambient(2), 0>>] /\ seeded' = FALSE /\ consumedEpochs' = {}
                 /\ pc' = (IF SeedBeforePreDraw THEN "seed" ELSE "predraw") /\ UNCHANGED reseedBad
            ELSE /\ pc' = "done" /\ UNCHANGED <<run, phase, gen, used, seeded, consumedEpochs, log, reseedBad>>
    /\ UNCHANGED <<rows, nextRow, todo, assign, clock>>

\* the wall clock (seconds) may or may not advance between any two steps
Tick == clock < NPhases /\ pc # "done" /\ clock' = clock + 1
        /\ UNCHANGED <<run, phase, gen, rows, nextRow, used, todo, assign, seeded, consumedEpochs, reseedBad, log, pc>>

Next == Tick \/ SeedParent \/ PreDraw \/ Fork \/ (\E s \in 1..NPaths : InOrder(s) /\ Sample(s)) \/ EndPhase
Spec == Init /\ [][Next]_rvars

-----------------------------------------------------------------------------
NoSharedVariates == \A i, j \in 1..Len(used) : i # j => used[i] \cap used[j] = {}
PreDrawnOnce == \A i, j \in 1..Len(used) : i # j =>
                   ~(\E v \in used[i] \cap used[j] : \E k \in 1..Len(rows) : rows[k] = v)
NoReseedToUsedState == ~reseedBad
\* with a seed and a single process the second run consumes exactly the variates of the first
Reproducible == (pc = "done" /\ SeedGiven /\ NWorkers = 0) => used = log
=============================================================================
