-------------------------------- MODULE Credit --------------------------------
(***************************************************************************)
(* Garreau-Kercheval default intensity of a Levy (copula) model over an    *)
(* atomic measure (rpylib/numerical/closedform/cflevymodel.py,             *)
(* cflevycopula.py) and the default-region rate of the benchmarked chain.  *)
(*   Theta(a)    = nu( union_i {x_i < a_i} )     (a_i < 0)                 *)
(*   InclExcl(a) = sum_i nu_i(x_i<a_i) - sum_{i<j} nu_ij(..) + nu_123(..)  *)
(*   DefaultRate = sum of the rates of the chain states with at least one  *)
(*                 coordinate below its threshold                          *)
(* C19: Theta = InclExcl; with thresholds on cell boundaries DefaultRate = *)
(* Theta restricted to the truncation box; Theta is increasing in each a_i.*)
(***************************************************************************)
EXTENDS Integers, Sequences, FiniteSets, TLC, SequencesExt

SumSeq(s) == FoldSeq(LAMBDA x, y : x + y, 0, s)
\* atoms: sequence of <<position tuple, weight>>
Theta(atoms, a) == SumSeq([k \in 1..Len(atoms) |-> IF \E i \in 1..Len(a) : atoms[k][1][i] < a[i] THEN atoms[k][2] ELSE 0])
Joint(atoms, a, S) == SumSeq([k \in 1..Len(atoms) |-> IF \A i \in S : atoms[k][1][i] < a[i] THEN atoms[k][2] ELSE 0])
InclExcl(atoms, a) ==
    LET d == Len(a)
        subs == SetToSeq((SUBSET (1..d)) \ {{}})
    IN SumSeq([k \in 1..Len(subs) |-> (IF Cardinality(subs[k]) % 2 = 1 THEN 1 ELSE -1) * Joint(atoms, a, subs[k])])
\* restriction of the atoms to the truncation box (lo_i, hi_i)
InBox(p, lo, hi) == \A i \in 1..Len(lo) : lo[i] < p[i] /\ p[i] < hi[i]
ThetaBox(atoms, a, lo, hi) ==
    SumSeq([k \in 1..Len(atoms) |-> IF InBox(atoms[k][1], lo, hi) /\ (\E i \in 1..Len(a) : atoms[k][1][i] < a[i]) THEN atoms[k][2] ELSE 0])
=============================================================================
