------------------------------ MODULE Inversion ------------------------------
(***************************************************************************)
(* The inversion sampler (distribution/variate/inversion.py) together with *)
(* the stateful enumeration it drives (StatesManager in pairing.py), as    *)
(* the code is written.                                                    *)
(*                                                                         *)
(* Raw indices 0, 1, .. run through the pairing function; adm[r + 1] says  *)
(* whether raw index r is an admissible state, w[r + 1] is its (integer)   *)
(* weight.  The sampler keeps the cumulative weights `cum` and the states  *)
(* `stored` of a PREFIX of the enumeration, at most `cap` long; the        *)
(* enumeration keeps a skip pointer `last` (largest raw index returned)    *)
(* and, since c8e8b57, `before` = where it stood when index `cap` was      *)
(* first asked for.  A draw u either falls into the stored prefix          *)
(* (bisection) or walks on from its end, asking the enumeration for the    *)
(* x-th admissible state with x = len(cum), len(cum) + 1, ...; when the    *)
(* prefix is full, every such walk starts again at x = cap.                *)
(*   Restart = "rewind"  the code: go back to `before`                     *)
(*   Restart = "reset"   pinned (before c8e8b57): skip pointer set to -1,  *)
(*                       so x is read as a raw index                       *)
(* Uniforms are the lattice points u = u2 / (2 S), u2 odd: u > s  <=>      *)
(* u2 > 2 s with integer cumulative weights s.                             *)
(*                                                                         *)
(* C02 for this sampler: LawOK - whatever the history of draws, a draw     *)
(* returns the state whose cumulative interval contains u; PrefixOK - the  *)
(* stored prefix is a prefix of the enumeration of the admissible states.  *)
(***************************************************************************)
EXTENDS Integers, Sequences, FiniteSets, TLC, SequencesExt

CONSTANTS Configs,      \* set of records [adm |-> Seq(BOOLEAN), w |-> Seq(Nat), cap |-> Nat \ {0}]
          Restart,
          MaxDraws

VARIABLES cfg, cum, stored, last, before, ndraws, lastU, res
ivars == <<cfg, cum, stored, last, before, ndraws, lastU, res>>

None == -2
NRaw(c) == Len(c.adm)
Adm(c) == {r \in 0..(NRaw(c) - 1) : c.adm[r + 1]}
SumW(c, R) == FoldSeq(LAMBDA x, y : x + y, 0, [i \in 1..NRaw(c) |-> IF (i - 1) \in R THEN c.w[i] ELSE 0])
Total(c) == SumW(c, Adm(c))
MinOf(S) == CHOOSE m \in S : \A y \in S : m <= y
Max2(a, b) == IF a >= b THEN a ELSE b

\* StatesManager.project_index_to_state_increment(x, max_logged = cap): <<hit, last', before'>>, hit = -1: exhausted
Project(c, x, lst, bef, withCap) ==
    LET rew == withCap /\ x = c.cap
        l1 == IF ~rew THEN lst
              ELSE IF Restart = "reset" THEN -1
              ELSE IF bef = None THEN lst ELSE bef
        b1 == IF rew /\ Restart = "rewind" /\ bef = None THEN lst ELSE bef
        xx == Max2(x, l1 + 1)
        cands == {r \in Adm(c) : r >= xx}
    IN IF cands # {} THEN <<MinOf(cands), MinOf(cands), b1>> ELSE <<-1, NRaw(c), b1>>

\* the walk beyond the stored prefix: state <<x, s, cum, stored, last, before, result>>
RECURSIVE Walk(_, _, _)
Walk(c, u2, st) ==
    IF u2 <= 2 * st[2] THEN st
    ELSE LET x == st[1] + 1
             p == Project(c, x, st[5], st[6], TRUE)
         IN IF p[1] = -1 THEN <<x, st[2], st[3], st[4], p[2], p[3], -1>>        \* exhausted: a frontier state is drawn
            ELSE LET s2 == st[2] + c.w[p[1] + 1]
                     grow == Len(st[3]) < c.cap
                 IN Walk(c, u2, <<x, s2, IF grow THEN Append(st[3], s2) ELSE st[3],
                                  IF grow THEN Append(st[4], p[1]) ELSE st[4], p[2], p[3], p[1]>>)
Bisect(cm, u2) == MinOf({i \in 1..Len(cm) : 2 * cm[i] >= u2})
\* sample_with_u: new <<cum, stored, last, before, result>>
Sample(c, u2, cm, sd, lst, bef) ==
    IF u2 > 2 * cm[Len(cm)]
    THEN LET r == Walk(c, u2, <<Len(cm) - 1, cm[Len(cm)], cm, sd, lst, bef, None>>) IN <<r[3], r[4], r[5], r[6], r[7]>>
    ELSE <<cm, sd, lst, bef, sd[Bisect(cm, u2)]>>

IInit == /\ cfg \in Configs
         /\ LET p == Project(cfg, 0, -1, None, FALSE) IN
              cum = <<cfg.w[p[1] + 1]>> /\ stored = <<p[1]>> /\ last = p[2] /\ before = p[3]
         /\ ndraws = 0 /\ lastU = 0 /\ res = None
Draw(u2) ==
    /\ ndraws < MaxDraws
    /\ LET r == Sample(cfg, u2, cum, stored, last, before) IN
         cum' = r[1] /\ stored' = r[2] /\ last' = r[3] /\ before' = r[4] /\ res' = r[5]
    /\ lastU' = u2 /\ ndraws' = ndraws + 1 /\ UNCHANGED cfg
INext == \E i \in 0..(Total(cfg) - 1) : Draw(2 * i + 1)
ISpec == IInit /\ [][INext]_ivars

\* the state the law asks for: cumulative interval (in the order of the admissible raw indices) containing u
Target(c, u2) == MinOf({r \in Adm(c) : 2 * SumW(c, {q \in Adm(c) : q <= r}) >= u2})
LawOK == ndraws > 0 => res = Target(cfg, lastU)
FirstAdm(c, n) == {r \in Adm(c) : Cardinality({q \in Adm(c) : q < r}) < n}
PrefixOK == /\ Len(cum) = Len(stored) /\ Len(cum) >= 1 /\ Len(cum) <= Max2(cfg.cap, 1)
            /\ {stored[i] : i \in 1..Len(stored)} = FirstAdm(cfg, Len(stored))
            /\ \A i \in 1..Len(stored) : cum[i] = SumW(cfg, {q \in Adm(cfg) : q <= stored[i]})
            /\ \A i \in 1..(Len(stored) - 1) : stored[i] < stored[i + 1]
=============================================================================
