---------------------------- MODULE Trace_Sampler ----------------------------
(***************************************************************************)
(* Trace validation of real samplers against SamplerLaw (C02).             *)
(* One trace = one sampler object.  hdr.W = integer target weights of the  *)
(* states (index 1..K; the origin / unreachable states have weight 0),     *)
(* hdr.N = lattice size.  Events carry draws (i, k): lattice point i       *)
(* (u = (2i+1)/(2N)) returned state index k (0 = a state outside the       *)
(* table: outside the grid, unknown label).                                *)
(*   Hist  - draws in arbitrary order with repetitions                     *)
(*   Sweep - every lattice point once                                      *)
(* Verdicts: NeverZeroWeight, HistoryIndependent (memo never contradicted),*)
(* ExactLaw (after a sweep: count_k * S = N * W_k, within hdr.slack        *)
(* lattice points for the table method's 2^-24 discretisation).            *)
(***************************************************************************)
EXTENDS Integers, Sequences, FiniteSets, TLC, Json, IOUtils, TLCExt

Lines == ndJsonDeserialize(IOEnv.TRACE_FILE)
VARIABLES tid, ln, bad, fin, memo
tvars == <<tid, ln, bad, fin, memo>>
T == Lines[tid].ev
H == Lines[tid].hdr
Id == Lines[tid].tid
E == T[ln]
RECURSIVE SumSeq(_)
SumSeq(s) == IF s = <<>> THEN 0 ELSE Head(s) + SumSeq(Tail(s))
W == H.W
K == Len(W)
S == SumSeq(W)
Abs(x) == IF x < 0 THEN -x ELSE x

\* memo[i + 1] = state index returned for lattice point i, 0 while not drawn yet
TraceInit == tid \in 1..Len(Lines) /\ ln = 1 /\ bad = 0 /\ fin = FALSE /\ memo = [i \in 1..Lines[tid].hdr.N |-> 0]
More == ~fin /\ ln <= Len(T)
Viol(name) == PrintT(<<"VIOL", Id, ln, name, H.method>>)

\* Hist: parallel sequences E.is (lattice points, any order, repetitions) and E.ks (state indices)
\* Sweep: E.ks[i + 1] is the state returned for lattice point i (the driver sorts the draws by lattice point)
Sweep == E.e = "Sweep"
ValidStates == \A j \in 1..Len(E.ks) : E.ks[j] \in 1..K /\ W[E.ks[j]] > 0
PointOf(j) == IF Sweep THEN j ELSE E.is[j] + 1
AgreesWithMemo == \A j \in 1..Len(E.ks) : memo[PointOf(j)] = 0 \/ memo[PointOf(j)] = E.ks[j]
SelfConsistent == Sweep \/ \A j, m \in 1..Len(E.is) : E.is[j] = E.is[m] => E.ks[j] = E.ks[m]
NewMemo == IF Sweep THEN E.ks
           ELSE [i \in 1..H.N |-> IF \E j \in 1..Len(E.is) : E.is[j] + 1 = i
                                  THEN E.ks[CHOOSE j \in 1..Len(E.is) : E.is[j] + 1 = i] ELSE memo[i]]
CountIn(ks, k) == Cardinality({j \in 1..Len(ks) : ks[j] = k})
LawExact == /\ Len(E.ks) = H.N
            /\ \A k \in 1..K : Abs(CountIn(E.ks, k) * S - H.N * W[k]) <= H.slack * S

Judge(checks) ==
    LET failed == SelectSeq(checks, LAMBDA c : ~c[2]) IN
    IF failed = <<>> THEN bad' = bad ELSE (\A i \in 1..Len(failed) : Viol(failed[i][1])) /\ bad' = bad + 1

DrawStep ==
    /\ More /\ E.e \in {"Hist", "Sweep"}
    /\ Judge(<< <<"NeverZeroWeight", ValidStates>>,
                <<"HistoryIndependent", AgreesWithMemo /\ SelfConsistent>>,
                <<"ExactLaw", E.e # "Sweep" \/ ~ValidStates \/ LawExact>> >>)
    /\ memo' = IF SelfConsistent /\ (~Sweep \/ Len(E.ks) = H.N) THEN NewMemo ELSE memo
    /\ ln' = ln + 1 /\ UNCHANGED <<tid, fin>>

RaiseStep ==
    /\ More /\ E.e = "Raise"
    /\ PrintT(<<"REJECT", Id, ln, "Raise", H.method>>)
    /\ bad' = bad + 1 /\ ln' = ln + 1 /\ UNCHANGED <<tid, fin, memo>>

Finish ==
    /\ ~fin /\ ln = Len(T) + 1
    /\ IF bad = 0 THEN PrintT(<<"ACCEPT", Id>>) ELSE TRUE
    /\ fin' = TRUE /\ UNCHANGED <<tid, ln, bad, memo>>

TraceNext == DrawStep \/ RaiseStep \/ Finish
TraceSpec == TraceInit /\ [][TraceNext]_tvars
=============================================================================
