SPECIFICATION Spec
CONSTANT Dim = 3
INVARIANT InclusionExclusion
INVARIANT Monotone
CHECK_DEADLOCK FALSE
