-------------------------------- MODULE StdMC --------------------------------
(***************************************************************************)
(* The standard Monte-Carlo engine (rpylib/montecarlo/standard/engine.py): *)
(* bookkeeping of the simulated paths and textbook statistics on integer   *)
(* data.                                                                   *)
(*   Simulate(i) / Store(i): path i is simulated, its discounted,          *)
(*   notional-scaled payoff is written at index i of the statistics array. *)
(* C07: Exactly n rows, row i holds path i's payoff (each path once);      *)
(*      price = mean; error^2 = unbiased variance / n (per component);     *)
(*      one control variate: adjusted mean = raw mean when the control's   *)
(*      sample mean equals its price, adjusted variance <= raw variance.   *)
(***************************************************************************)
EXTENDS Integers, Sequences, FiniteSets, TLC

CONSTANTS NMax, Alphabet       \* number of paths 1..NMax, payoff values from Alphabet

VARIABLES n, ys, xs, rows, i, pc
svars == <<n, ys, xs, rows, i, pc>>

RECURSIVE SumSeq(_)
SumSeq(s) == IF s = <<>> THEN 0 ELSE Head(s) + SumSeq(Tail(s))
Sq(s) == [k \in 1..Len(s) |-> s[k] * s[k]]
Mul(s, t) == [k \in 1..Len(s) |-> s[k] * t[k]]

Init == /\ n \in 1..NMax
        /\ ys \in [1..n -> Alphabet] /\ xs \in [1..n -> Alphabet]
        /\ rows = [k \in 1..n |-> -1]          \* np.empty
        /\ i = 1 /\ pc = "sim"
Store == /\ pc = "sim" /\ i <= n
         /\ rows' = [rows EXCEPT ![i] = ys[i]]
         /\ i' = i + 1 /\ UNCHANGED <<n, ys, xs, pc>>
Finish == /\ pc = "sim" /\ i = n + 1 /\ pc' = "done" /\ UNCHANGED <<n, ys, xs, rows, i>>
Next == Store \/ Finish
Spec == Init /\ [][Next]_svars

RowsExact == pc = "done" => rows = ys
\* statistics as integers:  price * n = SumY;  error^2 * n^2 (n-1) = n SumY2 - SumY^2
SumY == SumSeq(ys)
ErrNum == n * SumSeq(Sq(ys)) - SumY * SumY
ErrNonNeg == ErrNum >= 0
\* one control X with price P = mean(X):  b = Bnum / Bden
Bnum == n * SumSeq(Mul(xs, ys)) - SumSeq(xs) * SumY
Bden == n * SumSeq(Sq(xs)) - SumSeq(xs) * SumSeq(xs)
\* adjusted sample times Bden * n
Adj(k) == ys[k] * Bden * n - Bnum * (n * xs[k] - SumSeq(xs))
AdjMeanIsRawMean == Bden > 0 => SumSeq([k \in 1..n |-> Adj(k)]) = SumY * Bden * n
\* variance of the adjusted samples (times (Bden n)^2 n^2) does not exceed the raw one
AdjVarNoLarger == Bden > 0 =>
    LET a == [k \in 1..n |-> Adj(k)] IN
    n * SumSeq(Sq(a)) - SumSeq(a) * SumSeq(a) <= ErrNum * Bden * Bden * n * n
=============================================================================
