SPECIFICATION Spec
CONSTANT Dims <- DimsQ
CONSTANT Shapes <- ShapesQ
CONSTANT K = 3
CONSTANT Shared <- BOOLEAN
CONSTANT MidRule = "arith"
CONSTANT InPlace = TRUE
INVARIANT WellFormed
INVARIANT NestedNow
INVARIANT HalvesAndDoubles
PROPERTY Nesting
CHECK_DEADLOCK FALSE
