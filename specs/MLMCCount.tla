------------------------------ MODULE MLMCCount ------------------------------
(***************************************************************************)
(* Counter abstraction of the adaptive multilevel loop (engine.py) for an  *)
(* UNBOUNDED number of passes and UNBOUNDED sample sizes: per level only   *)
(* the counters are kept -                                                 *)
(*   Nl[l]    samples counted,   dNl[l]  samples asked for the next pass,  *)
(*   len[l]   length of the sample array,  real[l]  rows holding a real    *)
(*   sample (the others are zero padding).                                 *)
(* TLC explores MLMC.tla (rows with identities) within small bounds; here  *)
(* Apalache proves an INDUCTIVE invariant, hence for every run length:     *)
(*   RowsExact   at every point of the run real[l] = Nl[l], and at return  *)
(*               len[l] = Nl[l]: no padding row is ever counted (C05);     *)
(*   NoCrash     a pass never writes beyond the end of an array.           *)
(* NewCounter = 0 is the code after ebda4a9; with 1 (pinned) the invariant *)
(* is not inductive.                                                       *)
(***************************************************************************)
EXTENDS Integers

CONSTANTS
    \* @type: Int;
    LMax,
    \* @type: Int;
    NewCounter

VARIABLES
    \* @type: Int;
    L,
    \* @type: Int -> Int;
    Nl,
    \* @type: Int -> Int;
    dNl,
    \* @type: Int -> Int;
    len,
    \* @type: Int -> Int;
    real,
    \* @type: Str;
    pc

Levels == 0..LMax
Max2(a, b) == IF a >= b THEN a ELSE b

\* @type: (Int -> Int) => Bool;
NonNeg(f) == \A l \in Levels : f[l] >= 0

Init ==
    \E l0 \in Levels, n0 \in Nat :
        /\ n0 >= 1
        /\ L = l0
        /\ Nl = [l \in Levels |-> 0]
        /\ dNl = [l \in Levels |-> IF l <= l0 THEN n0 ELSE 0]
        /\ len = [l \in Levels |-> IF l <= l0 THEN n0 ELSE 0]
        /\ real = [l \in Levels |-> 0]
        /\ pc = "pass"

\* one pass over the levels 0..L: dNl[l] new samples are written at the indices Nl[l] .. Nl[l] + dNl[l] - 1
Pass ==
    /\ pc = "pass"
    /\ real' = [l \in Levels |-> IF l <= L THEN real[l] + dNl[l] ELSE real[l]]
    /\ Nl' = [l \in Levels |-> IF l <= L THEN Nl[l] + dNl[l] ELSE Nl[l]]
    /\ pc' = "ns"
    /\ UNCHANGED <<L, dNl, len>>

\* the allocation asks for any sample sizes: any non-negative deficits
ComputeNs ==
    /\ pc = "ns"
    /\ \E d \in [Levels -> Nat] : dNl' = [l \in Levels |-> IF l <= L THEN d[l] ELSE 0]
    /\ pc' = "test"
    /\ UNCHANGED <<L, Nl, len, real>>

OnePercent == \A l \in Levels : l <= L => 100 * dNl[l] <= Nl[l]

\* statistics.extend(Nl + dNl): arrays grow (zero padded) to the sizes the next pass needs
Extended == [l \in Levels |-> IF l <= L THEN Max2(len[l], Nl[l] + dNl[l]) ELSE len[l]]

Continue ==
    /\ pc = "test" /\ ~OnePercent
    /\ len' = Extended
    /\ pc' = "pass"
    /\ UNCHANGED <<L, Nl, dNl, real>>

Return ==
    /\ pc = "test" /\ OnePercent
    /\ pc' = "done"
    /\ UNCHANGED <<L, Nl, dNl, len, real>>

\* not converged: a level is added with its counter at NewCounter and any deficit, then the arrays are extended
AddLevel ==
    /\ pc = "test" /\ OnePercent /\ L < LMax
    /\ \E d \in [Levels -> Nat] :
          LET L2 == L + 1
              N2 == [l \in Levels |-> IF l = L2 THEN NewCounter ELSE Nl[l]]
              D2 == [l \in Levels |-> IF l <= L2 THEN d[l] ELSE 0]
          IN /\ L' = L2 /\ Nl' = N2 /\ dNl' = D2
             /\ len' = [l \in Levels |-> IF l <= L2 THEN Max2(len[l], N2[l] + D2[l]) ELSE len[l]]
    /\ pc' = "pass"
    /\ UNCHANGED real

Next == Pass \/ ComputeNs \/ Continue \/ Return \/ AddLevel

\* ---- properties ---------------------------------------------------------------------------------------------------
RowsExact == \A l \in Levels : real[l] = Nl[l]
NoCrash == pc = "pass" => \A l \in Levels : l <= L => Nl[l] + dNl[l] <= len[l]
NoPaddingAtReturn == pc = "done" => \A l \in Levels : l <= L => len[l] = Nl[l]

\* ---- inductive invariant ------------------------------------------------------------------------------------------
TypeOK ==
    /\ L \in Levels
    /\ Nl \in [Levels -> Int] /\ dNl \in [Levels -> Int] /\ len \in [Levels -> Int] /\ real \in [Levels -> Int]
    /\ pc \in {"pass", "ns", "test", "done"}
IndInv ==
    /\ TypeOK
    /\ NonNeg(Nl) /\ NonNeg(dNl) /\ NonNeg(len) /\ NonNeg(real)
    /\ RowsExact
    /\ \A l \in Levels : l > L => (Nl[l] = 0 /\ dNl[l] = 0 /\ len[l] = 0)
    \* arrays hold exactly the counted samples, plus the room of the coming pass
    /\ \A l \in Levels : l <= L => len[l] = Nl[l] + (IF pc = "pass" THEN dNl[l] ELSE 0)
Safety == RowsExact /\ NoCrash /\ NoPaddingAtReturn
=============================================================================
