----------------------------- MODULE Trace_Copula -----------------------------
(***************************************************************************)
(* Validation of the real Levy copulas (harness/drivers/copula_run.py)     *)
(* against Copula.tla.                                                     *)
(*  exact traces: every recorded value, volume and margin equals the value *)
(*    of the transcription (reduced fractions);                            *)
(*  thin traces (Clayton, theta # 1): the table of values quantised to     *)
(*    1e-7 is grounded, every lattice rectangle has a volume >= -slack and *)
(*    every one-dimensional margin is the identity within the slack; the   *)
(*    conditional distribution is non-decreasing from 0 to 1 and its       *)
(*    stated inverse inverts it.                                           *)
(***************************************************************************)
EXTENDS Copula, Json, IOUtils, TLCExt

Lines == ndJsonDeserialize(IOEnv.TRACE_FILE)
VARIABLES tid, ln, bad, fin
tvars == <<tid, ln, bad, fin, cvars>>
T == Lines[tid].ev
H == Lines[tid].hdr
Id == Lines[tid].tid
E == T[ln]
HEta == <<H.eta[1], H.eta[2]>>

TraceInit == /\ tid \in 1..Len(Lines) /\ ln = 1 /\ bad = 0 /\ fin = FALSE
             /\ kind = "" /\ eta = <<0, 1>> /\ dim = 0
More == ~fin /\ ln <= Len(T)
Viol(name) == PrintT(<<"VIOL", Id, ln, name, H.kind>>)
Judge(checks) ==
    LET failed == SelectSeq(checks, LAMBDA c : ~c[2]) IN
    IF failed = <<>> THEN bad' = bad ELSE (\A i \in 1..Len(failed) : Viol(failed[i][1])) /\ bad' = bad + 1
Same(v, r) == v[2] # 0 /\ <<v[1], v[2]>> = r

TableStep ==
    /\ More /\ E.e = "Table"
    /\ Judge(<< <<"CopulaValue", \A i \in 1..Len(E.tab) : Same(E.tab[i][2], F(H.cop, HEta, E.tab[i][1]))>> >>)
    /\ ln' = ln + 1 /\ UNCHANGED <<tid, fin, cvars>>
OpOK(o) == IF o.op = "vol" THEN Same(o.v, Volume(H.cop, HEta, o.a, o.b))
           ELSE Same(o.v, Margin1(H.cop, HEta, H.d, o.k, o.x)) /\ <<o.v[1], o.v[2]>> = RInt(o.x)
OpsStep ==
    /\ More /\ E.e = "Ops"
    /\ Judge(<< <<"VolumeAndMarginOperators", \A i \in 1..Len(E.ops) : OpOK(E.ops[i])>>,
                <<"DIncreasing", \A i \in 1..Len(E.ops) : E.ops[i].op # "vol" \/ E.ops[i].v[1] >= 0>> >>)
    /\ ln' = ln + 1 /\ UNCHANGED <<tid, fin, cvars>>
\* Clayton, theta = 1, d = 2: F(x | eps) = 1 - eta + (1 + |eps / x|)^(-2) (eta - [x < 0])          (eps >= 0)
\*                                        eta + (1 + |eps / x|)^(-2) ([x >= 0] - eta)               (eps < 0)
Cond1Model(e, x) ==
    LET r == RAdd(ROne, <<AbsI(e), AbsI(x)>>)
        w == RInv(RMul(r, r))
    IN IF e >= 0 THEN RAdd(RSub(ROne, HEta), RMul(w, RSub(HEta, IF x < 0 THEN ROne ELSE RZero)))
       ELSE RAdd(HEta, RMul(w, RSub(IF x >= 0 THEN ROne ELSE RZero, HEta)))
Cond1Step ==
    /\ More /\ E.e = "Cond1"
    /\ Judge(<< <<"ConditionalDistribution", \A i \in 1..Len(E.cs) : Same(E.cs[i][3], Cond1Model(E.cs[i][1], E.cs[i][2]))>> >>)
    /\ ln' = ln + 1 /\ UNCHANGED <<tid, fin, cvars>>

\* ---- thin --------------------------------------------------------------------------------------------------------
Slack == 12
N == E.n
TLat == H.lat
\* index of a lattice point (tuple of 1-based positions) in the flat table (row-major)
RECURSIVE FlatIx(_, _)
FlatIx(p, k) == IF k = 0 THEN 0 ELSE FlatIx(p, k - 1) * N + (p[k] - 1)
Val(p) == E.flat[FlatIx(p, H.d) + 1]
Pos == [1..H.d -> 1..N]
AllInfP(p) == \A i \in 1..H.d : IsInf(TLat[p[i]])
GroundedQ == \A p \in Pos : (\E i \in 1..H.d : TLat[p[i]] = 0) => Val(p) = 0
VolQ(a, b) ==
    LET cs == [1..H.d -> {0, 1}]
        RECURSIVE Acc(_)
        Acc(S) == IF S = {} THEN 0
                  ELSE LET c == CHOOSE c \in S : TRUE
                           v == Val([i \in 1..H.d |-> IF c[i] = 0 THEN a[i] ELSE b[i]])
                           na == Cardinality({i \in 1..H.d : c[i] = 0})
                       IN (IF na % 2 = 0 THEN v ELSE -v) + Acc(S \ {c})
    IN Acc(cs)
DIncreasingQ == \A a \in Pos : \A b \in Pos :
    ((\A i \in 1..H.d : a[i] < b[i]) /\ (\E j \in 1..H.d : ~IsInf(TLat[a[j]]) /\ ~IsInf(TLat[b[j]]))) => VolQ(a, b) >= -Slack
MarginQ(k, xi) ==
    LET others == [((1..H.d) \ {k}) -> {1, N}]
        RECURSIVE Acc(_)
        Acc(S) == IF S = {} THEN 0
                  ELSE LET o == CHOOSE o \in S : TRUE
                           v == Val([i \in 1..H.d |-> IF i = k THEN xi ELSE o[i]])
                           neg == Cardinality({i \in DOMAIN o : o[i] = 1})
                       IN (IF neg % 2 = 0 THEN v ELSE -v) + Acc(S \ {o})
    IN Acc(others)
UniformMarginsQ == \A k \in 1..H.d : \A xi \in 2..(N - 1) :
                      LET d == MarginQ(k, xi) - TLat[xi] * 10000000 IN d <= Slack /\ -d <= Slack
TableQStep ==
    /\ More /\ E.e = "TableQ"
    /\ Judge(<< <<"Grounded", TLat[1] = -INF /\ TLat[N] = INF /\ GroundedQ>>,
                <<"DIncreasing", DIncreasingQ>>,
                <<"UniformMargins", UniformMarginsQ>> >>)
    /\ ln' = ln + 1 /\ UNCHANGED <<tid, fin, cvars>>
CondRowOK(r) == /\ \A i \in 1..(Len(r.vals) - 1) : r.vals[i] <= r.vals[i + 1] + 1
                \* ... also through the point x = 0 itself
                /\ \A i \in 1..(Len(r.vz) - 1) : r.vz[i] <= r.vz[i + 1] + 1
                /\ \A i \in 1..Len(r.vz) : r.vz[i] >= -1 /\ r.vz[i] <= E.one + 1
                /\ \A i \in 1..Len(r.vals) : r.vals[i] >= -1 /\ r.vals[i] <= E.one + 1
                \* the limits at -infinity and +infinity are 0 and 1
                /\ r.lim[1] = 0 /\ r.lim[2] = 10000
\* the inverse is judged where the conditional distribution is strictly increasing (for eta = 0 or 1 it is flat on one side)
\* (well separated from both neighbours, 1e-5, so that the inversion is well conditioned in floating point)
StrictAt(r, i) == (i = 1 \/ r.vals[i - 1] + 100 < r.vals[i]) /\ (i = Len(r.vals) \/ r.vals[i] + 100 < r.vals[i + 1])
CondRowInv(r) == \A i \in 1..Len(r.back) : StrictAt(r, i) => (r.back[i] >= 999900 /\ r.back[i] <= 1000100)
CondQStep ==
    /\ More /\ E.e = "CondQ"
    /\ Judge(<< <<"ConditionalDistribution", \A i \in 1..Len(E.rows) : CondRowOK(E.rows[i])>>,
                <<"InverseConditionalDistribution", \A i \in 1..Len(E.rows) : CondRowInv(E.rows[i])>> >>)
    /\ ln' = ln + 1 /\ UNCHANGED <<tid, fin, cvars>>
\* the stated mixed derivative: row = <<stated, difference quotient, difference quotient * prod u>> (1e-6 of the larger;
\* accepted within 2e-3: the difference quotient is the reference).  The property (and the docstring) say "mixed partial
\* derivative times the product of the arguments"; the code returns the mixed partial derivative itself, which is what its
\* only caller integrates (known finding C11-mixed-derivative-convention).  Anything else - in particular a wrong sign in
\* the mixed orthants, repaired in rpylib - is reported under the trace's own signature.
AbsI2(x) == IF x < 0 THEN -x ELSE x
Literal(rows) == \A i \in 1..Len(rows) : AbsI2(rows[i][1] - rows[i][3]) <= 2000
AsBuilt(rows) == \A i \in 1..Len(rows) : AbsI2(rows[i][1] - rows[i][2]) <= 2000
DerivStep ==
    /\ More /\ E.e = "Deriv"
    /\ IF Literal(E.rows) THEN bad' = bad
       ELSE /\ PrintT(<<"VIOL", Id, ln, "MixedDerivativeTimesArguments",
                         IF AsBuilt(E.rows) THEN "convention:derivative-itself" ELSE H.kind>>)
            /\ bad' = bad + 1
    /\ ln' = ln + 1 /\ UNCHANGED <<tid, fin, cvars>>
RaiseStep ==
    /\ More /\ E.e = "Raise"
    /\ PrintT(<<"REJECT", Id, ln, "Raise", H.kind>>)
    /\ bad' = bad + 1 /\ ln' = ln + 1 /\ UNCHANGED <<tid, fin, cvars>>
Finish ==
    /\ ~fin /\ ln = Len(T) + 1
    /\ IF bad = 0 THEN PrintT(<<"ACCEPT", Id>>) ELSE TRUE
    /\ fin' = TRUE /\ UNCHANGED <<tid, ln, bad, cvars>>
TraceNext == TableStep \/ OpsStep \/ Cond1Step \/ TableQStep \/ CondQStep \/ DerivStep \/ RaiseStep \/ Finish
TraceSpec == TraceInit /\ [][TraceNext]_tvars
=============================================================================
