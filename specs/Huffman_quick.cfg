SPECIFICATION Spec
CONSTANT MaxLen = 4
CONSTANT MaxSum = 6
INVARIANT ExactLaw
INVARIANT NeverZeroWeight
INVARIANT TreeWellFormed
CHECK_DEADLOCK FALSE
