SPECIFICATION Spec
CONSTANT MaxLen = 2
CONSTANT MaxSum = 2
CONSTANT LatticeFactor = 2
INVARIANT ExactLaw
INVARIANT NeverZeroWeight
INVARIANT NeverOverShare
CHECK_DEADLOCK FALSE
