---------------------------- MODULE Trace_Exponent ----------------------------
(***************************************************************************)
(* C10, thin half: recorded values of the real characteristic exponents    *)
(* and cumulant classes (harness/drivers/exponent_run.py) next to the      *)
(* Levy-Khintchine integral / the moments of the model's own density under *)
(* the representation the model declares.  Values are quantised on the     *)
(* row's own scale (1e-7 of max(1, |reference|)); a row is accepted when   *)
(* real and imaginary parts agree within Tol quanta.                       *)
(***************************************************************************)
EXTENDS Integers, Sequences, TLC, Json, IOUtils, TLCExt

Lines == ndJsonDeserialize(IOEnv.TRACE_FILE)
VARIABLES tid, ln, bad, fin
tvars == <<tid, ln, bad, fin>>
T == Lines[tid].ev
H == Lines[tid].hdr
Id == Lines[tid].tid
E == T[ln]
Tol == 20                      \* 2e-6 of max(1, |reference|)
Abs(x) == IF x < 0 THEN -x ELSE x

TraceInit == tid \in 1..Len(Lines) /\ ln = 1 /\ bad = 0 /\ fin = FALSE
More == ~fin /\ ln <= Len(T)
Judge(checks) ==
    LET failed == SelectSeq(checks, LAMBDA c : ~c[2]) IN
    IF failed = <<>> THEN bad' = bad
    ELSE (\A i \in 1..Len(failed) : PrintT(<<"VIOL", Id, ln, failed[i][1], H.kind>>)) /\ bad' = bad + 1

\* row = <<argument id, Re code, Im code, Re reference, Im reference>>
ExponentStep ==
    /\ More /\ E.e = "Exponent"
    /\ Judge(<< <<"ExponentIsLevyKhintchine",
                    \A i \in 1..Len(E.rows) : /\ Abs(E.rows[i][2] - E.rows[i][4]) <= Tol
                                              /\ Abs(E.rows[i][3] - E.rows[i][5]) <= Tol>> >>)
    /\ ln' = ln + 1 /\ UNCHANGED <<tid, fin>>
\* row = <<order, cumulant / t, reference>>
CumulantStep ==
    /\ More /\ E.e = "Cumulant"
    /\ Judge(<< <<"CumulantsAreDerivatives",
                    \A i \in 1..Len(E.rows) : Abs(E.rows[i][2] - E.rows[i][3]) <= Tol>> >>)
    /\ ln' = ln + 1 /\ UNCHANGED <<tid, fin>>
\* row = <<side chosen with the mass of the half-line (1 / 0), tail of the measure beyond the jump (relative to its side),
\*         the uniform's complement>> in units of 1e-9
JumpLawStep ==
    /\ More /\ E.e = "JumpLaw"
    /\ Judge(<< <<"JumpIncrementFollowsTheMeasure",
                    \A i \in 1..Len(E.rows) : E.rows[i][1] = 1 /\ Abs(E.rows[i][2] - E.rows[i][3]) <= 50>> >>)
    /\ ln' = ln + 1 /\ UNCHANGED <<tid, fin>>
RaiseStep ==
    /\ More /\ E.e = "Raise"
    /\ PrintT(<<"REJECT", Id, ln, "Raise", H.kind>>)
    /\ bad' = bad + 1 /\ ln' = ln + 1 /\ UNCHANGED <<tid, fin>>
Finish ==
    /\ ~fin /\ ln = Len(T) + 1
    /\ IF bad = 0 THEN PrintT(<<"ACCEPT", Id>>) ELSE TRUE
    /\ fin' = TRUE /\ UNCHANGED <<tid, ln, bad>>
TraceNext == ExponentStep \/ CumulantStep \/ JumpLawStep \/ RaiseStep \/ Finish
TraceSpec == TraceInit /\ [][TraceNext]_tvars
=============================================================================
