SPECIFICATION Spec
CONSTANT Confs <- ConfsSim
CONSTANT RecordScript = TRUE
INVARIANT EmitScript
CHECK_DEADLOCK FALSE
