--------------------------- MODULE Trace_CopulaMass ---------------------------
(***************************************************************************)
(* Validation of the real LevyCopulaModel.mass / _mass_nd / _mass_2d /     *)
(* _mass_3d / margin masses / marginal tail integrals over an atomic model *)
(* (harness/drivers/copmass_run.py) against CopulaMass.tla.                *)
(***************************************************************************)
EXTENDS CopulaMass, Json, IOUtils, TLCExt

Lines == ndJsonDeserialize(IOEnv.TRACE_FILE)
VARIABLES tid, ln, bad, fin
tvars == <<tid, ln, bad, fin>>
T == Lines[tid].ev
H == Lines[tid].hdr
Id == Lines[tid].tid
E == T[ln]

TraceInit == tid \in 1..Len(Lines) /\ ln = 1 /\ bad = 0 /\ fin = FALSE
More == ~fin /\ ln <= Len(T)
HasZeroEnd == \E i \in 1..Len(E.a) : E.a[i] = 0 \/ E.b[i] = 0
Sig == IF HasZeroEnd THEN "zeroend" ELSE H.kind
Viol(name) == PrintT(<<"VIOL", Id, ln, name, Sig>>)

\* one rectangle: the recorded masses through each route all equal the direct atomic sum
RectStep ==
    /\ More /\ E.e = "Rect"
    /\ LET want == MassRect(H.atoms, E.idx, E.a, E.b)
           ok == E.bad = 0 /\ \A k \in 1..Len(E.m) : E.m[k] = want
       IN IF ok THEN bad' = bad ELSE Viol("MassIsMeasureOfRectangle") /\ bad' = bad + 1
    /\ ln' = ln + 1 /\ UNCHANGED <<tid, fin>>
\* additivity along an axis on the RECORDED numbers: m(whole) = m(left) + m(right)
SplitStep ==
    /\ More /\ E.e = "Split"
    /\ IF E.bad = 0 /\ E.whole = E.left + E.right /\ E.whole >= 0 /\ E.left >= 0 /\ E.right >= 0
       THEN bad' = bad ELSE PrintT(<<"VIOL", Id, ln, "Additive", IF E.at = 0 THEN "zeroend" ELSE H.kind>>) /\ bad' = bad + 1
    /\ ln' = ln + 1 /\ UNCHANGED <<tid, fin>>
\* marginal tail integral U_i(x) (with its cache, in recorded call order)
TailStep ==
    /\ More /\ E.e = "Tail"
    /\ IF E.bad = 0 /\ E.u = TailInt(H.atoms, <<E.i>>, <<E.x>>)
       THEN bad' = bad ELSE PrintT(<<"VIOL", Id, ln, "MarginalTailIntegral", H.kind>>) /\ bad' = bad + 1
    /\ ln' = ln + 1 /\ UNCHANGED <<tid, fin>>
\* REAL copulas over real margins, numbers quantised to 1e-7 (thin clauses, slack in quanta)
Abs(x) == IF x < 0 THEN -x ELSE x
Tol == 30
RealStep ==
    /\ More /\ E.e = "Real"
    /\ LET checks == IF E.sub = "rect"
                     THEN << <<"NonNegative", E.nd >= -Tol /\ E.fast >= -Tol>>,
                             <<"FastPathAgrees", Abs(E.nd - E.fast) <= Tol>>,
                             <<"Additive", E.split = 0 \/ (Abs(E.fast - E.left - E.right) <= Tol /\ E.left >= -Tol /\ E.right >= -Tol)>>,
                             <<"MarginConsistency", E.hasmarg = 0 \/ Abs(E.fast - E.marg) <= Tol>> >>
                     ELSE << <<"InverseTailIntegral", Abs(E.back - E.x) <= Tol /\ E.sidepos = E.invpos>> >>
           failed == SelectSeq(checks, LAMBDA c : ~c[2])
       IN IF failed = <<>> THEN bad' = bad
          ELSE (\A i \in 1..Len(failed) : PrintT(<<"VIOL", Id, ln, failed[i][1], H.kind>>)) /\ bad' = bad + 1
    /\ ln' = ln + 1 /\ UNCHANGED <<tid, fin>>
RaiseStep ==
    /\ More /\ E.e = "Raise"
    /\ PrintT(<<"REJECT", Id, ln, "Raise", H.kind>>)
    /\ bad' = bad + 1 /\ ln' = ln + 1 /\ UNCHANGED <<tid, fin>>
Finish ==
    /\ ~fin /\ ln = Len(T) + 1
    /\ IF bad = 0 THEN PrintT(<<"ACCEPT", Id>>) ELSE TRUE
    /\ fin' = TRUE /\ UNCHANGED <<tid, ln, bad>>
TraceNext == RectStep \/ SplitStep \/ TailStep \/ RealStep \/ RaiseStep \/ Finish
TraceSpec == TraceInit /\ [][TraceNext]_tvars
=============================================================================
