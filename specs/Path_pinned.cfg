SPECIFICATION Spec
CONSTANT Maturity = 8
CONSTANT MaxJumps = 3
CONSTANT EpsVals = {1, 2, 3, 5, 8, 9}
CONSTANT ApplyToMaturity = FALSE
INVARIANT RefinedOK
CHECK_DEADLOCK FALSE
