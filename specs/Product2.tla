------------------------------ MODULE Product2 ------------------------------
(***************************************************************************)
(* The multi-asset underlyings and the rate payoffs of rpylib/product as   *)
(* pure functions of the terminal values of the path, over exact           *)
(* rationals (C17, the classes Product.tla does not cover):                *)
(*   underlyings  Mean, Performances, MaximumOfPerformances, NthSpot,      *)
(*                Indicators, Libors                                       *)
(*   payoffs      Rainbow, FixedCoupon, Bond, Cap, Ratchet, Swaption       *)
(*                (and Forward / Vanilla on the scalar underlyings)        *)
(* A term is a record [und, pay, ...]; S is the sequence of terminal       *)
(* values (rationals) of the d components of the path.                     *)
(***************************************************************************)
EXTENDS Rationals, FiniteSets, TLC

Last(s) == s[Len(s)]
Rev(s) == [i \in 1..Len(s) |-> s[Len(s) + 1 - i]]
CumProd(s) == [i \in 1..Len(s) |-> QProd(SubSeq(s, 1, i))]
Pos(r) == QMax(r, QZero)

\* ---- underlyings -----------------------------------------------------------------------------------------------
Perf(S, s0) == [i \in 1..Len(S) |-> QDiv(S[i], s0[i])]
MaxQ(s) == Last(QSort(s))
Und(t, S) ==
    CASE t.und = "Mean"    -> <<QDiv(QSum(S), QInt(Len(S)))>>
      [] t.und = "Perf"    -> Perf(S, t.s0)
      [] t.und = "MaxPerf" -> <<MaxQ(Perf(S, t.s0))>>
      [] t.und = "NthSpot" -> <<S[t.index]>>
      [] t.und = "Indic"   -> <<IF \A i \in 1..Len(S) : QLt(t.thr[i], S[i]) THEN QOne ELSE QZero>>
      [] t.und = "Libors"  -> S
      [] OTHER -> S

\* ---- payoffs ---------------------------------------------------------------------------------------------------
Accr(t, L) == [i \in 1..Len(L) |-> QAdd(QOne, QMul(t.deltas[i], L[i]))]            \* 1 + delta_i L_i
Factor(t) == QDiv(QOne, QProd(Accr(t, t.L0)))                                       \* terminal-measure factor
RECURSIVE Coupons(_, _, _)
\* ratchet coupons: c_k = min(max(delta_k (L_k + spread), c_{k-1}), c_{k-1} + increment)
Coupons(t, L, prev) ==
    IF L = <<>> THEN <<>>
    ELSE LET k == Len(t.deltas) - Len(L) + 1
             aux == QMul(t.deltas[k], QAdd(Head(L), t.spread))
             c == QMin(QMax(aux, prev), QAdd(prev, t.incr))
         IN <<c>> \o Coupons(t, Tail(L), c)
Pay(t, x) ==
    CASE t.pay = "Forward"  -> QSub(x[1], t.k)
      [] t.pay = "Call"     -> Pos(QSub(x[1], t.k))
      [] t.pay = "Put"      -> Pos(QSub(t.k, x[1]))
      [] t.pay = "Coupon"   -> t.k
      [] t.pay = "Identity" -> x[1]
      \* weights are given from the best performance to the worst one
      [] t.pay = "Rainbow"  -> LET srt == QSort(x)
                                   v == QSum([i \in 1..Len(x) |-> QMul(Rev(t.w)[i], srt[i])])
                               IN Pos(QMul(QInt(t.eps), QSub(v, t.k)))
      [] t.pay = "Bond"     -> QMul(QProd(Accr(t, x)), Factor(t))
      [] t.pay = "Cap"      -> LET adj == Rev(CumProd(Accr(t, x))) IN
                               QMul(QSum([i \in 1..Len(x) |-> QMul(QMul(t.deltas[i], Pos(QSub(x[i], t.k))), adj[i])]), Factor(t))
      [] t.pay = "Swaption" -> LET aux == CumProd(Accr(t, x))
                                   payer == QSub(QSub(Last(aux), QOne), QMul(t.k, QSum([i \in 1..Len(x) |-> QMul(t.deltas[i], Rev(aux)[i])])))
                               IN QMul(Pos(QMul(QInt(t.eps), payer)), Factor(t))
      [] t.pay = "Ratchet"  -> LET adj == Rev(CumProd(Accr(t, x)))
                                   c == Coupons(t, x, t.first)
                               IN QSum([i \in 1..Len(x) |-> QMul(QSub(c[i], QMul(t.deltas[i], QAdd(QMul(t.gear, x[i]), t.margin))), adj[i])])
      [] OTHER -> QZero
Value(t, S) == QMul(t.notional, Pay(t, Und(t, S)))

\* ---- static identities, checked by TLC over small sets of rates / strikes ------------------------------------------
CONSTANTS RateVals, StrikeVals, MaxRates
VARIABLES L, K
ivars == <<L, K>>
RateSeqs == UNION {[1..n -> RateVals] : n \in 1..MaxRates}
Init == L \in RateSeqs /\ K \in StrikeVals
Spec == Init /\ [][FALSE]_ivars
Half == <<1, 2>>
RT(pay, eps) == [und |-> "Libors", pay |-> pay, k |-> K, eps |-> eps, notional |-> QOne,
                 deltas |-> [i \in 1..Len(L) |-> Half], L0 |-> [i \in 1..Len(L) |-> QZero]]
BondIsProductOfAccruals == Pay(RT("Bond", 1), L) = QProd([i \in 1..Len(L) |-> QAdd(QOne, QMul(Half, L[i]))])
\* payer - receiver = the underlying swap
SwaptionParity == LET aux == CumProd(Accr(RT("Swaption", 1), L))
                      swap == QSub(QSub(Last(aux), QOne), QMul(K, QSum([i \in 1..Len(L) |-> QMul(Half, Rev(aux)[i])])))
                  IN QSub(Pay(RT("Swaption", 1), L), Pay(RT("Swaption", -1), L)) = swap
CapNonNegative == QLeq(QZero, Pay(RT("Cap", 1), L))
CapDecreasingInStrike == \A k2 \in StrikeVals : QLeq(K, k2) =>
                             QLeq(Pay([RT("Cap", 1) EXCEPT !.k = k2], L), Pay(RT("Cap", 1), L))
\* best-of / worst-of rainbows are vanillas on the extreme performance
RainbowExtremes ==
    LET n == Len(L)
        best == [und |-> "Perf", pay |-> "Rainbow", k |-> K, eps |-> 1, notional |-> QOne, s0 |-> [i \in 1..n |-> QOne],
                 w |-> [i \in 1..n |-> IF i = 1 THEN QOne ELSE QZero]]
    IN Pay(best, L) = Pos(QSub(MaxQ(L), K))
=============================================================================
