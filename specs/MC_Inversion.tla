----------------------------- MODULE MC_Inversion -----------------------------
EXTENDS Inversion
\* admissibility patterns of length 2..5 whose raw index 0 may or may not be admissible and whose last index is
\* (the loop bound is the largest admissible index); at least two admissible states
Pats(n) == {p \in [1..n -> BOOLEAN] : p[n] /\ Cardinality({i \in 1..n : p[i]}) >= 2}
WKinds == {[i \in 1..5 |-> 1], [i \in 1..5 |-> 1 + (i % 2)], <<2, 1, 1, 3, 1>>}
ConfigsQ == {[adm |-> p, w |-> SubSeq(wk, 1, Len(p)), cap |-> k] : p \in UNION {Pats(n) : n \in 2..5}, wk \in WKinds, k \in 1..4}
ConfigsSmall == {[adm |-> p, w |-> SubSeq(wk, 1, Len(p)), cap |-> k] : p \in Pats(4), wk \in WKinds, k \in 1..3}
=============================================================================
