SPECIFICATION FairSpec
CONSTANT Confs <- ConfsLive
CONSTANT RecordScript = FALSE
PROPERTY Termination
CHECK_DEADLOCK FALSE
