------------------------------ MODULE Trace_Rng ------------------------------
(***************************************************************************)
(* Validation of observed pricing runs (harness/drivers/rng_run.py)        *)
(* against the C08 properties of Rng.tla.  One trace = the same pricing    *)
(* run executed twice.  Events, in the order the parent process saw them:  *)
(*   Run(n)     start of run n                                             *)
(*   PreDraw    the parent pre-drew rows (generator fingerprint fp0 -> fp1)*)
(*   Sample     one simulated sample: process, fingerprint before / after, *)
(*              the pre-drawn rows it popped (deque id, row), hash of its  *)
(*              values, np.random.seed calls since the previous sample of  *)
(*              its process (value, fingerprint of the seeded state)       *)
(*   Bulk       all samples of one very long pass, condensed (value hashes,  *)
(*              row identities, start states of consuming samples)         *)
(*   Results    price of run 1 and run 2 (rank-encoded)                    *)
(* A generator state that "has produced samples" is one from which an      *)
(* earlier PreDraw / Sample started consuming.                             *)
(***************************************************************************)
EXTENDS Integers, Sequences, FiniteSets, TLC, Json, IOUtils, TLCExt, SequencesExt

Lines == ndJsonDeserialize(IOEnv.TRACE_FILE)
VARIABLES tid, ln, bad, fin, run, samples, starts, prev
tvars == <<tid, ln, bad, fin, run, samples, starts, prev>>
T == Lines[tid].ev
H == Lines[tid].hdr
Id == Lines[tid].tid
E == T[ln]

TraceInit == /\ tid \in 1..Len(Lines) /\ ln = 1 /\ bad = 0 /\ fin = FALSE
             /\ run = 0 /\ samples = <<>> /\ starts = {} /\ prev = <<>>
More == ~fin /\ ln <= Len(T)
Viol(name) == PrintT(<<"VIOL", Id, ln, name, H.kind>>)
Judge(checks) ==
    LET failed == SelectSeq(checks, LAMBDA c : ~c[2]) IN
    IF failed = <<>> THEN bad' = bad ELSE (\A i \in 1..Len(failed) : Viol(failed[i][1])) /\ bad' = bad + 1

RunStep ==
    /\ More /\ E.e = "Run"
    /\ run' = E.n /\ prev' = (IF E.n = 2 THEN samples ELSE prev) /\ samples' = <<>> /\ starts' = {}
    /\ ln' = ln + 1 /\ UNCHANGED <<tid, fin, bad>>

\* a seed call must not put the generator into a state from which variates were already consumed in this run
SeedsOK(ss) == \A i \in 1..Len(ss) : ss[i][2] \notin starts
Consumes(e) == e.fp0 # e.fp1

PreDrawStep ==
    /\ More /\ E.e = "PreDraw"
    /\ Judge(<< <<"NoReseedToUsedState", SeedsOK(E.seeds)>> >>)
    /\ starts' = IF Consumes(E) THEN starts \cup {E.fp0} ELSE starts
    /\ ln' = ln + 1 /\ UNCHANGED <<tid, fin, run, samples, prev>>

RowsOf(s) == {s.rows[k] : k \in 1..Len(s.rows)}
SampleStep ==
    /\ More /\ E.e = "Sample"
    /\ Judge(<< <<"NoReseedToUsedState", SeedsOK(E.seeds)>>,
                \* its own variates: no earlier sample of this run has the same values or started from the same state
                \* (equal values that come from one and the same pre-drawn row are the PreDrawnOnce violation, reported there)
                <<"NoSharedVariates", \A i \in 1..Len(samples) :
                      /\ (samples[i].vh # E.vh \/ RowsOf(samples[i]) \cap RowsOf(E) # {})
                      /\ ((Consumes(E) /\ Consumes(samples[i])) => samples[i].fp0 # E.fp0)>>,
                <<"PreDrawnOnce", \A i \in 1..Len(samples) : RowsOf(samples[i]) \cap RowsOf(E) = {}>>,
                \* the sample consumed by the statistics is the one that was simulated (values unchanged on the way)
                <<"SampleArrivesAsSimulated", E.vh = E.vh_sim>> >>)
    /\ samples' = Append(samples, E)
    /\ starts' = IF Consumes(E) THEN starts \cup {E.fp0} ELSE starts
    /\ ln' = ln + 1 /\ UNCHANGED <<tid, fin, run, prev>>

SeedsStep ==
    /\ More /\ E.e = "Seeds"
    /\ Judge(<< <<"NoReseedToUsedState", SeedsOK(E.seeds)>> >>)
    /\ ln' = ln + 1 /\ UNCHANGED <<tid, fin, run, samples, starts, prev>>

\* one pass with very many samples, condensed: distinctness is decided on the sets
SetOf(s) == {s[i] : i \in 1..Len(s)}
BulkStep ==
    /\ More /\ E.e = "Bulk"
    /\ Judge(<< <<"RunsComplete", E.n = E.want>>,
                <<"NoReseedToUsedState", Len(E.seeds) = 0>>,
                <<"NoSharedVariates", Cardinality(SetOf(E.vh)) = E.n /\ Cardinality(SetOf(E.fp0)) = Len(E.fp0)>>,
                <<"PreDrawnOnce", Cardinality(SetOf(E.rows)) = E.nrows /\ Len(E.rows) = E.nrows>> >>)
    /\ ln' = ln + 1 /\ UNCHANGED <<tid, fin, run, samples, starts, prev>>

Hashes(s) == [i \in 1..Len(s) |-> s[i].vh]
ResultsStep ==
    /\ More /\ E.e = "Results"
    /\ Judge(<< <<"Reproducible", ~(H.seeded /\ H.single) \/ (E.prices[1] = E.prices[2] /\ Hashes(prev) = Hashes(samples))>>,
                <<"RunsComplete", Len(prev) > 0 /\ Len(prev) = Len(samples)>> >>)
    /\ ln' = ln + 1 /\ UNCHANGED <<tid, fin, run, samples, starts, prev>>

RaiseStep ==
    /\ More /\ E.e = "Raise"
    /\ PrintT(<<"REJECT", Id, ln, "Raise", H.kind>>)
    /\ bad' = bad + 1 /\ ln' = ln + 1 /\ UNCHANGED <<tid, fin, run, samples, starts, prev>>
Finish ==
    /\ ~fin /\ ln = Len(T) + 1
    /\ IF bad = 0 THEN PrintT(<<"ACCEPT", Id>>) ELSE TRUE
    /\ fin' = TRUE /\ UNCHANGED <<tid, ln, bad, run, samples, starts, prev>>
TraceNext == RunStep \/ PreDrawStep \/ SampleStep \/ SeedsStep \/ BulkStep \/ ResultsStep \/ RaiseStep \/ Finish
TraceSpec == TraceInit /\ [][TraceNext]_tvars
=============================================================================
