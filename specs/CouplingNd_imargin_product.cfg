SPECIFICATION Spec
CONSTANT Halfs = {1}
CONSTANT MaxLevel = 2
CONSTANT Rule = "imargin"
CONSTANT WeightKind = "product"
CONSTANT Seeds = {0, 1, 2}
INVARIANT Telescoping
INVARIANT CornersPartition
INVARIANT Locality
CHECK_DEADLOCK FALSE
