SPECIFICATION Spec
CONSTANT Shapes <- ShapesQ
CONSTANT Dims = {1, 2}
CONSTANT Levels = 1
INVARIANT Tiling
INVARIANT StateInOwnCell
INVARIANT SumRatesIsIntensity
INVARIANT BoundariesOK
CHECK_DEADLOCK FALSE
