SPECIFICATION Spec
CONSTANT Halfs = {1}
CONSTANT MaxLevel = 2
CONSTANT Rule = "cell"
CONSTANT WeightKind = "skew"
CONSTANT Seeds = {0, 1, 2, 3}
INVARIANT Telescoping
INVARIANT CornersPartition
INVARIANT Locality
CHECK_DEADLOCK FALSE
