------------------------------- MODULE Huffman -------------------------------
(***************************************************************************)
(* Huffman-tree sampler (distribution/variate/huffmantree.py) as written.  *)
(*                                                                         *)
(* Heap: `nodes` sorted by decreasing value (stable), `vals` = the values  *)
(* in increasing order.  pop(): nodes.pop() takes the SMALLEST node but    *)
(* vals.pop() drops the LARGEST value, so after the first pop `vals` no    *)
(* longer mirrors `nodes`; insert(): position by bisect_left in `vals`,    *)
(* node inserted at len(vals) - position (counted after the insertion).    *)
(* Both are transcribed as they are: the tree need not be the optimal      *)
(* Huffman tree.  What C02 needs is that ANY tree built this way samples   *)
(* the exact law: an internal node's value is the sum of its children and  *)
(* every state is exactly one leaf.                                        *)
(*                                                                         *)
(* A tree is <<"L", state, value>> or <<"I", value, left, right>>.         *)
(* Draw with u: at an internal node go left if u < value(left), else       *)
(* subtract value(left) and go right.  Lattice uniforms u = (2i+1)/(4S)    *)
(* against values w/S:  compare 2i+1 with 4w.                              *)
(***************************************************************************)
EXTENDS Integers, Sequences, FiniteSets, TLC, SequencesExt

CONSTANTS MaxLen, MaxSum
SumSeq(s) == FoldSeq(LAMBDA x, y : x + y, 0, s)
Vectors == UNION {{w \in [1..n -> 0..MaxSum] : SumSeq(w) \in 1..MaxSum} : n \in 2..MaxLen}

VARIABLES W, nodes, vals, pc
hvars == <<W, nodes, vals, pc>>

Val(t) == IF t[1] = "L" THEN t[3] ELSE t[2]
\* stable sort by decreasing value: insert each leaf after all nodes whose value is >= its own
InsertDesc(s, t) == LET k == Cardinality({i \in 1..Len(s) : Val(s[i]) >= Val(t)}) IN
                    SubSeq(s, 1, k) \o <<t>> \o SubSeq(s, k + 1, Len(s))
RECURSIVE SortDesc(_, _)
SortDesc(acc, rest) == IF rest = <<>> THEN acc ELSE SortDesc(InsertDesc(acc, Head(rest)), Tail(rest))
\* note: InsertDesc after all >= keeps the original order among equals only if values arrive in index order: they do
Leaves(w) == [k \in 1..Len(w) |-> <<"L", k, w[k]>>]

InitFor(w) ==
        /\ W = w
        /\ nodes = SortDesc(<<>>, Leaves(w))
        /\ vals = Reverse([i \in 1..Len(w) |-> Val(SortDesc(<<>>, Leaves(w))[i])])
        /\ pc = "build"
Init == \E w \in Vectors : InitFor(w)

\* one iteration of create_huffman_tree
Merge ==
    /\ pc = "build"
    /\ Len(nodes) >= 2
    /\ LET n == Len(nodes)
           n1 == nodes[n]
           n2 == nodes[n - 1]
           rest == SubSeq(nodes, 1, n - 2)
           v2 == SubSeq(vals, 1, Len(vals) - 2)          \* two pops from the END of the increasing list
           t == <<"I", Val(n1) + Val(n2), n1, n2>>
           pos == Cardinality({i \in 1..Len(v2) : v2[i] < Val(t)})       \* bisect_left (0-based position)
           v3 == SubSeq(v2, 1, pos) \o <<Val(t)>> \o SubSeq(v2, pos + 1, Len(v2))
           at == Len(v3) - pos                                            \* 0-based index for list.insert
           at2 == IF at > Len(rest) THEN Len(rest) ELSE at                \* list.insert clamps
       IN /\ nodes' = SubSeq(rest, 1, at2) \o <<t>> \o SubSeq(rest, at2 + 1, Len(rest))
          /\ vals' = v3
          /\ pc' = IF Len(rest) + 1 = 1 THEN "ready" ELSE "build"
    /\ UNCHANGED W
Next == Merge
Spec == Init /\ [][Next]_hvars

S == SumSeq(W)
N == 2 * S
\* descent with the scaled uniform x (u = x / (4S)); values scale by 4
RECURSIVE Descend(_, _)
Descend(t, x) == IF t[1] = "L" THEN t[2]
                 ELSE IF x < 4 * Val(t[3]) THEN Descend(t[3], x) ELSE Descend(t[4], x - 4 * Val(t[3]))
DrawOf(i) == Descend(nodes[1], 2 * i + 1)
CountOf(k) == Cardinality({i \in 0..(N - 1) : DrawOf(i) = k})
ExactLaw == pc = "ready" => \A k \in 1..Len(W) : CountOf(k) * S = N * W[k]
NeverZeroWeight == pc = "ready" => \A i \in 0..(N - 1) : W[DrawOf(i)] > 0
\* structure: every state is exactly one leaf, an internal value is the sum of its children, root value = S
RECURSIVE LeafStates(_)
LeafStates(t) == IF t[1] = "L" THEN <<t[2]>> ELSE LeafStates(t[3]) \o LeafStates(t[4])
RECURSIVE SumsOK(_)
SumsOK(t) == t[1] = "L" \/ (t[2] = Val(t[3]) + Val(t[4]) /\ SumsOK(t[3]) /\ SumsOK(t[4]))
TreeWellFormed == pc = "ready" => /\ Len(nodes) = 1 /\ Val(nodes[1]) = S /\ SumsOK(nodes[1])
                                  /\ Len(LeafStates(nodes[1])) = Len(W)
                                  /\ {LeafStates(nodes[1])[i] : i \in 1..Len(W)} = 1..Len(W)
\* the tree as a nested structure of states only (for comparison with the real object)
RECURSIVE Shape(_)
Shape(t) == IF t[1] = "L" THEN t[2] ELSE <<Shape(t[3]), Shape(t[4])>>
=============================================================================
