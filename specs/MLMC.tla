-------------------------------- MODULE MLMC --------------------------------
(***************************************************************************)
(* The adaptive multilevel Monte-Carlo loop of                             *)
(* rpylib/montecarlo/multilevel/engine.py (Engine.price) and its           *)
(* fixed-level variant (price_with_constant_mc_paths_and_level), one       *)
(* action per step of the code that changes the abstract state.            *)
(*                                                                         *)
(* Abstract state: the level counter L, the per-level counters Nl / dNl,   *)
(* the per-level statistics arrays (rows), whose entries are sample        *)
(* identifiers <<level, serial>>, Pad (np.pad zero rows) or Junk           *)
(* (np.empty rows), the number of coupling processes created so far, and   *)
(* the control state.  The environment (the injected ConvergenceCriteria)  *)
(* chooses the optimal-sample-size vectors and the answers of the bias     *)
(* test.                                                                   *)
(*                                                                         *)
(* Properties (C05, C06):                                                  *)
(*   RowsExact, MidRunRows, NoCrash        - C05                           *)
(*   LevelBound, ExitOnlyOnCriteria, ReturnMeetsAllocation, Termination    *)
(*                                          - C06                           *)
(***************************************************************************)
EXTENDS Integers, Sequences, FiniteSets, TLC

CONSTANTS Confs,       \* set of configurations [L0, N0, LMax, NsVals, fixed, newCounter]
          RecordScript \* TRUE: keep the history variable `script` (behaviour export); FALSE: leave it empty

VARIABLES conf,        \* the configuration of this run (never changes)
          L,           \* current top level
          Nl,          \* [0..L -> Nat]   samples accounted for per level
          dNl,         \* [0..L -> Nat]   samples to add in the next pass
          rows,        \* [0..K -> Seq(Entry)]  the statistics arrays (K+1 statistics levels exist)
          nproc,       \* number of coupling processes created (levels 0..nproc-1)
          serial,      \* number of samples simulated so far
          pc, cur, it, \* control: program counter, level being simulated, iteration inside the level
          why,         \* how the run ended
          lastNs,      \* the last optimal-sample-size vector returned by the environment
          lastConv,    \* the last answer of the bias test
          script       \* history: the environment's choices (used to replay behaviours into the code)

vars == <<conf, L, Nl, dNl, rows, nproc, serial, pc, cur, it, why, lastNs, lastConv, script>>
view == <<conf, L, Nl, dNl, rows, nproc, pc, cur, it, why, lastNs, lastConv>>

Rec(x) == IF RecordScript THEN Append(script, x) ELSE script
Pad  == <<-1, 0>>
Junk == <<-2, 0>>
IsReal(e) == e[1] >= 0

Max(a, b) == IF a >= b THEN a ELSE b
RECURSIVE SumF(_, _)
SumF(f, S) == IF S = {} THEN 0 ELSE LET x == CHOOSE x \in S : TRUE IN f[x] + SumF(f, S \ {x})
Levels == 0..L

PadTo(s, n) == IF Len(s) >= n THEN s ELSE s \o [i \in 1..(n - Len(s)) |-> Pad]
Plus(f, g) == [l \in DOMAIN f |-> f[l] + g[l]]
Deficit(ns, n) == [l \in DOMAIN n |-> Max(0, ns[l] - n[l])]

(***************************************************************************)
(* Initial state: Engine.initialisation has created statistics for levels  *)
(* 0..L0 with N0 np.empty rows each.                                       *)
(***************************************************************************)
InitWith(c) ==
    /\ conf = c
    /\ L = c.L0
    /\ Nl = [l \in 0..c.L0 |-> 0]
    /\ dNl = [l \in 0..c.L0 |-> c.N0]
    /\ rows = [l \in 0..c.L0 |-> [i \in 1..c.N0 |-> Junk]]
    /\ nproc = 1
    /\ serial = 0
    /\ pc = IF c.fixed THEN "f_extend" ELSE "loop"
    /\ cur = 0 /\ it = 0
    /\ why = "none"
    /\ lastNs = [l \in 0..c.L0 |-> 0]
    /\ lastConv = FALSE
    /\ script = <<>>

Init == \E c \in Confs : InitWith(c)

(***************************************************************************)
(* while np.sum(dNl) > 0                                                   *)
(***************************************************************************)
LoopTest ==
    /\ pc = "loop"
    /\ IF SumF(dNl, Levels) > 0
       THEN pc' = "level" /\ cur' = 0 /\ why' = why
       ELSE pc' = "done" /\ why' = "fallout" /\ cur' = cur
    /\ UNCHANGED <<conf, L, Nl, dNl, rows, nproc, serial, it, lastNs, lastConv, script>>

(* lazily create the coupling process of level cur by next_level(Nl[cur]) *)
EnsureProcess ==
    /\ pc = "level" /\ cur > 0 /\ nproc < cur + 1
    /\ nproc' = nproc + 1
    /\ UNCHANGED <<conf, L, Nl, dNl, rows, serial, pc, cur, it, why, lastNs, lastConv, script>>
EnsureProcessArg == Nl[cur]

(* pre_computation(mc_paths = dNl[cur]) *)
PreCompute ==
    /\ pc = "level" /\ (cur = 0 \/ nproc >= cur + 1)
    /\ pc' = "sim" /\ it' = 0
    /\ UNCHANGED <<conf, L, Nl, dNl, rows, nproc, serial, cur, why, lastNs, lastConv, script>>

(* one iteration of compute_level_l: statistics.add(Nl[cur] + it, cur, sample) *)
SimulateOne ==
    /\ pc = "sim" /\ it < dNl[cur]
    /\ IF cur \in DOMAIN rows /\ Nl[cur] + it + 1 <= Len(rows[cur])
       THEN /\ rows' = [rows EXCEPT ![cur][Nl[cur] + it + 1] = <<cur, serial + 1>>]
            /\ serial' = serial + 1 /\ it' = it + 1 /\ pc' = pc
       ELSE /\ pc' = "crash" /\ UNCHANGED <<rows, serial, it>>     \* IndexError in the code
    /\ UNCHANGED <<conf, L, Nl, dNl, nproc, cur, why, lastNs, lastConv, script>>

(* Nl[level] += dNl[level]; next level or leave the for loop *)
Accumulate ==
    /\ pc = "sim" /\ it = dNl[cur]
    /\ Nl' = [Nl EXCEPT ![cur] = @ + dNl[cur]]
    /\ IF cur < L THEN cur' = cur + 1 /\ pc' = "level" ELSE cur' = cur /\ pc' = "results"
    /\ UNCHANGED <<conf, L, dNl, rows, nproc, serial, it, why, lastNs, lastConv, script>>

(* statistics.set_mlmc_results(Nl, sum_cost): reads the whole arrays *)
SetResults ==
    /\ pc = "results"
    /\ pc' = "ns"
    /\ UNCHANGED <<conf, L, Nl, dNl, rows, nproc, serial, cur, it, why, lastNs, lastConv, script>>

(* Ns = compute_mc_paths(rmse, vl, cl); dNl = max(0, Ns - Nl) *)
ComputeNs(ns) ==
    /\ pc = "ns"
    /\ DOMAIN ns = Levels
    /\ lastNs' = ns
    /\ dNl' = Deficit(ns, Nl)
    /\ pc' = "test"
    /\ script' = Rec(<<"Ns", [i \in 1..(L + 1) |-> ns[i - 1]]>>)
    /\ UNCHANGED <<conf, L, Nl, rows, nproc, serial, cur, it, why, lastConv>>

OnePercent == \A l \in Levels : 100 * dNl[l] <= Nl[l]

(* if np.sum(dNl[dNl > 0.01 * Nl]) == 0 *)
Test ==
    /\ pc = "test"
    /\ pc' = IF OnePercent THEN "crit" ELSE "extend"
    /\ UNCHANGED <<conf, L, Nl, dNl, rows, nproc, serial, cur, it, why, lastNs, lastConv, script>>

(* has_converged = criteria(alpha, ml, rmse); if has_converged or L == level_max: return *)
Crit(c) ==
    /\ pc = "crit"
    /\ lastConv' = c
    /\ script' = Rec(<<"Conv", c>>)
    /\ IF c \/ L = conf.LMax
       THEN pc' = "done" /\ why' = (IF c THEN "converged" ELSE "maxlevel")
       ELSE pc' = "addlevel" /\ why' = why
    /\ UNCHANGED <<conf, L, Nl, dNl, rows, nproc, serial, cur, it, lastNs>>

(* L += 1; Nl = append(Nl, newCounter); Ns = compute_mc_paths(...); dNl = max(0, Ns - Nl) *)
AddLevelNs(ns) ==
    /\ pc = "addlevel"
    /\ DOMAIN ns = 0..(L + 1)
    /\ L' = L + 1
    /\ Nl' = [l \in 0..(L + 1) |-> IF l <= L THEN Nl[l] ELSE conf.newCounter]
    /\ lastNs' = ns
    /\ dNl' = Deficit(ns, Nl')
    /\ pc' = "addproc"
    /\ script' = Rec(<<"Ns", [i \in 1..(L + 2) |-> ns[i - 1]]>>)
    /\ UNCHANGED <<conf, rows, nproc, serial, cur, it, why, lastConv>>

(* next_process.next_level(dNl[-1], ...); ml_processes.append(next_process) *)
AddLevelProc ==
    /\ pc = "addproc"
    /\ nproc' = nproc + 1
    /\ pc' = "extend"
    /\ UNCHANGED <<conf, L, Nl, dNl, rows, serial, cur, it, why, lastNs, lastConv, script>>
AddLevelProcArg == dNl[L]

(* statistics.extend(Nl + dNl): new statistics levels start with 0 rows; np.pad with zeros *)
ExtendTo(target) ==
    [l \in DOMAIN target |-> PadTo(IF l \in DOMAIN rows THEN rows[l] ELSE <<>>, target[l])]
Extend ==
    /\ pc = "extend"
    /\ rows' = ExtendTo(Plus(Nl, dNl))
    /\ pc' = "loop"
    /\ UNCHANGED <<conf, L, Nl, dNl, nproc, serial, cur, it, why, lastNs, lastConv, script>>

(***************************************************************************)
(* Fixed-level variant: extend([mc]*(LMax+1)); for level in 0..LMax:       *)
(* next_level (level > 0); simulate mc samples at indices 0..mc-1.         *)
(***************************************************************************)
FExtend ==
    /\ pc = "f_extend"
    /\ L' = conf.LMax
    /\ rows' = [l \in 0..conf.LMax |-> PadTo(IF l \in DOMAIN rows THEN rows[l] ELSE <<>>, conf.N0)]
    /\ Nl' = [l \in 0..conf.LMax |-> 0]
    /\ dNl' = [l \in 0..conf.LMax |-> conf.N0]
    /\ lastNs' = [l \in 0..conf.LMax |-> conf.N0]
    /\ pc' = "f_level" /\ cur' = 0
    /\ UNCHANGED <<conf, nproc, serial, it, why, lastConv, script>>

FNextLevel ==
    /\ pc = "f_level" /\ cur > 0 /\ nproc < cur + 1
    /\ nproc' = nproc + 1
    /\ UNCHANGED <<conf, L, Nl, dNl, rows, serial, pc, cur, it, why, lastNs, lastConv, script>>

FStartLevel ==
    /\ pc = "f_level" /\ (cur = 0 \/ nproc >= cur + 1)
    /\ pc' = "f_sim" /\ it' = 0
    /\ UNCHANGED <<conf, L, Nl, dNl, rows, nproc, serial, cur, why, lastNs, lastConv, script>>

FSimulateOne ==
    /\ pc = "f_sim" /\ it < conf.N0
    /\ IF it + 1 <= Len(rows[cur])
       THEN /\ rows' = [rows EXCEPT ![cur][it + 1] = <<cur, serial + 1>>]
            /\ serial' = serial + 1 /\ it' = it + 1 /\ pc' = pc
       ELSE /\ pc' = "crash" /\ UNCHANGED <<rows, serial, it>>
    /\ UNCHANGED <<conf, L, Nl, dNl, nproc, cur, why, lastNs, lastConv, script>>

FAccumulate ==
    /\ pc = "f_sim" /\ it = conf.N0
    /\ Nl' = [Nl EXCEPT ![cur] = conf.N0]
    /\ IF cur < conf.LMax THEN cur' = cur + 1 /\ pc' = "f_level" /\ why' = why
                          ELSE cur' = cur /\ pc' = "done" /\ why' = "fixed"
    /\ UNCHANGED <<conf, L, dNl, rows, nproc, serial, it, lastNs, lastConv, script>>

Silent == LoopTest \/ Accumulate \/ Test \/ FAccumulate \/ FStartLevel

Next ==
    \/ LoopTest \/ EnsureProcess \/ PreCompute \/ SimulateOne \/ Accumulate \/ SetResults
    \/ (\E ns \in [Levels -> conf.NsVals] : ComputeNs(ns))
    \/ Test
    \/ (\E c \in BOOLEAN : Crit(c))
    \/ (\E ns \in [0..(L + 1) -> conf.NsVals] : AddLevelNs(ns))
    \/ AddLevelProc \/ Extend
    \/ FExtend \/ FNextLevel \/ FStartLevel \/ FSimulateOne \/ FAccumulate

Spec == Init /\ [][Next]_vars
FairSpec == Spec /\ WF_vars(Next)

-----------------------------------------------------------------------------
(* Properties *)

RowExact(l) ==
    /\ l \in DOMAIN rows
    /\ Len(rows[l]) = Nl[l]
    /\ \A i \in 1..Len(rows[l]) : IsReal(rows[l][i]) /\ rows[l][i][1] = l
    /\ \A i, j \in 1..Len(rows[l]) : i # j => rows[l][i] # rows[l][j]

\* C05: at return every level's array holds exactly the Nl simulated samples of that level
RowsExact == pc = "done" => \A l \in Levels : RowExact(l)
\* C05: the intermediate results that feed the allocation are computed from exact rows as well
MidRunRows == pc = "results" => \A l \in Levels : RowExact(l)
\* C05: a sample is never written outside its array
NoCrash == pc # "crash"
\* C05: every simulated sample is in exactly one array (none dropped, duplicated or overwritten)
AllSamplesKept ==
    pc \in {"done", "results"} =>
        Cardinality(UNION {{rows[l][i] : i \in {j \in 1..Len(rows[l]) : IsReal(rows[l][j])}} : l \in DOMAIN rows}) = serial

\* C06
LevelBound == L <= conf.LMax /\ (pc \in {"sim", "f_sim"} => cur <= conf.LMax)
ExitOnlyOnCriteria == pc = "done" => why \in {"converged", "maxlevel", "fixed"}
ReturnMeetsAllocation ==
    (pc = "done" /\ why \in {"converged", "maxlevel"}) =>
        \A l \in Levels : 100 * Max(0, lastNs[l] - Nl[l]) <= Nl[l]
ProcessExists == pc \in {"sim", "f_sim"} => nproc >= cur + 1
Termination == <>(pc \in {"done", "crash"})

TypeOK ==
    /\ L \in 0..conf.LMax + 1
    /\ DOMAIN Nl = Levels /\ DOMAIN dNl = Levels
    /\ pc \in {"loop", "level", "sim", "results", "ns", "test", "crit", "addlevel", "addproc", "extend", "done",
               "crash", "f_extend", "f_level", "f_sim"}

\* used with -simulate to print the environment's choices of finished behaviours (scripts for the code)
EmitScript == pc = "done" =>
    PrintT(<<"SCRIPT", conf.L0, conf.N0, conf.LMax, conf.fixed, script>>)
=============================================================================
