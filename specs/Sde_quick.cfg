SPECIFICATION Spec
CONSTANT Incs <- IncsQ
CONSTANT MaxLen = 4
CONSTANT X0s = {1, 3}
CONSTANT Cs = {1, 2}
INVARIANT ConstantClosedForm
INVARIANT DiagClosedForm
CHECK_DEADLOCK FALSE
