SPECIFICATION Spec
CONSTANT NWorkers = 2
CONSTANT NPaths = 3
CONSTANT NPhases = 2
CONSTANT SeedGiven = FALSE
CONSTANT SeedBeforePreDraw = TRUE
CONSTANT SeedOncePerRun = TRUE
CONSTANT SharedDeque = TRUE
INVARIANT NoSharedVariates
INVARIANT PreDrawnOnce
INVARIANT NoReseedToUsedState
INVARIANT Reproducible
CHECK_DEADLOCK FALSE
