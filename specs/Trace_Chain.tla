----------------------------- MODULE Trace_Chain -----------------------------
(***************************************************************************)
(* Validation of real Markov chains (1-d chains and copula chains in 2, 3  *)
(* dimensions) built over atomic Levy measures, against Chain.tla.         *)
(* hdr: grid (states ax, the grid's own cell boundaries bd, origin org),   *)
(* atoms with integer weights; positions are ranks (order and equality are *)
(* exact) - for lattice grids also in lattice units (ax_u, atoms_u) so     *)
(* that first and second moments are exact integers (C04).                 *)
(* Events carry numbers recorded from the code, all exact integers.        *)
(***************************************************************************)
EXTENDS Chain, Json, IOUtils, TLCExt

Lines == ndJsonDeserialize(IOEnv.TRACE_FILE)
VARIABLES tid, ln, bad, fin
tvars == <<tid, ln, bad, fin>>
T == Lines[tid].ev
H == Lines[tid].hdr
Id == Lines[tid].tid
E == T[ln]
D == Len(H.ax)

TraceInit == tid \in 1..Len(Lines) /\ ln = 1 /\ bad = 0 /\ fin = FALSE
More == ~fin /\ ln <= Len(T)
Viol(name) == PrintT(<<"VIOL", Id, ln, name, H.kind>>)
Judge(checks) ==
    LET failed == SelectSeq(checks, LAMBDA c : ~c[2]) IN
    IF failed = <<>> THEN bad' = bad ELSE (\A i \in 1..Len(failed) : Viol(failed[i][1])) /\ bad' = bad + 1

\* ---------------------------------------------------------------- C01
GridOK == BoundariesBetween(H.ax, H.bd) /\ AtomsOffGrid(H.atoms, H.ax, H.bd)
Lam == Intensity(H.atoms, H.ax, H.bd, H.org)

\* 1-d rate vector (q[k] for every state k, 0 at the origin)
Rates1dOK(q) ==
    /\ Len(q) = Len(H.ax[1])
    /\ \A k \in 1..Len(q) : q[k] = (IF k = H.org THEN 0 ELSE Rate(H.atoms, H.ax, H.bd, <<k>>))
SumOK(q, lam) == SumSeq(q) = lam /\ lam = Lam /\ \A k \in 1..Len(q) : q[k] >= 0

RateStep ==
    /\ More /\ E.e = "Rates1d"
    /\ Judge(<< <<"GridCellsTile", GridOK>>,
                <<"RateIsCellMass", E.bad = 0 /\ Rates1dOK(E.q)>>,
                <<"SumOfRatesIsIntensity", E.bad = 0 /\ SumOK(E.q, E.lam)>> >>)
    /\ ln' = ln + 1 /\ UNCHANGED <<tid, fin>>

\* n-d: rows = <<index tuple (1-based), rate>> for every state of the grid
RatesNdOK(rows) ==
    /\ \A i \in 1..Len(rows) : rows[i][2] = (IF IsOrigin(rows[i][1], H.org) THEN 0 ELSE Rate(H.atoms, H.ax, H.bd, rows[i][1]))
SumNdOK(rows, lam) ==
    /\ SumSeq([i \in 1..Len(rows) |-> IF IsOrigin(rows[i][1], H.org) THEN 0 ELSE rows[i][2]]) = lam
    /\ lam = Lam /\ \A i \in 1..Len(rows) : rows[i][2] >= 0
RECURSIVE ProdLen(_, _)
ProdLen(ax, d) == IF d = 0 THEN 1 ELSE Len(ax[d]) * ProdLen(ax, d - 1)
RateNdStep ==
    /\ More /\ E.e = "RatesNd"
    /\ Judge(<< <<"GridCellsTile", GridOK>>,
                <<"RateIsCellMass", E.bad = 0 /\ Len(E.rows) = ProdLen(H.ax, D) /\ RatesNdOK(E.rows)>>,
                <<"SumOfRatesIsIntensity", E.bad = 0 /\ SumNdOK(E.rows, E.lam)>> >>)
    /\ ln' = ln + 1 /\ UNCHANGED <<tid, fin>>

\* buckets of the adapted tree: <<lo index tuple, hi index tuple, mass>>: the mass of the union of the cells
BucketMass(lo, hi) == MassBox(H.atoms, CellLos(H.ax, H.bd, lo), CellHis(H.ax, H.bd, hi))
BucketStep ==
    /\ More /\ E.e = "Buckets"
    /\ Judge(<< <<"BucketIsUnionOfCells", E.bad = 0 /\ \A i \in 1..Len(E.b) : E.b[i][3] = BucketMass(E.b[i][1], E.b[i][2])>>,
                <<"SumOfRatesIsIntensity", E.bad = 0 /\ E.lam = Lam /\ (E.partial = 1 \/ SumSeq([i \in 1..Len(E.b) |-> E.b[i][3]]) = Lam)>> >>)
    /\ ln' = ln + 1 /\ UNCHANGED <<tid, fin>>

\* ---------------------------------------------------------------- C04 (lattice grids: positions in units)
\* first moment of the atoms of margin m strictly inside (lo, hi), in units
M1(m, lo, hi) == SumSeq([i \in 1..Len(H.atoms_u) |->
                    IF Inside(H.atoms_u[i][1][m], lo, hi) THEN H.atoms_u[i][1][m] * H.atoms_u[i][2] ELSE 0])
M2(m, lo, hi) == SumSeq([i \in 1..Len(H.atoms_u) |->
                    IF Inside(H.atoms_u[i][1][m], lo, hi) THEN H.atoms_u[i][1][m] * H.atoms_u[i][1][m] * H.atoms_u[i][2] ELSE 0])
TL(m) == H.ax_u[m][1]
TR(m) == H.ax_u[m][Len(H.ax_u[m])]
One == H.one                                  \* the real number 1 in units
\* canonical drift of the truncated process from the declared representation (levymodel.py, canonical_drift)
Max2(x, y) == IF x >= y THEN x ELSE y
Min2(x, y) == IF x <= y THEN x ELSE y
InnerM1(m) == M1(m, Max2(TL(m), -One), Min2(TR(m), One))
OuterM1(m) == M1(m, TL(m), -One) + M1(m, One, TR(m))
Canonical(m) ==
    CASE H.repr[m] = "ONEONE" -> H.a_u[m]
      [] H.repr[m] = "ZERO"   -> H.a_u[m] + InnerM1(m)
      [] H.repr[m] = "CENTER" -> H.a_u[m] - OuterM1(m)
      [] H.repr[m] = "TILDE"  -> H.a_u[m] + (IF H.fv THEN InnerM1(m) ELSE 0)
\* mean per unit time of the truncated Levy process: centre drift
TrueMean(m) == Canonical(m) + OuterM1(m)
\* rate-weighted grid states of margin m (marginal rates: atoms of the margin in the cell of state k)
MargRate(m, k) == SumSeq([i \in 1..Len(H.atoms_u) |->
                     IF Inside(H.atoms_u[i][1][m], CellLo(H.ax_u[m], H.bd_u[m], k), CellHi(H.ax_u[m], H.bd_u[m], k))
                     THEN H.atoms_u[i][2] ELSE 0])
JumpMean(m) == SumSeq([k \in 1..Len(H.ax_u[m]) |-> IF k = H.org THEN 0 ELSE H.ax_u[m][k] * MargRate(m, k)])
MeanOK == \A m \in 1..D : E.drift_u[m] + JumpMean(m) = TrueMean(m)
\* variance rule: sigma^2 + [infinite variation] second moment of the atoms in the central cell (and in [-1,1])
CentralM2 == M2(1, Max2(H.bd_u[1][H.org - 1], -One), Min2(H.bd_u[1][H.org], One))
VarOK == E.eqvar_u2 = H.sigma2_u2 + (IF H.fv THEN 0 ELSE CentralM2)
DriftStep ==
    /\ More /\ E.e = "Drift"
    /\ Judge(<< <<"MeanIsExact", E.bad = 0 /\ MeanOK>>,
                <<"VarianceRule", E.bad = 0 /\ (D > 1 \/ VarOK)>> >>)
    /\ ln' = ln + 1 /\ UNCHANGED <<tid, fin>>

\* non-lattice grids (thin, positions quantised to 1e-5): ONEONE declaration with a = 0, finite variation:
\* process drift + sum_k x_k rate_k = first moment of the atoms beyond +-1 inside the truncation
AbsQ(x) == IF x < 0 THEN -x ELSE x
JumpMeanQ == SumSeq([k \in 1..Len(E.x_q) |-> E.x_q[k] * E.q[k]])
OuterQ == SumSeq([k \in 1..Len(E.atoms_q) |->
            IF E.lo_q < E.atoms_q[k][1] /\ E.atoms_q[k][1] < E.hi_q /\ AbsQ(E.atoms_q[k][1]) > E.one_q
            THEN E.atoms_q[k][1] * E.atoms_q[k][2] ELSE 0])
TotalW == SumSeq([k \in 1..Len(E.atoms_q) |-> E.atoms_q[k][2]])
DriftQStep ==
    /\ More /\ E.e = "DriftQ"
    /\ Judge(<< <<"MeanIsExact", E.bad = 0 /\ AbsQ(E.drift_q + JumpMeanQ - OuterQ) <= TotalW + 2>> >>)
    /\ ln' = ln + 1 /\ UNCHANGED <<tid, fin>>

\* real models (thin): quantised rates are non-negative and sum to the reported intensity within the stated slack
Abs(x) == IF x < 0 THEN -x ELSE x
RealStep ==
    /\ More /\ E.e = "RealRates"
    /\ Judge(<< <<"SumOfRatesIsIntensity", Abs(SumSeq(E.q) - E.lam) <= E.slack /\ \A k \in 1..Len(E.q) : E.q[k] >= -1>> >>)
    /\ ln' = ln + 1 /\ UNCHANGED <<tid, fin>>

\* infinite-variation copula chain (thin): row = <<100 h, i, j, adjustment, reference>> in units of 1e-5 of the larger;
\* the code integrates with an absolute tolerance of 1e-3 before scaling: accepted within 1 %
VarAdjStep ==
    /\ More /\ E.e = "VarAdj"
    /\ Judge(<< <<"VarianceRule", \A i \in 1..Len(E.rows) : Abs(E.rows[i][4] - E.rows[i][5]) <= 1000>> >>)
    /\ ln' = ln + 1 /\ UNCHANGED <<tid, fin>>
RaiseStep ==
    /\ More /\ E.e = "Raise"
    /\ PrintT(<<"REJECT", Id, ln, "Raise", H.kind>>)
    /\ bad' = bad + 1 /\ ln' = ln + 1 /\ UNCHANGED <<tid, fin>>
Finish ==
    /\ ~fin /\ ln = Len(T) + 1
    /\ IF bad = 0 THEN PrintT(<<"ACCEPT", Id>>) ELSE TRUE
    /\ fin' = TRUE /\ UNCHANGED <<tid, ln, bad>>

TraceNext == RateStep \/ RateNdStep \/ BucketStep \/ DriftStep \/ DriftQStep \/ RealStep \/ VarAdjStep \/ RaiseStep \/ Finish
TraceSpec == TraceInit /\ [][TraceNext]_tvars
=============================================================================
