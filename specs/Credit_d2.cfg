SPECIFICATION Spec
CONSTANT Dim = 2
INVARIANT InclusionExclusion
INVARIANT Monotone
CHECK_DEADLOCK FALSE
