SPECIFICATION Spec
CONSTANT NMax = 2500
CONSTANT Kinds <- KindsAll
CONSTANT Intervals <- IntervalsQ
INVARIANT RoundTrip
INVARIANT InRange
INVARIANT Injective
INVARIANT Z1Onto
CHECK_DEADLOCK FALSE
