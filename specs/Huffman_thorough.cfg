SPECIFICATION Spec
CONSTANT MaxLen = 5
CONSTANT MaxSum = 8
INVARIANT ExactLaw
INVARIANT NeverZeroWeight
INVARIANT TreeWellFormed
CHECK_DEADLOCK FALSE
