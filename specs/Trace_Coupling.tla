--------------------------- MODULE Trace_Coupling ---------------------------
(***************************************************************************)
(* Validation of the real one-dimensional level coupling (driver           *)
(* coupling_run.py) against Coupling.tla, over atomic measures in lattice  *)
(* units.  One trace = one coupling object driven through next_level; one  *)
(* event per level with the observed coupling map (obtained by sweeping    *)
(* the coupling uniform over a lattice), coefficients and drifts.          *)
(***************************************************************************)
EXTENDS Integers, Sequences, FiniteSets, TLC, Json, IOUtils, TLCExt, SequencesExt

Lines == ndJsonDeserialize(IOEnv.TRACE_FILE)
VARIABLES tid, ln, bad, fin, prevLvl
tvars == <<tid, ln, bad, fin, prevLvl>>
T == Lines[tid].ev
H == Lines[tid].hdr
Id == Lines[tid].tid
E == T[ln]
SumSeq(s) == FoldSeq(LAMBDA x, y : x + y, 0, s)

\* positions are ranks over the whole trace (all levels): order and equality exact
Atoms == H.atoms
MassIn(lo, hi) == SumSeq([i \in 1..Len(Atoms) |-> IF lo < Atoms[i][1] /\ Atoms[i][1] < hi THEN Atoms[i][2] ELSE 0])
\* cells: boundaries b are the grid's own middle() between consecutive states; end cells stop at the end states
Lo(a, b, k) == IF k = 1 THEN a[1] ELSE b[k - 1]
Hi(a, b, k) == IF k = Len(a) THEN a[Len(a)] ELSE b[k]
RateAB(a, b, k) == MassIn(Lo(a, b, k), Hi(a, b, k))
Rate(a, k) == RateAB(a, E.bd, k)
CoarseAxis(a) == [j \in 1..((Len(a) + 1) \div 2) |-> a[2 * j - 1]]

TraceInit == tid \in 1..Len(Lines) /\ ln = 1 /\ bad = 0 /\ fin = FALSE /\ prevLvl = <<>>
More == ~fin /\ ln <= Len(T)
Viol(name) == PrintT(<<"VIOL", Id, ln, name, H.kind>>)
Judge(checks) ==
    LET failed == SelectSeq(checks, LAMBDA c : ~c[2]) IN
    IF failed = <<>> THEN bad' = bad ELSE (\A i \in 1..Len(failed) : Viol(failed[i][1])) /\ bad' = bad + 1

\* mass the observed coupling sends from fine state k to its right / left coarse neighbour
MoveOf(k) == LET S == {i \in 1..Len(E.moves) : E.moves[i][1] = k} IN IF S = {} THEN <<>> ELSE E.moves[CHOOSE i \in S : TRUE]
RightMass(k) == LET m == MoveOf(k) IN IF m = <<>> THEN 0 ELSE (m[2] * Rate(E.ax, k)) \div m[3]
\* the split the property needs: the part of the cell on the right of the state goes right
SplitExact == \A i \in 1..Len(E.moves) : LET k == E.moves[i][1] IN RightMass(k) = MassIn(E.ax[k], Hi(E.ax, E.bd, k))
LeftMass(k)  == LET m == MoveOf(k) IN IF m = <<>> THEN 0 ELSE Rate(E.ax, k) - RightMass(k)
MovesExact == \A i \in 1..Len(E.moves) : (E.moves[i][2] * Rate(E.ax, E.moves[i][1])) % E.moves[i][3] = 0
\* every fine state of odd increment with positive rate was observed
MovesComplete == \A k \in 1..Len(E.ax) : (k % 2 = 0 /\ Rate(E.ax, k) > 0) => MoveOf(k) # <<>>
Telescoping ==
    LET c == CoarseAxis(E.ax) orgc == (E.org + 1) \div 2 IN
    /\ E.org % 2 = 1 /\ Len(E.ax) % 2 = 1
    /\ MovesExact /\ MovesComplete
    /\ \A j \in 1..Len(c) : j # orgc =>
          Rate(E.ax, 2 * j - 1)
            + (IF 2 * j - 2 >= 1 THEN RightMass(2 * j - 2) ELSE 0)
            + (IF 2 * j <= Len(E.ax) THEN LeftMass(2 * j) ELSE 0)
          = RateAB(prevLvl.ax, prevLvl.bd, j)
Locality ==
    /\ \A i \in 1..Len(E.evens) : E.evens[i][1] % 2 = 1 /\ E.evens[i][2] = E.ax[E.evens[i][1]]
    /\ \A i \in 1..Len(E.moves) :
          LET k == E.moves[i][1] IN
          /\ k % 2 = 0
          /\ \A j \in 1..Len(E.moves[i][4]) : E.moves[i][4][j] \in {E.ax[k - 1], E.ax[k + 1]}
\* the coarse component is the previous level's fine component
CoarseIsPrevious ==
    IF E.lvl = 0 THEN E.sigC2 = E.zero
    ELSE prevLvl # <<>> /\ E.sigC2 = prevLvl.sigF2 /\ E.muC = prevLvl.muF /\ E.muF = E.muProc
SameBrownian ==
    E.lvl = 0 \/ (/\ E.same_sign /\ Len(E.diffF2) = 3 /\ Len(E.diffC2) = 3
                  /\ \A i \in 1..3 : E.diffF2[i] = E.sigF2 /\ E.diffC2[i] = E.sigC2)
\* nesting of the in-place refinement seen by the coupling (C13 re-checked on the coupling's own grid)
GridNested == E.lvl = 0 \/ (prevLvl # <<>> /\ CoarseAxis(E.ax) = prevLvl.ax /\ E.org = 2 * prevLvl.org - 1)

Slice1OK(sl) == /\ Len(sl.slice) = Len(sl.single)
                /\ \A k \in 1..Len(sl.single) : sl.slice[k] = SumSeq([i \in 1..k |-> sl.single[i]])
Slices1OK == \A i \in 1..Len(E.slices1) : Slice1OK(E.slices1[i])
LevelStep ==
    /\ More /\ E.e = "Level"
    /\ Judge(<< <<"Numeric", E.bad = 0>>,
                <<"GridNested", E.bad # 0 \/ GridNested>>,
                <<"Telescoping", E.bad # 0 \/ E.lvl = 0 \/ ~GridNested \/ Telescoping>>,
                <<"Locality", E.bad # 0 \/ E.lvl = 0 \/ Locality>>,
                <<"CouplingIsFunctionOfJumpAndUniform", E.bad # 0 \/ Slices1OK>>,
                <<"CoarseIsPrevious", E.bad # 0 \/ CoarseIsPrevious>>,
                <<"SameBrownian", E.bad # 0 \/ SameBrownian>> >>)
    /\ prevLvl' = E /\ ln' = ln + 1 /\ UNCHANGED <<tid, fin>>

(***************************************************************************)
(* The Levy-copula coupling in d dimensions (lattice units, exact).  A     *)
(* fine state is a tuple of 1-based indices; a coarse state is a fine      *)
(* state with all indices odd.  E.moves[i] = <<x, N, <<<<y, count>>,..>>>>: *)
(* of N lattice values of the coupling uniform, count sent x to y.         *)
(***************************************************************************)
D == H.d
AtomIn(at, ax, bd, x) == \A k \in 1..D : Lo(ax[k], bd[k], x[k]) < at[1][k] /\ at[1][k] < Hi(ax[k], bd[k], x[k])
RateNd(ax, bd, x) == SumSeq([i \in 1..Len(Atoms) |-> IF AtomIn(Atoms[i], ax, bd, x) THEN Atoms[i][2] ELSE 0])
IsCoarse(x) == \A k \in 1..D : x[k] % 2 = 1
OddInc(x) == \E k \in 1..D : x[k] % 2 = 0          \* origin index is odd (1-based), so an even index is an odd increment
MaxLenNd == CHOOSE n \in {Len(E.ax[k]) : k \in 1..D} : \A k \in 1..D : Len(E.ax[k]) <= n
FineStates == {x \in [1..D -> 1..MaxLenNd] : \A k \in 1..D : x[k] <= Len(E.ax[k])}
MoveNd(x) == LET S == {i \in 1..Len(E.moves) : E.moves[i][1] = x} IN IF S = {} THEN <<>> ELSE E.moves[CHOOSE i \in S : TRUE]
\* mass the observed coupling sends from x to y
SentFrom(m, y) == LET r == RateNd(E.ax, E.bd, m[1]) IN
                  SumSeq([j \in 1..Len(m[3]) |-> IF m[3][j][1] = y THEN (m[3][j][2] * r) \div m[2] ELSE 0])
Received(y) == SumSeq([i \in 1..Len(E.moves) |-> SentFrom(E.moves[i], y)])
MovesExactNd == \A i \in 1..Len(E.moves) : LET r == RateNd(E.ax, E.bd, E.moves[i][1]) IN
                   /\ \A j \in 1..Len(E.moves[i][3]) : (E.moves[i][3][j][2] * r) % E.moves[i][2] = 0
                   /\ SumSeq([j \in 1..Len(E.moves[i][3]) |-> E.moves[i][3][j][2]]) = E.moves[i][2]
MovesCompleteNd == \A x \in FineStates : (OddInc(x) /\ RateNd(E.ax, E.bd, x) > 0) => MoveNd(x) # <<>>
HalfIdx(y) == [k \in 1..D |-> (y[k] + 1) \div 2]
GridNestedNd == E.lvl = 0 \/ (prevLvl # <<>> /\ \A k \in 1..D : CoarseAxis(E.ax[k]) = prevLvl.ax[k] /\ E.org[k] = 2 * prevLvl.org[k] - 1)
TelescopingNd ==
    /\ \A k \in 1..D : E.org[k] % 2 = 1 /\ Len(E.ax[k]) % 2 = 1
    /\ MovesExactNd /\ MovesCompleteNd
    /\ \A y \in FineStates : (IsCoarse(y) /\ y # E.org) =>
          RateNd(E.ax, E.bd, y) + Received(y) = RateNd(prevLvl.ax, prevLvl.bd, HalfIdx(y))
LocalityNd ==
    /\ \A i \in 1..Len(E.evens) : IsCoarse(E.evens[i][1]) /\ E.evens[i][2] = E.evens[i][1]
    /\ \A i \in 1..Len(E.moves) : LET x == E.moves[i][1] IN
          \A j \in 1..Len(E.moves[i][3]) : LET y == E.moves[i][3][j][1] IN
              \A k \in 1..D : IF x[k] % 2 = 1 THEN y[k] = x[k] ELSE y[k] \in {x[k] - 1, x[k] + 1}
\* a slice of several jumps: running sums of the jumps coupled one by one with the same uniforms
SliceOK(sl) == /\ Len(sl.slice) = Len(sl.single)
               /\ \A k \in 1..Len(sl.single) : \A c \in 1..D :
                      sl.slice[k][c] = SumSeq([i \in 1..k |-> sl.single[i][c]])
SlicesOK == \A i \in 1..Len(E.slices) : SliceOK(E.slices[i])
CoarseIsPreviousNd ==
    IF E.lvl = 0 THEN TRUE
    ELSE prevLvl # <<>> /\ E.dmC = prevLvl.dmF /\ E.muC = prevLvl.muF /\ E.muF = E.muProc
\* Brownian increments of dimension j: (j * <<1, 2, -4>>); cumulative diffusion of row k divided by the cumulated base
\* increments = sum_j D[k][j] * j for the matrix D of the component
SameBrownianNd ==
    E.lvl = 0 \/ (/\ Len(E.diffF) = D /\ Len(E.diffC) = D
                  /\ \A k \in 1..D : \A i \in 1..3 : E.diffF[k][i] = E.wsF[k] /\ E.diffC[k][i] = E.wsC[k])
LevelNdStep ==
    /\ More /\ E.e = "LevelNd"
    /\ Judge(<< <<"Numeric", E.bad = 0>>,
                <<"GridNested", E.bad # 0 \/ GridNestedNd>>,
                <<"Telescoping", E.bad # 0 \/ E.lvl = 0 \/ ~GridNestedNd \/ TelescopingNd>>,
                <<"Locality", E.bad # 0 \/ E.lvl = 0 \/ LocalityNd>>,
                <<"CouplingIsFunctionOfJumpAndUniform", E.bad # 0 \/ SlicesOK>>,
                <<"CoarseIsPrevious", E.bad # 0 \/ CoarseIsPreviousNd>>,
                <<"SameBrownian", E.bad # 0 \/ SameBrownianNd>> >>)
    /\ prevLvl' = E /\ ln' = ln + 1 /\ UNCHANGED <<tid, fin>>
CoefNdStep ==
    /\ More /\ E.e = "CoefNd"
    /\ Judge(<< <<"CoarseIsPrevious", CoarseIsPreviousNd>>,
                <<"SameBrownian", SameBrownianNd>> >>)
    /\ prevLvl' = E /\ ln' = ln + 1 /\ UNCHANGED <<tid, fin>>
\* SDE coupling: the driver's coarse coefficient and drift at level l are the fine ones of level l-1
SdeStep ==
    /\ More /\ E.e = "SdeLevel"
    /\ Judge(<< <<"CoarseIsPrevious", IF E.lvl = 0 THEN E.sigC2 = E.zero
                                       ELSE prevLvl # <<>> /\ E.sigC2 = prevLvl.sigF2 /\ E.muC = prevLvl.muF
                                            /\ E.sigF2 = E.chainF2>> >>)
    /\ prevLvl' = E /\ ln' = ln + 1 /\ UNCHANGED <<tid, fin>>

RaiseStep ==
    /\ More /\ E.e = "Raise"
    /\ PrintT(<<"REJECT", Id, ln, "Raise", H.kind>>)
    /\ bad' = bad + 1 /\ ln' = ln + 1 /\ UNCHANGED <<tid, fin, prevLvl>>
Finish ==
    /\ ~fin /\ ln = Len(T) + 1
    /\ IF bad = 0 THEN PrintT(<<"ACCEPT", Id>>) ELSE TRUE
    /\ fin' = TRUE /\ UNCHANGED <<tid, ln, bad, prevLvl>>
TraceNext == LevelStep \/ LevelNdStep \/ CoefNdStep \/ SdeStep \/ RaiseStep \/ Finish
TraceSpec == TraceInit /\ [][TraceNext]_tvars
=============================================================================
