-------------------------------- MODULE Libor --------------------------------
(***************************************************************************)
(* One Euler step of the Levy Libor model as rpylib simulates it           *)
(* (markovchainsde.py, MarkovChainLevyLiborModel; levydrivensde.py,        *)
(* LiborSDEFunction), one-dimensional driver, over exact rationals.        *)
(*                                                                         *)
(* m rates x_k with accruals delta_k and volatilities sigma_k; tenors      *)
(* T_0 < T_1 < .. < T_m; rate k (1-based) fixes at T_(k-1): from then on   *)
(* its volatility is 0.  With zz = int x^2 nu(dx) outside the central cell *)
(*   omega_j = x_j delta_j / (1 + x_j delta_j)                             *)
(*   S[k][j] = sigma_k(t) zz sigma_(k+1)(t)   for j > k, 0 otherwise       *)
(*             (as coded: the same number for every j > k)                 *)
(*   D_k     = sum_(j >= 2) S[k][j] omega_j                                *)
(*   x_k'    = x_k + (-x_k D_k + sigma_k(t) x_k mu) dt                     *)
(*                 + sigma_k(t) x_k (dW + dL)                              *)
(* C16: EulerStepLibor (first step, exact), FixedRatesFrozen (a rate that  *)
(* has fixed does not move any more).                                      *)
(***************************************************************************)
EXTENDS Rationals, FiniteSets

SigmaAt(sig, ten, t, k) == IF QLeq(ten[k], t) THEN QZero ELSE sig[k]       \* ten[k] = T_(k-1): fixing date of rate k
Omega(x, del, j) == QDiv(QMul(x[j], del[j]), QAdd(QOne, QMul(x[j], del[j])))
SMat(sig, ten, t, zz, k, j) == IF j > k /\ k < Len(sig) THEN QMul(QMul(SigmaAt(sig, ten, t, k), zz), SigmaAt(sig, ten, t, k + 1)) ELSE QZero
DriftTerm(x, del, sig, ten, t, zz, k) == QSum([j \in 1..(Len(x) - 1) |-> QMul(SMat(sig, ten, t, zz, k, j + 1), Omega(x, del, j + 1))])
LiborEulerStep(x, del, sig, ten, t, zz, mu, dt, dY) ==
    [k \in 1..Len(x) |->
        LET a == QMul(SigmaAt(sig, ten, t, k), x[k])
            b == QNeg(QMul(x[k], DriftTerm(x, del, sig, ten, t, zz, k)))
        IN QAdd(x[k], QAdd(QMul(QAdd(b, QMul(a, mu)), dt), QMul(a, dY)))]
=============================================================================
