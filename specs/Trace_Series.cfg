SPECIFICATION TraceSpec
CONSTANT Streams = {}
CONSTANT Counts = {}
CONSTANT DateSets = {}
CHECK_DEADLOCK FALSE
