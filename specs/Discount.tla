------------------------------- MODULE Discount -------------------------------
(***************************************************************************)
(* Discount factor of the forward / Libor rate models: piecewise simple    *)
(* compounding over the tenor structure T_0 < T_1 < ... with rates x_k     *)
(* (x_0 also applies on [0, T_0]).  Rates are in tenths (integers), times *)
(* in mesh units; Den(t) is the accrual denominator scaled by 10^(k+1).   *)
(*   Multiply = TRUE  : the last accrual multiplies the previous ones      *)
(*   Multiply = FALSE : it overwrites them (the pinned code)               *)
(* C16: df(0) = 1, df > 0, non-increasing, no jump at a tenor.             *)
(***************************************************************************)
EXTENDS Integers, Sequences, FiniteSets, TLC

CONSTANTS Tenors, Rates, Multiply     \* Tenors: sequence of mesh times; Rates: sequence (Len = Len(Tenors) - 1) in percent

VARIABLES t
Init == t = 0
Tick == t < Tenors[Len(Tenors)] /\ t' = t + 1
Spec == Init /\ [][Tick]_t

\* index of the accrual period containing time s: the number of tenors strictly below s
Pos(s) == Cardinality({k \in 1..Len(Tenors) : Tenors[k] < s})
RECURSIVE ProdRates(_)
ProdRates(n) == IF n = 0 THEN 1 ELSE (10 + Rates[n] * (Tenors[n + 1] - Tenors[n])) * ProdRates(n - 1)
\* accrual denominator and its scale as a pair <<num, den>> (df = den / num)
Accrual(s) ==
    LET p == Pos(s) IN
    IF p = 0 THEN <<10 + Rates[1] * s, 10>>
    ELSE LET head == (10 + Rates[1] * Tenors[1]) * ProdRates(p - 1)
             last == 10 + Rates[p] * (s - Tenors[p])
         IN IF Multiply THEN <<head * last, 10 * (10 ^ (p - 1)) * 10>>
            ELSE <<last, 10>>
\* a/b <= c/d for positive denominators
Leq(x, y) == x[1] * y[2] <= y[1] * x[2]
DfOneAtZero == t >= 0 => Accrual(0)[1] = Accrual(0)[2]
DfPositive == Accrual(t)[1] > 0
\* df non-increasing: the accrual denominator does not decrease
DfMonotone == t >= 1 => Leq(Accrual(t - 1), Accrual(t))
=============================================================================
