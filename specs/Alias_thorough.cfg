SPECIFICATION Spec
CONSTANT MaxLen = 5
CONSTANT MaxSum = 8
INVARIANT ExactLaw
INVARIANT NeverZeroWeight
CHECK_DEADLOCK FALSE
