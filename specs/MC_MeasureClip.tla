--------------------------- MODULE MC_MeasureClip ---------------------------
(***************************************************************************)
(* Apalache: the interval clipping of TruncatedLevyMeasure                 *)
(* (_truncated_interval, transcribed as Clip in Measure.tla) for ALL       *)
(* integer end points - and, the operators being only max / min /          *)
(* comparisons, for all real ones by order isomorphism.                    *)
(*  ClipLemma: for a <= b and a window l <= r the clipped pair is ordered, *)
(*    it is a proper interval exactly when [a, b] meets the window in more *)
(*    than a point, and then it IS the intersection;                       *)
(*  NestLemma: clipping with a second window and then with the first is    *)
(*    clipping with the intersection of the windows whenever these meet in *)
(*    more than a point - and gives a degenerate interval otherwise.       *)
(* There is no transition: the state is an arbitrary tuple of integers and *)
(* the lemmas are checked as invariants of the initial states (length 0).  *)
(***************************************************************************)
EXTENDS Integers
VARIABLES
    \* @type: Int;
    a,
    \* @type: Int;
    b,
    \* @type: Int;
    l1,
    \* @type: Int;
    r1,
    \* @type: Int;
    l2,
    \* @type: Int;
    r2

Max2(x, y) == IF x >= y THEN x ELSE y
Min2(x, y) == IF x <= y THEN x ELSE y
\* as written in levymodel.py: max(min(a, r), l), min(max(b, l), r)
ClipLo(x, l, r) == Max2(Min2(x, r), l)
ClipHi(y, l, r) == Min2(Max2(y, l), r)

AnyInit == a \in Int /\ b \in Int /\ l1 \in Int /\ r1 \in Int /\ l2 \in Int /\ r2 \in Int
Next == UNCHANGED <<a, b, l1, r1, l2, r2>>

ClipLemma ==
    (a <= b /\ l1 <= r1) =>
        LET lo == ClipLo(a, l1, r1)
            hi == ClipHi(b, l1, r1)
        IN /\ lo <= hi
           /\ (lo < hi) = (Max2(a, l1) < Min2(b, r1))
           /\ (lo < hi => lo = Max2(a, l1) /\ hi = Min2(b, r1))
\* the outer wrapper (window 2) clips first, the inner one (window 1) second
NestLemma ==
    (a <= b /\ l1 <= r1 /\ l2 <= r2) =>
        LET lo2 == ClipLo(a, l2, r2)
            hi2 == ClipHi(b, l2, r2)
            lo == ClipLo(lo2, l1, r1)
            hi == ClipHi(hi2, l1, r1)
            L == Max2(l1, l2)
            R == Min2(r1, r2)
        IN /\ lo <= hi
           /\ (lo < hi) = (Max2(a, L) < Min2(b, R))
           /\ (lo < hi => lo = Max2(a, L) /\ hi = Min2(b, R))
=============================================================================
