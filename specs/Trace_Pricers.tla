---------------------------- MODULE Trace_Pricers ----------------------------
(***************************************************************************)
(* C18 (thin): what the real COS / FFT / closed-form pricers return on     *)
(* ladders of strikes (harness/drivers/pricer_run.py), judged with the     *)
(* relations of Pricers.tla.  Prices are in quanta of 1e-7 spot, digitals  *)
(* and discount factors in quanta of 1e-7.  H.tol = tolerance of the       *)
(* relations that carry the series-truncation error (3e-5 spot), H.tola =  *)
(* tolerance of the agreement between pricers (6e-6 spot), H.tolp =        *)
(* tolerance of relations that hold by construction (parity, scalar =      *)
(* vector, price() dispatch).                                              *)
(***************************************************************************)
EXTENDS Pricers, TLC, Json, IOUtils, TLCExt

Lines == ndJsonDeserialize(IOEnv.TRACE_FILE)
VARIABLES tid, ln, bad, fin
tvars == <<tid, ln, bad, fin, pvars>>
T == Lines[tid].ev
H == Lines[tid].hdr
Id == Lines[tid].tid
E == T[ln]

TraceInit == /\ tid \in 1..Len(Lines) /\ ln = 1 /\ bad = 0 /\ fin = FALSE
             /\ law = <<>> /\ lad = <<>>
More == ~fin /\ ln <= Len(T)
Judge(checks) ==
    LET failed == SelectSeq(checks, LAMBDA c : ~c[2]) IN
    IF failed = <<>> THEN bad' = bad
    ELSE (\A i \in 1..Len(failed) : PrintT(<<"VIOL", Id, ln, failed[i][1], H.kind>>)) /\ bad' = bad + 1

LadderStep ==
    /\ More /\ E.e = "Ladder"
    /\ Judge(<< <<"CallPutParity", Parity(E.c, E.p, E.f, H.tolp) /\ Parity(E.c, E.p, E.contract, H.tol)>>,
                <<"ForwardIsRiskNeutral", Abs(E.rn) <= H.tol>>,
                <<"BetweenIntrinsicAndForward", Bounds(E.c, E.contract, E.dF, H.tol) /\ PutBounds(E.p, E.contract, H.tol)>>,
                <<"MonotoneInStrike", Decreasing(E.c, H.tol) /\ Increasing(E.p, H.tol)>>,
                <<"ConvexInStrike", Convex(E.c, H.tol) /\ Convex(E.p, H.tol)>>,
                <<"DigitalIsDiscountedProbability", DigitalOK(E.d, E.dfq, H.tol)>> >>)
    /\ ln' = ln + 1 /\ UNCHANGED <<tid, fin, pvars>>
Pairs(rows, tol) == \A i \in 1..Len(rows) : Abs(rows[i][1] - rows[i][2]) <= tol
ScalarStep ==
    /\ More /\ E.e = "Scalar"
    /\ Judge(<< <<"ScalarEqualsVector", Pairs(E.rows, H.tolp)>> >>)
    /\ ln' = ln + 1 /\ UNCHANGED <<tid, fin, pvars>>
DispatchStep ==
    /\ More /\ E.e = "Dispatch"
    /\ Judge(<< <<"PriceDispatch", Pairs(E.rows, H.tolp)>> >>)
    /\ ln' = ln + 1 /\ UNCHANGED <<tid, fin, pvars>>
AgreeStep ==
    /\ More /\ E.e = "Agree"
    /\ Judge(<< <<"PricersAgree", Pairs(E.rows, H.tola)>> >>)
    /\ ln' = ln + 1 /\ UNCHANGED <<tid, fin, pvars>>
DensityStep ==
    /\ More /\ E.e = "Density"
    /\ Judge(<< <<"DensityIsADensity", E.min >= -H.tol /\ Abs(E.int - E.one) <= 10 * H.tol>> >>)
    /\ ln' = ln + 1 /\ UNCHANGED <<tid, fin, pvars>>
\* P(S_T < K_{i+1}) - P(S_T < K_i) = mass of the implied density over [K_i, K_{i+1}]
CdfStep ==
    /\ More /\ E.e = "Cdf"
    /\ Judge(<< <<"CdfIsTheLawOfTheDensity",
                    \A i \in 1..Len(E.mass) : Abs(E.cdf[i + 1] - E.cdf[i] - E.mass[i]) <= H.tol>> >>)
    /\ ln' = ln + 1 /\ UNCHANGED <<tid, fin, pvars>>
RaiseStep ==
    /\ More /\ E.e = "Raise"
    /\ PrintT(<<"REJECT", Id, ln, "Raise", H.kind>>)
    /\ bad' = bad + 1 /\ ln' = ln + 1 /\ UNCHANGED <<tid, fin, pvars>>
Finish ==
    /\ ~fin /\ ln = Len(T) + 1
    /\ IF bad = 0 THEN PrintT(<<"ACCEPT", Id>>) ELSE TRUE
    /\ fin' = TRUE /\ UNCHANGED <<tid, ln, bad, pvars>>
TraceNext == LadderStep \/ ScalarStep \/ DispatchStep \/ AgreeStep \/ DensityStep \/ CdfStep \/ RaiseStep \/ Finish
TraceSpec == TraceInit /\ [][TraceNext]_tvars
=============================================================================
