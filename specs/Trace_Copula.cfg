SPECIFICATION TraceSpec
CONSTANT Kinds = {}
CONSTANT Etas = {}
CONSTANT Dims = {}
CONSTANT Lattice2 = {}
CONSTANT Lattice3 = {}
CONSTANT SignRule = "product"
CHECK_DEADLOCK FALSE
