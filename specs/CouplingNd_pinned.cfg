SPECIFICATION Spec
CONSTANT Halfs = {1}
CONSTANT MaxLevel = 1
CONSTANT Rule = "imargin"
CONSTANT WeightKind = "skew"
CONSTANT Seeds = {0}
INVARIANT Telescoping
INVARIANT CornersPartition
INVARIANT Locality
CHECK_DEADLOCK FALSE
