SPECIFICATION Spec
CONSTANT Kinds <- KindsAll
CONSTANT Etas <- EtasQ
CONSTANT Dims = {2, 3}
CONSTANT Lattice2 <- L2
CONSTANT Lattice3 <- L3
CONSTANT SignRule = "product"
INVARIANT Grounded
INVARIANT DIncreasing
INVARIANT UniformMargins
CHECK_DEADLOCK FALSE
