SPECIFICATION Spec
CONSTANT Shapes <- Shapes2
CONSTANT MaxW = 1
CONSTANT Mult = 2
INVARIANT ExactLaw
CHECK_DEADLOCK FALSE
