SPECIFICATION Spec
CONSTANT Isms <- IsmQ
CONSTANT Ilgs <- IlgQ
CONSTANT A0s <- A0Q
CONSTANT MaxSteps = 5
INVARIANT CanonicalInvariant
INVARIANT Reversible
INVARIANT BackToStart
CHECK_DEADLOCK FALSE
