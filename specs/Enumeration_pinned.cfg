SPECIFICATION ESpec
CONSTANT NMax = 0
CONSTANT Kinds = {}
CONSTANT Intervals = {}
CONSTANT Boxes <- BoxesQ
CONSTANT StrictBound = TRUE
CONSTANT BoundFromAllStates = FALSE
INVARIANT NoDuplicates
INVARIANT OnlyAdmissible
INVARIANT ExactlyOnce
CHECK_DEADLOCK FALSE
