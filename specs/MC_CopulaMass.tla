---------------------------- MODULE MC_CopulaMass ----------------------------
(* Design check: the three definitions agree on every lattice rectangle (no zero end, origin not inside). *)
EXTENDS CopulaMass
CONSTANTS Dim
Ends == {-BIG, -4, -2, 2, 4, BIG}
Atoms2 == << <<<<1, 1>>, 2>>, <<<<3, -1>>, 1>>, <<<<-1, 3>>, 3>>, <<<<-3, -3>>, 5>>, <<<<5, -5>>, 7>>, <<<<-5, 1>>, 4>>, <<<<1, -3>>, 6>> >>
Atoms3 == << <<<<1, 1, 1>>, 2>>, <<<<3, -1, 1>>, 1>>, <<<<-1, 3, -3>>, 3>>, <<<<-3, -3, -1>>, 5>>, <<<<1, -3, 3>>, 7>>, <<<<-5, 1, 5>>, 4>> >>
Atoms == IF Dim = 2 THEN Atoms2 ELSE Atoms3
VARIABLES a, b
Init == /\ a \in [1..Dim -> Ends] /\ b \in [1..Dim -> Ends]
        /\ \A i \in 1..Dim : a[i] < b[i]
        /\ \E i \in 1..Dim : ~Straddles(a, b, i)        \* the origin is not inside
Next == UNCHANGED <<a, b>>
Spec == Init /\ [][Next]_<<a, b>>
Full == [i \in 1..Dim |-> i]
GeneralIsDirect == MassNd(Atoms, Full, a, b) = MassRect(Atoms, Full, a, b)
FastIsDirect == (IF Dim = 2 THEN Mass2d(Atoms, Full, a, b) ELSE Mass3d(Atoms, Full, a, b)) = MassRect(Atoms, Full, a, b)
NonNegative == MassRect(Atoms, Full, a, b) >= 0
\* sub-families: pairs and singletons of coordinates
SubFamilies ==
    \A S \in (SUBSET (1..Dim)) \ {{}, 1..Dim} :
        LET idx == SetToSeq(S)
            sorted == SortSeq(idx, LAMBDA x, y : x < y)
            aa == [i \in 1..Len(sorted) |-> a[sorted[i]]]
            bb == [i \in 1..Len(sorted) |-> b[sorted[i]]]
        IN (\E i \in 1..Len(sorted) : ~Straddles(aa, bb, i)) =>
             /\ MassNd(Atoms, sorted, aa, bb) = MassRect(Atoms, sorted, aa, bb)
             /\ (IF Dim = 2 THEN Mass2d(Atoms, sorted, aa, bb) ELSE Mass3d(Atoms, sorted, aa, bb)) = MassRect(Atoms, sorted, aa, bb)
=============================================================================
