--------------------------- MODULE Trace_Product2 ---------------------------
(* Validation of real multi-asset / rate products (harness/drivers/product2_run.py) against Product2.tla *)
EXTENDS Product2, Json, IOUtils, TLCExt
Lines == ndJsonDeserialize(IOEnv.TRACE_FILE)
VARIABLES tid, ln, bad, fin
tvars == <<tid, ln, bad, fin, ivars>>
T == Lines[tid].ev
H == Lines[tid].hdr
Id == Lines[tid].tid
E == T[ln]
\* JSON fractions [n, d] are sequences already; records keep the driver's field names
Term == H.t
TraceInit == tid \in 1..Len(Lines) /\ ln = 1 /\ bad = 0 /\ fin = FALSE /\ L = <<>> /\ K = <<0, 1>>
More == ~fin /\ ln <= Len(T)
EvalStep ==
    /\ More /\ E.e = "Eval"
    /\ IF E.v[2] # 0 /\ <<E.v[1], E.v[2]>> = Value(Term, E.S)
       THEN bad' = bad ELSE PrintT(<<"VIOL", Id, ln, "Pure", H.kind>>) /\ bad' = bad + 1
    /\ ln' = ln + 1 /\ UNCHANGED <<tid, fin, ivars>>
UpdStep == More /\ E.e = "Upd" /\ ln' = ln + 1 /\ UNCHANGED <<tid, fin, bad, ivars>>
\* Credit default swap payoff (product/payoff.py CDS) with the discounting 2^(-t), maturity Tm, default time tau (integers),
\* recovery R and spread s (fractions):  value = [ (1 - R) 2^(Tm - tau) [tau <= Tm]  -  s (1 - 2^(-min(Tm, tau))) 2^Tm / ln 2 ].
\* The rational parts are formed here; 1 / ln 2 enters as 144270 / 100000; the value is recorded in units of 1e-5.
RECURSIVE P2(_)
P2(k) == IF k = 0 THEN 1 ELSE 2 * P2(k - 1)
CdsA(r) == IF r.tau > r.Tm THEN <<0, 1>> ELSE QMul(QSub(QOne, <<r.R[1], r.R[2]>>), <<P2(r.Tm - r.tau), 1>>)
CdsB(r) == LET m == IF r.tau < r.Tm THEN r.tau ELSE r.Tm IN
           QMul(<<r.s[1], r.s[2]>>, QMul(QSub(QOne, <<1, P2(m)>>), <<P2(r.Tm), 1>>))
AbsV(x) == IF x < 0 THEN -x ELSE x
CdsRowOK(r) == LET a == CdsA(r) b == CdsB(r) IN
    AbsV(r.v * a[2] * b[2] - (a[1] * b[2] * 100000 - b[1] * a[2] * 144270)) <= 3 * a[2] * b[2] + AbsV(b[1]) * a[2]
CdsStep ==
    /\ More /\ E.e = "Cds"
    /\ IF \A i \in 1..Len(E.rows) : CdsRowOK(E.rows[i]) THEN bad' = bad
       ELSE PrintT(<<"VIOL", Id, ln, "Pure", H.kind>>) /\ bad' = bad + 1
    /\ ln' = ln + 1 /\ UNCHANGED <<tid, fin, ivars>>
RaiseStep ==
    /\ More /\ E.e = "Raise"
    /\ PrintT(<<"REJECT", Id, ln, "Raise", H.kind>>)
    /\ bad' = bad + 1 /\ ln' = ln + 1 /\ UNCHANGED <<tid, fin, ivars>>
Finish ==
    /\ ~fin /\ ln = Len(T) + 1
    /\ IF bad = 0 THEN PrintT(<<"ACCEPT", Id>>) ELSE TRUE
    /\ fin' = TRUE /\ UNCHANGED <<tid, ln, bad, ivars>>
TraceNext == EvalStep \/ UpdStep \/ CdsStep \/ RaiseStep \/ Finish
TraceSpec == TraceInit /\ [][TraceNext]_tvars
=============================================================================
