--------------------------- MODULE Trace_Product2 ---------------------------
(* Validation of real multi-asset / rate products (harness/drivers/product2_run.py) against Product2.tla *)
EXTENDS Product2, Json, IOUtils, TLCExt
Lines == ndJsonDeserialize(IOEnv.TRACE_FILE)
VARIABLES tid, ln, bad, fin
tvars == <<tid, ln, bad, fin, ivars>>
T == Lines[tid].ev
H == Lines[tid].hdr
Id == Lines[tid].tid
E == T[ln]
\* JSON fractions [n, d] are sequences already; records keep the driver's field names
Term == H.t
TraceInit == tid \in 1..Len(Lines) /\ ln = 1 /\ bad = 0 /\ fin = FALSE /\ L = <<>> /\ K = <<0, 1>>
More == ~fin /\ ln <= Len(T)
EvalStep ==
    /\ More /\ E.e = "Eval"
    /\ IF E.v[2] # 0 /\ <<E.v[1], E.v[2]>> = Value(Term, E.S)
       THEN bad' = bad ELSE PrintT(<<"VIOL", Id, ln, "Pure", H.kind>>) /\ bad' = bad + 1
    /\ ln' = ln + 1 /\ UNCHANGED <<tid, fin, ivars>>
UpdStep == More /\ E.e = "Upd" /\ ln' = ln + 1 /\ UNCHANGED <<tid, fin, bad, ivars>>
RaiseStep ==
    /\ More /\ E.e = "Raise"
    /\ PrintT(<<"REJECT", Id, ln, "Raise", H.kind>>)
    /\ bad' = bad + 1 /\ ln' = ln + 1 /\ UNCHANGED <<tid, fin, ivars>>
Finish ==
    /\ ~fin /\ ln = Len(T) + 1
    /\ IF bad = 0 THEN PrintT(<<"ACCEPT", Id>>) ELSE TRUE
    /\ fin' = TRUE /\ UNCHANGED <<tid, ln, bad, ivars>>
TraceNext == EvalStep \/ UpdStep \/ RaiseStep \/ Finish
TraceSpec == TraceInit /\ [][TraceNext]_tvars
=============================================================================
