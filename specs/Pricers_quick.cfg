SPECIFICATION Spec
CONSTANT Support = {0, 1, 2, 3, 4, 5, 6}
CONSTANT MaxWeight = 2
CONSTANT Ladders <- LaddersAll
CONSTANT DfNum = 3
INVARIANT ParityHolds
INVARIANT BoundsHold
INVARIANT MonotoneHolds
INVARIANT ConvexHolds
INVARIANT DigitalHolds
CHECK_DEADLOCK FALSE
