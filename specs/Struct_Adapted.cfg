SPECIFICATION SSpec
CONSTANT Shapes = {}
CONSTANT MaxW = 0
CONSTANT Mult = 1
CHECK_DEADLOCK FALSE
