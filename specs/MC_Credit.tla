------------------------------ MODULE MC_Credit ------------------------------
EXTENDS Credit
CONSTANTS Dim
Atoms1 == << <<<<-1>>, 2>>, <<<<-3>>, 1>>, <<<<-5>>, 4>>, <<<<3>>, 7>>, <<<<-7>>, 3>> >>
Atoms2 == << <<<<-1, -1>>, 2>>, <<<<-3, 1>>, 1>>, <<<<1, -3>>, 3>>, <<<<-3, -3>>, 5>>, <<<<-5, -1>>, 7>>, <<<<-1, -5>>, 4>>, <<<<3, 3>>, 6>>, <<<<-5, -5>>, 1>> >>
Atoms3 == << <<<<-1, -1, -1>>, 2>>, <<<<-3, 1, -1>>, 1>>, <<<<1, -3, 3>>, 3>>, <<<<-3, -3, -5>>, 5>>, <<<<-5, -1, 1>>, 7>>, <<<<-1, -5, -3>>, 4>>, <<<<3, 3, -5>>, 6>> >>
Atoms == IF Dim = 1 THEN Atoms1 ELSE IF Dim = 2 THEN Atoms2 ELSE Atoms3
Levels == {-6, -4, -2}
VARIABLES a
Init == a \in [1..Dim -> Levels]
Next == UNCHANGED a
Spec == Init /\ [][Next]_a
InclusionExclusion == Theta(Atoms, a) = InclExcl(Atoms, a)
Monotone == \A i \in 1..Dim : \A v \in Levels : v >= a[i] => Theta(Atoms, [a EXCEPT ![i] = v]) >= Theta(Atoms, a)
=============================================================================
