------------------------------ MODULE Trace_Path ------------------------------
(***************************************************************************)
(* Validation of paths produced by the real simulators with scripted       *)
(* random sources (harness/drivers/path_run.py) against Path.tla.          *)
(***************************************************************************)
EXTENDS Integers, Sequences, FiniteSets, TLC, Json, IOUtils, TLCExt, SequencesExt

Lines == ndJsonDeserialize(IOEnv.TRACE_FILE)
VARIABLES tid, ln, bad, fin
tvars == <<tid, ln, bad, fin>>
T == Lines[tid].ev
H == Lines[tid].hdr
Id == Lines[tid].tid
E == T[ln]
SumSeq(s) == FoldSeq(LAMBDA x, y : x + y, 0, s)

TraceInit == tid \in 1..Len(Lines) /\ ln = 1 /\ bad = 0 /\ fin = FALSE
More == ~fin /\ ln <= Len(T)
Viol(name) == PrintT(<<"VIOL", Id, ln, name, H.kind>>)
Judge(checks) ==
    LET failed == SelectSeq(checks, LAMBDA c : ~c[2]) IN
    IF failed = <<>> THEN bad' = bad ELSE (\A i \in 1..Len(failed) : Viol(failed[i][1])) /\ bad' = bad + 1

JumpSum(c, t) == SumSeq([i \in 1..Len(H.jumps) |-> IF H.jumps[i][1] <= t THEN H.jumps[i][2][c] ELSE 0])
NT == Len(E.times)
StartsAtZero == E.times[1] = 0 /\ \A c \in 1..H.ncomp : E.jump[c][1] = 0 /\ E.d0[c] = 0
TimesIncreasing == \A k \in 1..(NT - 1) : E.times[k] < E.times[k + 1]
EndsAtMaturity == E.times[NT] = H.maturity
OnProductDates == IF H.mode = "fixed" THEN E.times = H.dates
                  ELSE /\ \A i \in 1..Len(H.jumps) : \E k \in 1..NT : E.times[k] = H.jumps[i][1]
RunningSum == \A c \in 1..H.ncomp : Len(E.jump[c]) = NT /\ \A k \in 1..NT : E.jump[c][k] = JumpSum(c, E.times[k])
\* the k-th step of dimension m (0-based) uses its own Brownian increment, the (m * steps + k)-th number drawn, scaled by
\* sqrt(dt_k): (delta)^2 * TICKS / sigma^2 = dt * v^2.  Rows: the d fine dimensions, then the d coarse ones (same numbers).
Variate(c, k) == ((c - 1) % H.d) * (NT - 1) + k
DiffusionRunningSum ==
    \A c \in 1..H.ncomp : /\ Len(E.dsq[c]) = NT - 1
                          /\ \A k \in 1..(NT - 1) : E.dsq[c][k] = (IF H.sigs[c] = 0 THEN 0 ELSE (E.times[k + 1] - E.times[k]) * Variate(c, k) * Variate(c, k))
StepCap == H.mode # "maxstep" \/ H.eps >= H.maturity \/ \A k \in 1..(NT - 1) : E.times[k + 1] - E.times[k] <= H.eps
\* where the finding "refinement stops at the last jump" shows: the step that ends at maturity / the no-jump path
CapSig == IF \A k \in 1..(NT - 2) : E.times[k + 1] - E.times[k] <= H.eps THEN "laststep" ELSE "inner"

\* the jump counts are asked interval by interval of the product dates: the lengths handed over are the gaps between
\* consecutive dates, in order (the same cycle again for a further pass over the dates)
DateGaps == [i \in 1..(Len(H.dates) - 1) |-> H.dates[i + 1] - H.dates[i]]
DtsOK == ("dts" \notin DOMAIN E) \/ \A i \in 1..Len(E.dts) : E.dts[i] = DateGaps[((i - 1) % Len(DateGaps)) + 1]
PathStep ==
    /\ More /\ E.e = "Path"
    /\ LET checks == << <<"Numeric", E.bad = 0>>,
                        <<"StartsAtZero", E.bad # 0 \/ StartsAtZero>>,
                        <<"TimesIncreasingToMaturity", E.bad # 0 \/ (TimesIncreasing /\ EndsAtMaturity)>>,
                        <<"OnProductDates", E.bad # 0 \/ OnProductDates>>,
                        <<"RunningSumOfJumps", E.bad # 0 \/ RunningSum>>,
                        <<"RunningSumOfBrownianIncrements", E.bad # 0 \/ DiffusionRunningSum>>,
                        <<"JumpCountsAskedPerDateInterval", E.bad # 0 \/ DtsOK>> >>
           failed == SelectSeq(checks, LAMBDA c : ~c[2])
           capok == E.bad # 0 \/ StepCap
       IN /\ (\A i \in 1..Len(failed) : Viol(failed[i][1]))
          /\ (IF capok THEN TRUE ELSE PrintT(<<"VIOL", Id, ln, "StepCap", CapSig>>))
          /\ bad' = IF failed = <<>> /\ capok THEN bad ELSE bad + 1
    /\ ln' = ln + 1 /\ UNCHANGED <<tid, fin>>

\* the refinement function itself on the array of jump times it is given
LastAtOrBefore(t) == LET S == {i \in 1..Len(E.in_t) : E.in_t[i] <= t} IN IF S = {} THEN 0 ELSE CHOOSE i \in S : \A j \in S : i >= j
FinerOK ==
    /\ \A k \in 1..(Len(E.t) - 1) : E.t[k] < E.t[k + 1]
    /\ \A i \in 1..Len(E.in_t) : \E k \in 1..Len(E.t) : E.t[k] = E.in_t[i]
    /\ \A c \in 1..Len(E.v) : Len(E.v[c]) = Len(E.t) /\
          \A k \in 1..Len(E.t) : E.v[c][k] = (IF LastAtOrBefore(E.t[k]) = 0 THEN 0 ELSE E.in_v[c][LastAtOrBefore(E.t[k])])
    /\ (H.eps >= H.maturity \/ (E.t[1] <= H.eps /\ \A k \in 1..(Len(E.t) - 1) : E.t[k + 1] - E.t[k] <= H.eps))
FinerStep ==
    /\ More /\ E.e = "Finer"
    /\ Judge(<< <<"RefinementKeepsPointsAndValues", E.bad = 0 /\ FinerOK>> >>)
    /\ ln' = ln + 1 /\ UNCHANGED <<tid, fin>>

RaiseStep ==
    /\ More /\ E.e = "Raise"
    /\ PrintT(<<"REJECT", Id, ln, "Raise", H.kind>>)
    /\ bad' = bad + 1 /\ ln' = ln + 1 /\ UNCHANGED <<tid, fin>>
Finish ==
    /\ ~fin /\ ln = Len(T) + 1
    /\ IF bad = 0 THEN PrintT(<<"ACCEPT", Id>>) ELSE TRUE
    /\ fin' = TRUE /\ UNCHANGED <<tid, ln, bad>>
TraceNext == PathStep \/ FinerStep \/ RaiseStep \/ Finish
TraceSpec == TraceInit /\ [][TraceNext]_tvars
=============================================================================
