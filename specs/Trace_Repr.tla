------------------------------ MODULE Trace_Repr ------------------------------
(***************************************************************************)
(* Validation of representation-change histories on real LevyTriplet       *)
(* objects and of the martingale routes of exponential models              *)
(* (harness/drivers/repr_run.py) against Repr.tla.                         *)
(***************************************************************************)
EXTENDS Integers, Sequences, FiniteSets, TLC, Json, IOUtils, TLCExt, SequencesExt

Lines == ndJsonDeserialize(IOEnv.TRACE_FILE)
VARIABLES tid, ln, bad, fin
tvars == <<tid, ln, bad, fin>>
T == Lines[tid].ev
H == Lines[tid].hdr
Id == Lines[tid].tid
E == T[ln]
SumSeq(s) == FoldSeq(LAMBDA x, y : x + y, 0, s)
Abs(x) == IF x < 0 THEN -x ELSE x

TraceInit == tid \in 1..Len(Lines) /\ ln = 1 /\ bad = 0 /\ fin = FALSE
More == ~fin /\ ln <= Len(T)
Viol(name) == PrintT(<<"VIOL", Id, ln, name, H.kind>>)
Judge(checks) ==
    LET failed == SelectSeq(checks, LAMBDA c : ~c[2]) IN
    IF failed = <<>> THEN bad' = bad ELSE (\A i \in 1..Len(failed) : Viol(failed[i][1])) /\ bad' = bad + 1

\* compensators of the atomic measure (positions in units; |x| < 1 strictly, the atoms never sit on +-1)
Ism == SumSeq([k \in 1..Len(H.atoms_u) |-> IF Abs(H.atoms_u[k][1]) < H.one THEN H.atoms_u[k][1] * H.atoms_u[k][2] ELSE 0])
Ilg == SumSeq([k \in 1..Len(H.atoms_u) |-> IF Abs(H.atoms_u[k][1]) > H.one THEN H.atoms_u[k][1] * H.atoms_u[k][2] ELSE 0])
Canonical(aa, r) ==
    CASE r = "ONEONE" -> aa [] r = "ZERO" -> aa + Ism [] r = "CENTER" -> aa - Ilg
      [] r = "TILDE" -> IF H.fv THEN aa + Ism ELSE aa
\* exact histories: after every step the canonical drift is the one of the declaration
SeqOK == \A i \in 1..Len(E.steps) : Canonical(E.steps[i][2], E.steps[i][1]) = Canonical(H.a0, H.rep0)
SeqStep ==
    /\ More /\ E.e = "Seq"
    /\ Judge(<< <<"ConversionPathIndependentAndReversible", E.bad = 0 /\ SeqOK>> >>)
    /\ ln' = ln + 1 /\ UNCHANGED <<tid, fin>>
\* a history with a truncation of the measure to (cut[1], cut[2]) in the middle
InCut(x) == E.cut[1] < x /\ x < E.cut[2]
IsmT == SumSeq([k \in 1..Len(H.atoms_u) |-> IF Abs(H.atoms_u[k][1]) < H.one /\ InCut(H.atoms_u[k][1]) THEN H.atoms_u[k][1] * H.atoms_u[k][2] ELSE 0])
IlgT == SumSeq([k \in 1..Len(H.atoms_u) |-> IF Abs(H.atoms_u[k][1]) > H.one /\ InCut(H.atoms_u[k][1]) THEN H.atoms_u[k][1] * H.atoms_u[k][2] ELSE 0])
CanonicalT(aa, r) ==
    CASE r = "ONEONE" -> aa [] r = "ZERO" -> aa + IsmT [] r = "CENTER" -> aa - IlgT
      [] r = "TILDE" -> IF H.fv THEN aa + IsmT ELSE aa
SeqTOK == /\ \A i \in 1..Len(E.pre) : Canonical(E.pre[i][2], E.pre[i][1]) = Canonical(H.a0, H.rep0)
          /\ Canonical(E.at_cut[2], E.at_cut[1]) = Canonical(H.a0, H.rep0)
          \* the truncation itself leaves representation and drift as they are
          /\ E.post[1] = E.at_cut
          /\ \A i \in 1..Len(E.post) : CanonicalT(E.post[i][2], E.post[i][1]) = CanonicalT(E.at_cut[2], E.at_cut[1])
SeqTStep ==
    /\ More /\ E.e = "SeqT"
    /\ Judge(<< <<"ConversionPathIndependentAndReversible", E.bad = 0 /\ SeqTOK>> >>)
    /\ ln' = ln + 1 /\ UNCHANGED <<tid, fin>>
\* real measures: steps = <<representation, class of a, class of the canonical drift>> (equality classes, rel 1e-9)
SeqQOK == /\ \A i, j \in 1..Len(E.steps) : E.steps[i][3] = E.steps[j][3]
          /\ \A i, j \in 1..Len(E.steps) : E.steps[i][1] = E.steps[j][1] => E.steps[i][2] = E.steps[j][2]
SeqQStep ==
    /\ More /\ E.e = "SeqQ"
    /\ Judge(<< <<"ConversionPathIndependentAndReversible", SeqQOK>> >>)
    /\ ln' = ln + 1 /\ UNCHANGED <<tid, fin>>
\* martingale routes: relative deviation from the forward in units of 1e-12
MartStep ==
    /\ More /\ E.e = "Martingale"
    /\ IF Abs(E.q) <= 2000 /\ Abs(E.qi) <= 2000 THEN bad' = bad
       ELSE PrintT(<<"VIOL", Id, ln, "DriftRoutesGiveTheForward", E.route>>) /\ bad' = bad + 1
    /\ ln' = ln + 1 /\ UNCHANGED <<tid, fin>>
RaiseStep ==
    /\ More /\ E.e = "Raise"
    /\ PrintT(<<"REJECT", Id, ln, "Raise", H.kind>>)
    /\ bad' = bad + 1 /\ ln' = ln + 1 /\ UNCHANGED <<tid, fin>>
Finish ==
    /\ ~fin /\ ln = Len(T) + 1
    /\ IF bad = 0 THEN PrintT(<<"ACCEPT", Id>>) ELSE TRUE
    /\ fin' = TRUE /\ UNCHANGED <<tid, ln, bad>>
TraceNext == SeqStep \/ SeqTStep \/ SeqQStep \/ MartStep \/ RaiseStep \/ Finish
TraceSpec == TraceInit /\ [][TraceNext]_tvars
=============================================================================
