------------------------------ MODULE CouplingNd ------------------------------
(***************************************************************************)
(* The level coupling of the two-dimensional Levy-copula chain             *)
(* (rpylib/process/coupling/couplinglevycopula.py, __coupling_state) over  *)
(* an atomic joint Levy measure on a lattice grid with the same axis in    *)
(* both dimensions.                                                        *)
(*                                                                         *)
(* A fine state x = <<i, j>> (1-based indices).  Coordinates of even       *)
(* increment are kept; the coordinates of odd increment (set A) are moved  *)
(* to one of the 2^|A| neighbouring coarse states ("corners").  The corner *)
(* probabilities are, by Rule:                                             *)
(*   "cell"     mass(own cell of the kept coordinates x half cell of the   *)
(*              moved ones) / mass(cell of x)            -- what C03 needs *)
(*   "imargin"  the same ratio taken under the A-margin of the measure,    *)
(*              i.e. the kept coordinates integrated over the whole line   *)
(*              -- the pinned code (before bc64169)                        *)
(* Telescoping: for every coarse state y other than the origin,            *)
(*   sum_x rate(x) * P(x -> y) = rate of y in the level l-1 chain.         *)
(* Rational arithmetic: pairs <<num, den>> reduced by their gcd.           *)
(***************************************************************************)
EXTENDS Integers, Sequences, FiniteSets, TLC, FiniteSetsExt

CONSTANTS Halfs,            \* states on each side of the origin at level 0 (set of choices)
          MaxLevel,
          Rule,             \* "cell" | "imargin"
          WeightKind,       \* "product" (factorising weights) | "skew"
          Seeds             \* set of naturals: one joint weight table per seed

VARIABLES lvl, Half, seed
nvars == <<lvl, Half, seed>>

StepAt(l) == 2 ^ (MaxLevel + 2 - l)
NAt(l) == Half * (2 ^ l)
AxisAt(l) == [i \in 1..(2 * NAt(l) + 1) |-> (i - NAt(l) - 1) * StepAt(l)]
OrgAt(l) == NAt(l) + 1
Edge == Half * StepAt(0)
Odd1 == {p \in (-Edge)..Edge : p % 2 # 0}
Atoms == Odd1 \X Odd1
\* joint weights: "product" factorises (then the two rules agree), "skew" does not
Ix(q) == (q + Edge) \div 2
W(p) == IF WeightKind = "product" THEN (1 + ((Ix(p[1]) + seed) % 3)) * (1 + ((Ix(p[2]) * (seed + 1)) % 2))
        ELSE 1 + ((Ix(p[1]) * Ix(p[2]) * (seed + 1) + Ix(p[1]) * seed + Ix(p[2]) * (seed \div 2)) % (3 + (seed % 3)))
Mass(S) == FoldSet(LAMBDA p, acc : acc + W(p), 0, S)

Init == lvl = 0 /\ Half \in Halfs /\ seed \in Seeds
NextLevel == lvl < MaxLevel /\ lvl' = lvl + 1 /\ UNCHANGED <<Half, seed>>
Spec == Init /\ [][NextLevel]_nvars

\* one-dimensional cells at level l (end cells stop at the end states)
Lo(a, k) == IF k = 1 THEN a[1] ELSE (a[k - 1] + a[k]) \div 2
Hi(a, k) == IF k = Len(a) THEN a[Len(a)] ELSE (a[k] + a[k + 1]) \div 2
In1(a, k, q) == Lo(a, k) < q /\ q < Hi(a, k)
\* half cell of fine index k towards neighbour k + s (s = -1 | 1)
InHalf(a, k, s, q) == In1(a, k, q) /\ (IF s = 1 THEN q > a[k] ELSE q < a[k])
Cell(a, x) == {p \in Atoms : In1(a, x[1], p[1]) /\ In1(a, x[2], p[2])}

GCD(m, n) == LET RECURSIVE G(_, _)
                 G(u, v) == IF v = 0 THEN u ELSE G(v, u % v)
             IN G(m, n)
Red(r) == IF r[1] = 0 THEN <<0, 1>> ELSE LET g == GCD(r[1], r[2]) IN <<r[1] \div g, r[2] \div g>>
RAdd(r, s) == Red(<<r[1] * s[2] + s[1] * r[2], r[2] * s[2]>>)
RECURSIVE RSum(_)
RSum(S) == IF S = {} THEN <<0, 1>> ELSE LET e == CHOOSE e \in S : TRUE IN RAdd(e[2], RSum(S \ {e}))

\* the moved coordinates of x and the mass the coupling sends from x to the coarse state y, as a rational
Moved(x) == {k \in 1..2 : x[k] % 2 = 0}
Reach(x, y) == \A k \in 1..2 : IF k \in Moved(x) THEN y[k] \in {x[k] - 1, x[k] + 1} ELSE y[k] = x[k]
SentMass(l, x, y) ==
    LET a == AxisAt(l)
        A == Moved(x)
        cell == Cell(a, x)
        \* atoms that count for the corner towards y, and for the whole, under the chosen rule
        KeepOK(p) == \A k \in (1..2) \ A : IF Rule = "cell" THEN In1(a, x[k], p[k]) ELSE TRUE
        Whole == {p \in Atoms : KeepOK(p) /\ \A k \in A : In1(a, x[k], p[k])}
        Corner == {p \in Whole : \A k \in A : InHalf(a, x[k], y[k] - x[k], p[k])}
    IN IF Mass(Whole) = 0 THEN <<0, 1>> ELSE Red(<<Mass(cell) * Mass(Corner), Mass(Whole)>>)
FineStates(l) == (1..Len(AxisAt(l))) \X (1..Len(AxisAt(l)))
Received(l, y) ==
    RSum({<<x, SentMass(l, x, y)>> : x \in {x \in FineStates(l) : Moved(x) # {} /\ Reach(x, y)}})
Telescoping ==
    lvl >= 1 =>
      \A y \in FineStates(lvl) :
         (y[1] % 2 = 1 /\ y[2] % 2 = 1 /\ y # <<OrgAt(lvl), OrgAt(lvl)>>) =>
            RAdd(<<Mass(Cell(AxisAt(lvl), y)), 1>>, Received(lvl, y))
              = <<Mass(Cell(AxisAt(lvl - 1), <<(y[1] + 1) \div 2, (y[2] + 1) \div 2>>)), 1>>
\* the corner probabilities of one fine state add up to one (every atom of the cell goes to exactly one corner)
CornersPartition ==
    lvl >= 1 =>
      \A x \in FineStates(lvl) : Moved(x) # {} =>
          LET ys == {y \in FineStates(lvl) : Reach(x, y)} IN
          RSum({<<y, SentMass(lvl, x, y)>> : y \in ys}) = <<Mass(Cell(AxisAt(lvl), x)), 1>>
Locality ==
    lvl >= 1 => \A x \in FineStates(lvl) : \A y \in FineStates(lvl) :
        Reach(x, y) => \A k \in 1..2 : y[k] % 2 = 1 /\ (x[k] % 2 = 1 => y[k] = x[k])
=============================================================================
