---------------------------- MODULE MC_MLMCCountPinned ----------------------------
EXTENDS Integers
VARIABLES
    \* @type: Int;
    L,
    \* @type: Int -> Int;
    Nl,
    \* @type: Int -> Int;
    dNl,
    \* @type: Int -> Int;
    len,
    \* @type: Int -> Int;
    real,
    \* @type: Str;
    pc
INSTANCE MLMCCount WITH LMax <- 3, NewCounter <- 1
=============================================================================
