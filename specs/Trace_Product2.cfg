SPECIFICATION TraceSpec
CONSTANT RateVals = {}
CONSTANT StrikeVals = {}
CONSTANT MaxRates = 0
CHECK_DEADLOCK FALSE
