------------------------------ MODULE Rationals ------------------------------
(* Reduced rationals <<num, den>>, den > 0 (shared by the specifications that need exact non-integer arithmetic) *)
EXTENDS Integers, Sequences
QAbs(x) == IF x < 0 THEN -x ELSE x
QGcd(m, n) == LET RECURSIVE G(_, _)
                  G(u, v) == IF v = 0 THEN u ELSE G(v, u % v)
              IN G(QAbs(m), QAbs(n))
Q(n, d) == IF n = 0 THEN <<0, 1>>
           ELSE LET g == QGcd(n, d) s == IF d < 0 THEN -1 ELSE 1 IN <<s * (n \div g), s * (d \div g)>>
QInt(n) == <<n, 1>>
QAdd(r, s) == Q(r[1] * s[2] + s[1] * r[2], r[2] * s[2])
QNeg(r) == <<-r[1], r[2]>>
QSub(r, s) == QAdd(r, QNeg(s))
QMul(r, s) == Q(r[1] * s[1], r[2] * s[2])
QDiv(r, s) == Q(r[1] * s[2], r[2] * s[1])
QLeq(r, s) == r[1] * s[2] <= s[1] * r[2]
QLt(r, s) == r[1] * s[2] < s[1] * r[2]
QMax(r, s) == IF QLeq(r, s) THEN s ELSE r
QMin(r, s) == IF QLeq(r, s) THEN r ELSE s
QZero == <<0, 1>>
QOne == <<1, 1>>
RECURSIVE QSum(_)
QSum(s) == IF s = <<>> THEN QZero ELSE QAdd(Head(s), QSum(Tail(s)))
RECURSIVE QProd(_)
QProd(s) == IF s = <<>> THEN QOne ELSE QMul(Head(s), QProd(Tail(s)))
\* ascending sort of a sequence of rationals (insertion)
RECURSIVE QSort(_)
QInsert(s, x) == LET k == Len(SelectSeq(s, LAMBDA y : QLeq(y, x))) IN SubSeq(s, 1, k) \o <<x>> \o SubSeq(s, k + 1, Len(s))
QSort(s) == IF s = <<>> THEN <<>> ELSE QInsert(QSort(Tail(s)), Head(s))
=============================================================================
