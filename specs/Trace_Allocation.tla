--------------------------- MODULE Trace_Allocation ---------------------------
(***************************************************************************)
(* Validation of the real compute_mc_paths_giles / criteria_giles against  *)
(* Allocation.tla on the inputs TLC enumerates (perfect-square variances   *)
(* and costs, rational rmse^2, integer level means).  One event = one      *)
(* call of the real function with its result.  The inequality is evaluated *)
(* on the code's N_l in exact rational arithmetic.                         *)
(***************************************************************************)
EXTENDS Allocation, Json, IOUtils, TLCExt

Lines == ndJsonDeserialize(IOEnv.TRACE_FILE)
Vn == atoi(IOEnv.ALLOC_VN)
Vd == atoi(IOEnv.ALLOC_VD)
Bn == atoi(IOEnv.ALLOC_BN)
Bd == atoi(IOEnv.ALLOC_BD)
VARIABLES tid, ln, bad, fin
tvars == <<avars, tid, ln, bad, fin>>
T == Lines[tid].ev
Id == Lines[tid].tid
E == T[ln]

TraceInit == /\ tid \in 1..Len(Lines) /\ ln = 1 /\ bad = 0 /\ fin = FALSE
             /\ a = <<>> /\ b = <<>> /\ pq = <<1, 1>> /\ N = <<>> /\ done = FALSE

\* --- allocation event ----------------------------------------------------
AllocOK == E.bad = 0 /\ Len(E.N) = Len(E.a) /\ BudgetHolds(E.a, E.N, E.p, E.q)
AllocSig == IF HasZeroCost(E.a, E.b) THEN "zerocost" ELSE "regular"
\* transcription-level comparison (no verdict): the code's N_l equals the exact ceiling, or exceeds it by one
AllocDrift == E.bad = 0 /\ \E k \in 1..Len(E.a) :
                 LET x == Alloc(E.a, E.b, E.p, E.q)[k] IN E.N[k] # x /\ E.N[k] # x + 1
ZeroVarOK == \A k \in 1..Len(E.a) : E.a[k] = 0 => E.N[k] = 0

AllocStep ==
    /\ ~fin /\ ln <= Len(T) /\ E.e = "Alloc"
    /\ IF AllocOK THEN bad' = bad ELSE (PrintT(<<"VIOL", Id, ln, "Budget", AllocSig>>) /\ bad' = bad + 1)
    /\ IF AllocDrift /\ AllocOK THEN PrintT(<<"DRIFT", Id, ln, "Alloc", E.N>>) ELSE TRUE
    /\ ln' = ln + 1 /\ UNCHANGED <<avars, tid, fin>>

\* --- bias-test event -----------------------------------------------------
BiasOK == LET c == BiasCmp(E.m, E.alpha, E.p, E.q) IN
          CASE E.ret = "T" -> c <= 0
            [] E.ret = "F" -> c >= 0
            [] OTHER -> FALSE          \* the test raised
BiasSig == IF Len(E.m) < 3 THEN "fewlevels" ELSE "regular"
BiasStep ==
    /\ ~fin /\ ln <= Len(T) /\ E.e = "Bias"
    /\ IF BiasOK THEN bad' = bad ELSE (PrintT(<<"VIOL", Id, ln, "BiasTest", BiasSig>>) /\ bad' = bad + 1)
    /\ ln' = ln + 1 /\ UNCHANGED <<avars, tid, fin>>

\* --- measured shares -------------------------------------------------------
ShareStep ==
    /\ ~fin /\ ln <= Len(T) /\ E.e = "Shares"
    /\ IF E.vn = vn /\ E.vd = vd /\ E.bn = bn /\ E.bd = bd /\ (bn * vd + vn * bd <= bd * vd) /\ vn > 0 /\ bn > 0
       THEN bad' = bad ELSE (PrintT(<<"VIOL", Id, ln, "SharesFit", "shares">>) /\ bad' = bad + 1)
    /\ ln' = ln + 1 /\ UNCHANGED <<avars, tid, fin>>

Finish ==
    /\ ~fin /\ ln = Len(T) + 1
    /\ IF bad = 0 THEN PrintT(<<"ACCEPT", Id>>) ELSE TRUE
    /\ fin' = TRUE /\ UNCHANGED <<avars, tid, ln, bad>>

Unknown ==
    /\ ~fin /\ ln <= Len(T) /\ E.e \notin {"Alloc", "Bias", "Shares"}
    /\ PrintT(<<"REJECT", Id, ln, "UnknownEvent", "">>)
    /\ bad' = bad + 1 /\ ln' = ln + 1 /\ UNCHANGED <<avars, tid, fin>>

TraceNext == AllocStep \/ BiasStep \/ ShareStep \/ Finish \/ Unknown
TraceSpec == TraceInit /\ [][TraceNext]_tvars
=============================================================================
