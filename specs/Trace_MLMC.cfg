SPECIFICATION TraceSpec
CONSTANT Confs = {}
CONSTANT RecordScript = FALSE
CHECK_DEADLOCK FALSE
