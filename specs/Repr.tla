--------------------------------- MODULE Repr ---------------------------------
(***************************************************************************)
(* Drift of a Levy triplet under changes of the Levy-Khintchine            *)
(* representation (LevyTriplet.set_representation in levymodel.py).        *)
(* Over an atomic measure the compensators are integers:                   *)
(*   Ism = sum_{|x|<1} x w   (small jumps),  Ilg = sum_{|x|>=1} x w.       *)
(* C10: converting the drift between representations is path-independent   *)
(* and reversible: the canonical drift is the same in every reachable      *)
(* state, and coming back to a representation restores its drift.          *)
(***************************************************************************)
EXTENDS Integers, Sequences, FiniteSets, TLC

CONSTANTS Isms, Ilgs, A0s, MaxSteps

Reprs == {"ONEONE", "ZERO", "CENTER", "TILDE"}
VARIABLES ism, ilg, fv, a, rep, a0, rep0, n, seen
rvars == <<ism, ilg, fv, a, rep, a0, rep0, n, seen>>

Canonical(aa, r, s, l, f) ==
    CASE r = "ONEONE" -> aa
      [] r = "ZERO"   -> aa + s
      [] r = "CENTER" -> aa - l
      [] r = "TILDE"  -> IF f THEN aa + s ELSE aa
FromCanonical(c, r, s, l, f) ==
    CASE r = "ONEONE" -> c
      [] r = "ZERO"   -> c - s
      [] r = "CENTER" -> c + l
      [] r = "TILDE"  -> IF f THEN c - s ELSE c

Init == /\ ism \in Isms /\ ilg \in Ilgs /\ fv \in BOOLEAN /\ a0 \in A0s /\ rep0 \in Reprs
        /\ a = a0 /\ rep = rep0 /\ n = 0 /\ seen = <<>>
\* set_representation(r): no-op when r is the current one, else recompute from the canonical drift
SetRepresentation(r) ==
    /\ n < MaxSteps
    /\ a' = IF r = rep THEN a ELSE FromCanonical(Canonical(a, rep, ism, ilg, fv), r, ism, ilg, fv)
    /\ rep' = r /\ n' = n + 1 /\ seen' = Append(seen, <<rep, a>>)
    /\ UNCHANGED <<ism, ilg, fv, a0, rep0>>
Next == \E r \in Reprs : SetRepresentation(r)
Spec == Init /\ [][Next]_rvars

CanonicalInvariant == Canonical(a, rep, ism, ilg, fv) = Canonical(a0, rep0, ism, ilg, fv)
Reversible == \A i \in 1..Len(seen) : seen[i][1] = rep => seen[i][2] = a
BackToStart == rep = rep0 => a = a0
=============================================================================
