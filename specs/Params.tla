-------------------------------- MODULE Params --------------------------------
(***************************************************************************)
(* Parameter objects with cached derived quantities                        *)
(* (HEMParameters._xi, VGParameters._c/_lambda_p/_lambda_m,                *)
(* CGMYParameters._CGammamY/_MpowerY/_GpowerY, BlackScholesParameters      *)
(* .variance) and the rebuild-after-update contract used by calibration:   *)
(*   assign attributes (constraints enforced on every assignment), call    *)
(*   initialisation(), build the model.                                    *)
(* State: the raw parameter tuple, `stamp` = the tuple at which the cached *)
(* quantities were last computed.  C20: a model built after               *)
(* initialisation sees stamp = params (it behaves like one constructed     *)
(* from the final values); a rejected assignment changes nothing.          *)
(* Reinitialises = FALSE models a class whose initialisation() does not    *)
(* refresh its cache.                                                      *)
(***************************************************************************)
EXTENDS Integers, Sequences, FiniteSets, TLC

CONSTANTS Names, Values, Admissible(_, _), MaxSteps, Reinitialises

VARIABLES params, stamp, built, n, lastRejected
pvars == <<params, stamp, built, n, lastRejected>>

Init == /\ params \in {p \in [Names -> Values] : \A k \in Names : Admissible(k, p[k])}
        /\ stamp = params /\ built = <<>> /\ n = 0 /\ lastRejected = FALSE
Assign(k, v) ==
    /\ n < MaxSteps
    /\ IF Admissible(k, v) THEN params' = [params EXCEPT ![k] = v] /\ lastRejected' = FALSE
       ELSE params' = params /\ lastRejected' = TRUE            \* ValueError, nothing assigned
    /\ n' = n + 1 /\ UNCHANGED <<stamp, built>>
Initialisation ==
    /\ n < MaxSteps
    /\ stamp' = (IF Reinitialises THEN params ELSE stamp)
    /\ n' = n + 1 /\ lastRejected' = FALSE /\ UNCHANGED <<params, built>>
\* build the model right after an initialisation: it reads the raw parameters and the cached quantities
Build ==
    /\ n < MaxSteps
    /\ built' = <<params, stamp>>
    /\ n' = n + 1 /\ lastRejected' = FALSE /\ UNCHANGED <<params, stamp>>
InitThenBuild == Initialisation \cdot Build
Next == (\E k \in Names, v \in Values : Assign(k, v)) \/ Initialisation \/ Build
Spec == Init /\ [][Next]_pvars

\* a model built when the cache is fresh is the model of the final values
BuiltAfterInitIsConsistent == (built # <<>> /\ built[2] = built[1]) \/ built = <<>> \/ built[2] # stamp \/ stamp # params
\* what the property needs: initialisation makes the cache fresh
InitialisationRefreshes == [][Initialisation => stamp' = params']_pvars
RejectedAssignmentChangesNothing == [][(\E k \in Names, v \in Values : Assign(k, v) /\ ~Admissible(k, v)) => params' = params]_pvars
=============================================================================
