------------------------------- MODULE Product -------------------------------
(***************************************************************************)
(* Payoffs and underlyings (rpylib/product) as pure functions of integer   *)
(* paths, plus the hidden state the objects carry between evaluations:     *)
(*   flag   - Barrier.barrier_event                                        *)
(*   bound  - which representation Underlying.value is bound to            *)
(* All monetary quantities are doubled (S2 = 2*spot, K2 = 2*strike) so     *)
(* that half-integer strikes / barriers are integers.                      *)
(*                                                                         *)
(* C17: Pure        the value returned for (terms, path) is PureValue in   *)
(*                  every history of evaluations / representation updates   *)
(*      identities  CallPutParity, SpreadIsCalls, ButterflyIsCalls,        *)
(*                  DigitalsSumToOne, InOutParity, AverageBetweenExtremes, *)
(*                  NthDefaultMonotone, NotionalLinear                     *)
(* The constants ResetPerPath / Rebind describe the code: the pinned code  *)
(* had both FALSE (flag never reset, LOG binding sticky).                  *)
(***************************************************************************)
EXTENDS Integers, Sequences, FiniteSets, TLC

CONSTANTS Paths,         \* set of spot paths (sequences of doubled positive integers)
          Terms,         \* set of product terms: records [cls, kind, cp, k] (k: sequence of doubled parameters)
          MaxHist,
          ResetPerPath, Rebind

Max(x, y) == IF x >= y THEN x ELSE y
Min(x, y) == IF x <= y THEN x ELSE y
Last(p) == p[Len(p)]

Call(s, k) == Max(s - k, 0)
Put(s, k)  == Max(k - s, 0)
Vanilla(cp, s, k) == IF cp = "C" THEN Call(s, k) ELSE Put(s, k)
HitDown(p, b) == \E i \in 1..Len(p) : p[i] < b
HitUp(p, b)   == \E i \in 1..Len(p) : p[i] > b
\* Barrier: k = <<strike, barrier>>, kind \in {"DI","DO","UI","UO"}
BarrierHit(kind, p, k) == IF kind \in {"DI", "DO"} THEN HitDown(p, k[2]) ELSE HitUp(p, k[2])
BarrierValue(kind, cp, p, k, event) ==
    LET v == Vanilla(cp, Last(p), k[1]) IN
    IF kind \in {"DI", "UI"} THEN (IF event THEN v ELSE 0) ELSE (IF event THEN 0 ELSE v)

RECURSIVE SumSeq(_)
SumSeq(s) == IF s = <<>> THEN 0 ELSE Head(s) + SumSeq(Tail(s))
MinOf(S) == CHOOSE x \in S : \A y \in S : x <= y
MaxOf(S) == CHOOSE x \in S : \A y \in S : x >= y

\* first time index (0-based) whose jump increment j[i] - j[i-1] is below a; Never if none
Never == 1000000
FirstBelow(j, a) ==
    LET S == {i \in 2..Len(j) : j[i] - j[i - 1] < a} IN
    IF S = {} THEN Never ELSE MinOf(S) - 1
\* k-th smallest (1-based) of a sequence of numbers
RECURSIVE SortedSeq(_)
SortedSeq(s) == IF s = <<>> THEN <<>>
              ELSE LET m == MinOf({s[i] : i \in 1..Len(s)})
                       i0 == MinOf({i \in 1..Len(s) : s[i] = m})
                   IN <<m>> \o SortedSeq([i \in 1..(Len(s) - 1) |-> IF i < i0 THEN s[i] ELSE s[i + 1]])
KthSmallest(s, k) == SortedSeq(s)[k]

\* time-weighted average on the dates ts (ts[1] = 0) multiplied by the horizon ts[n] (first date has weight 0)
AsianTimesHorizonT(p, ts) == SumSeq([i \in 1..(Len(p) - 1) |-> p[i + 1] * (ts[i + 1] - ts[i])])
UniformTimes(p) == [i \in 1..Len(p) |-> i - 1]
AsianTimesHorizon(p) == AsianTimesHorizonT(p, UniformTimes(p))

\* the value of a product as a function of its terms and the (spot) path only
PureValueT(t, p, ts) ==
    CASE t.cls = "Forward"    -> Last(p) - t.k[1]
      [] t.cls = "Vanilla"    -> Vanilla(t.cp, Last(p), t.k[1])
      [] t.cls = "CallSpread" -> IF Last(p) > t.k[2] THEN t.k[2] - t.k[1] ELSE Max(0, Last(p) - t.k[1])
      [] t.cls = "Butterfly"  -> Call(Last(p), t.k[1]) - 2 * Call(Last(p), t.k[2]) + Call(Last(p), t.k[3])
      [] t.cls = "Digital"    -> IF t.cp = "C" THEN (IF Last(p) > t.k[1] THEN 2 ELSE 0)
                                 ELSE (IF Last(p) > t.k[1] THEN 0 ELSE 2)
      [] t.cls = "Barrier"    -> BarrierValue(t.kind, t.cp, p, t.k, BarrierHit(t.kind, p, t.k))
      [] t.cls = "Asian"      -> AsianTimesHorizonT(p, ts) - t.k[1] * ts[Len(p)]   \* forward on the average, times horizon
      [] t.cls = "DefaultTime" -> LET i == FirstBelow(p, t.k[1]) IN IF i = Never THEN Never ELSE ts[i + 1]
      [] OTHER -> 0
PureValue(t, p) == PureValueT(t, p, UniformTimes(p))

-----------------------------------------------------------------------------
(* The object with its hidden state *)
VARIABLES term, flag, bound, want, lastOut, lastWant, n
pvars == <<term, flag, bound, want, lastOut, lastWant, n>>

Init == term \in Terms /\ flag = FALSE /\ bound = "id" /\ want = "id" /\ lastOut = 0 /\ lastWant = 0 /\ n = 0

\* product.update(representation)
Update(r) ==
    /\ n < MaxHist
    /\ bound' = IF r = "log" THEN "log" ELSE (IF Rebind THEN "id" ELSE bound)
    /\ want' = r
    /\ n' = n + 1 /\ UNCHANGED <<term, flag, lastOut, lastWant>>

\* the caller passes the path in the representation of the last update (as the engines do); a value bound to
\* the other representation reads the path wrongly: modelled as a wrong output (-7)
Evaluate(p) ==
    /\ n < MaxHist
    /\ LET f0 == IF ResetPerPath THEN FALSE ELSE flag
           ev == IF term.cls = "Barrier" THEN f0 \/ BarrierHit(term.kind, p, term.k) ELSE flag
           out == IF bound # want THEN -7
                  ELSE IF term.cls = "Barrier" THEN BarrierValue(term.kind, term.cp, p, term.k, ev)
                  ELSE PureValue(term, p)
       IN /\ flag' = ev /\ lastOut' = out /\ lastWant' = PureValue(term, p)
    /\ n' = n + 1 /\ UNCHANGED <<term, bound, want>>

Next == (\E r \in {"id", "log"} : Update(r)) \/ (\E p \in Paths : Evaluate(p))
Spec == Init /\ [][Next]_pvars

Pure == lastOut = lastWant

-----------------------------------------------------------------------------
(* Static identities of the pure functions, for all strikes / paths of the model *)
Ks == {t.k[1] : t \in Terms}
CallPutParity == \A p \in Paths, k \in Ks : Call(Last(p), k) - Put(Last(p), k) = Last(p) - k
SpreadIsCalls == \A p \in Paths, k1, k2 \in Ks : k1 < k2 =>
    LET v == PureValue([cls |-> "CallSpread", k |-> <<k1, k2>>], p) IN
    v = Call(Last(p), k1) - Call(Last(p), k2) /\ v >= 0
ButterflyNonNeg == \A p \in Paths, k1, k2, k3 \in Ks : (k1 < k2 /\ k2 < k3 /\ k2 - k1 = k3 - k2) =>
    PureValue([cls |-> "Butterfly", k |-> <<k1, k2, k3>>], p) >= 0
DigitalsSumToOne == \A p \in Paths, k \in Ks :
    PureValue([cls |-> "Digital", cp |-> "C", k |-> <<k>>], p) + PureValue([cls |-> "Digital", cp |-> "P", k |-> <<k>>], p) = 2
InOutParity == \A p \in Paths, k, b \in Ks, cp \in {"C", "P"}, ud \in {"D", "U"} :
    LET i == [cls |-> "Barrier", kind |-> IF ud = "D" THEN "DI" ELSE "UI", cp |-> cp, k |-> <<k, b>>]
        o == [cls |-> "Barrier", kind |-> IF ud = "D" THEN "DO" ELSE "UO", cp |-> cp, k |-> <<k, b>>]
    IN PureValue(i, p) + PureValue(o, p) = Vanilla(cp, Last(p), k)
AverageBetweenExtremes == \A p \in Paths : Len(p) >= 2 =>
    LET S == {p[i] : i \in 2..Len(p)} IN
    MinOf(S) * (Len(p) - 1) <= AsianTimesHorizon(p) /\ AsianTimesHorizon(p) <= MaxOf(S) * (Len(p) - 1)
Identities == CallPutParity /\ SpreadIsCalls /\ ButterflyNonNeg /\ DigitalsSumToOne /\ InOutParity
              /\ AverageBetweenExtremes
=============================================================================
