----------------------------- MODULE AdaptedTree -----------------------------
(***************************************************************************)
(* The adapted binary search trees                                         *)
(* (distribution/variate/binarysearchtreeadapted.py) as written: the state *)
(* is found by bisection of index ranges, the probability of each half     *)
(* being computed on the fly as the mass of a box of grid cells.           *)
(*                                                                         *)
(* Grid: d axes with sz[k] states, origin at index o[k] (1-based); the     *)
(* weight of a cell (an integer mass) is W[Ix(c)], row-major, 0 at the     *)
(* origin.  A uniform is the odd numerator U of U / (2 N), N = m S the     *)
(* lattice size, S the total mass; "u > mass / S" is "U > sc * mass" with  *)
(* sc = 2 m.                                                               *)
(*                                                                         *)
(* 1-d sampler (BinarySearchTreeAdapted1D): the side of the origin by the  *)
(* probability of the left half-axis, then bisection of the side.          *)
(* n-d sampler (BinarySearchTreeAdapted): the buckets are the products of  *)
(* the pieces {origin}, left part, right part of every axis (all-origin    *)
(* excluded), in the order of itertools.product; the bucket by a search in *)
(* the cumulated bucket masses; inside a bucket with exactly one axis that *)
(* is not reduced to a point, a search in the cumulated cell masses along  *)
(* it; otherwise bisection of the axes in turn.                            *)
(*                                                                         *)
(* ExactLaw (C02): over the N lattice uniforms every cell is returned      *)
(* exactly m W[cell] times.                                                *)
(***************************************************************************)
EXTENDS Integers, Sequences, FiniteSets, FiniteSetsExt

Min2(x, y) == IF x <= y THEN x ELSE y
\* row-major index (1-based) of the coordinate tuple c on the grid of sizes sz
RECURSIVE Ix(_, _)
Ix(c, sz) == IF Len(c) = 1 THEN c[1]
             ELSE (Ix(SubSeq(c, 1, Len(c) - 1), SubSeq(sz, 1, Len(sz) - 1)) - 1) * sz[Len(sz)] + c[Len(c)]
\* all coordinate tuples of a box (sequence of <<l, r>>)
RECURSIVE Cells(_)
Cells(box) == IF box = <<>> THEN {<<>>}
              ELSE {Append(c, x) : c \in Cells(SubSeq(box, 1, Len(box) - 1)), x \in box[Len(box)][1]..box[Len(box)][2]}
BoxMass(W, sz, box) == FoldSet(LAMBDA c, acc : acc + W[Ix(c, sz)], 0, Cells(box))
Point(box) == [k \in 1..Len(box) |-> box[k][1]]
IsPoint(box) == \A k \in 1..Len(box) : box[k][1] = box[k][2]

\* bisection of the axes in turn (sample_one_bucket; with one axis: the loop of the 1-d sampler)
RECURSIVE Bisect(_, _, _, _, _, _)
Bisect(W, sz, box, cur, k, sc) ==
    IF IsPoint(box) THEN Point(box)
    ELSE LET nxt == (k % Len(box)) + 1 IN
         IF box[k][1] = box[k][2] THEN Bisect(W, sz, box, cur, nxt, sc)
         ELSE LET l == box[k][1]
                  r == box[k][2]
                  mid == (l + r) \div 2
                  half == [box EXCEPT ![k] = <<l, mid>>]
                  p == sc * BoxMass(W, sz, half)
              IN IF cur > p THEN Bisect(W, sz, [box EXCEPT ![k] = <<Min2(r, mid + 1), r>>], cur - p, nxt, sc)
                 ELSE Bisect(W, sz, half, cur, nxt, sc)

\* ---- one dimension ---------------------------------------------------------------------------------------------------
Descent1(W, n, o, U, sc) ==
    LET pl == sc * BoxMass(W, <<n>>, << <<1, o - 1>> >>) IN
    IF U > pl THEN Bisect(W, <<n>>, << <<o + 1, n>> >>, U - pl, 1, sc)
    ELSE Bisect(W, <<n>>, << <<1, o - 1>> >>, U, 1, sc)

\* ---- several dimensions ----------------------------------------------------------------------------------------------
Pieces(n, o) == << <<o, o>>, <<1, o - 1>>, <<o + 1, n>> >>
\* itertools.product of the pieces of every axis, the last axis varying fastest; the first (all origins) is dropped
RECURSIVE Prod(_, _)
Prod(sz, o) == IF sz = <<>> THEN << <<>> >>
               ELSE LET rest == Prod(SubSeq(sz, 1, Len(sz) - 1), SubSeq(o, 1, Len(o) - 1))
                        pc == Pieces(sz[Len(sz)], o[Len(o)])
                    IN [i \in 1..(3 * Len(rest)) |-> Append(rest[((i - 1) \div 3) + 1], pc[((i - 1) % 3) + 1])]
Buckets(sz, o) == Tail(Prod(sz, o))
RECURSIVE CumUpTo(_, _, _, _)
CumUpTo(W, sz, bs, b) == IF b = 0 THEN 0 ELSE CumUpTo(W, sz, bs, b - 1) + BoxMass(W, sz, bs[b])
FreeAxes(box) == {k \in 1..Len(box) : box[k][1] # box[k][2]}
\* search in the cumulated cell masses along the free axis k of the box
AlongAxis(W, sz, box, k, cur, sc) ==
    LET cum(x) == sc * BoxMass(W, sz, [box EXCEPT ![k] = <<box[k][1], x>>])
        hit == {x \in box[k][1]..box[k][2] : cum(x) >= cur}
        x0 == IF hit = {} THEN box[k][2] + 1 ELSE CHOOSE x \in hit : \A y \in hit : x <= y
    IN [Point(box) EXCEPT ![k] = x0]
\* bs = Buckets(sz, o), cum[b] = mass of the buckets 1..b (cum[0] = 0): handed over so that a caller evaluates them once
DescentNc(W, sz, bs, cum, U, sc) ==
    LET hit == {b \in 1..Len(bs) : sc * cum[b] >= U}
        b == IF hit = {} THEN Len(bs) ELSE CHOOSE x \in hit : \A y \in hit : x <= y
        cur == U - sc * cum[b - 1]
        free == FreeAxes(bs[b])
    IN IF Cardinality(free) = 1 THEN AlongAxis(W, sz, bs[b], CHOOSE k \in free : TRUE, cur, sc)
       ELSE Bisect(W, sz, bs[b], cur, 1, sc)
CumTable(W, sz, bs) == [b \in 0..Len(bs) |-> CumUpTo(W, sz, bs, b)]
DescentN(W, sz, o, U, sc) == DescentNc(W, sz, Buckets(sz, o), CumTable(W, sz, Buckets(sz, o)), U, sc)

\* ---- design check ------------------------------------------------------------------------------------------------------
CONSTANTS Shapes,     \* set of <<sizes, origins>>
          MaxW,       \* cell weights 0..MaxW
          Mult        \* lattice multiplier m
VARIABLES shape, wts
avars == <<shape, wts>>
NCells(sz) == FoldSet(LAMBDA k, acc : acc * sz[k], 1, 1..Len(sz))
Total(W) == FoldSet(LAMBDA i, acc : acc + W[i], 0, 1..Len(W))
Init == /\ shape \in Shapes
        /\ wts \in [1..NCells(shape[1]) -> 0..MaxW]
        /\ wts[Ix(shape[2], shape[1])] = 0
        /\ Total(wts) > 0
Next == UNCHANGED avars
Spec == Init /\ [][Next]_avars
Descent(U) == IF Len(shape[1]) = 1 THEN Descent1(wts, shape[1][1], shape[2][1], U, 2 * Mult)
              ELSE DescentN(wts, shape[1], shape[2], U, 2 * Mult)
Lattice == {2 * i + 1 : i \in 0..(Mult * Total(wts) - 1)}
ExactLaw ==
    \A c \in Cells([k \in 1..Len(shape[1]) |-> <<1, shape[1][k]>>]) :
        Cardinality({U \in Lattice : Descent(U) = c}) = Mult * wts[Ix(c, shape[1])]
=============================================================================
