----------------------------- MODULE MC_Pairing -----------------------------
EXTENDS Pairing
KindsAll == {"cantor", "rs", "szudzik", "pepis", "rs3", "sz3", "zrs2", "zrs3", "z1d"}
IntervalsQ == {<<l, r>> : l \in 1..6, r \in 1..6}
\* the lazy product yields every index tuple of the given sizes exactly once (all size tuples with product <= 64)
SizeTuples == {s \in UNION {[1..n -> 1..6] : n \in 1..3} : ProdTo(s, Len(s)) <= 64}
LazyBijective == \A s \in SizeTuples :
    LET N == ProdTo(s, Len(s)) IN
    /\ \A n \in 0..(N - 1) : \A k \in 1..Len(s) : LazyTuple(n, s)[k] \in 0..(s[k] - 1)
    /\ \A n, m \in 0..(N - 1) : n # m => LazyTuple(n, s) # LazyTuple(m, s)
ASSUME LazyBijective
=============================================================================
