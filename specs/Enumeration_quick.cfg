SPECIFICATION ESpec
CONSTANT NMax = 0
CONSTANT Kinds = {}
CONSTANT Intervals = {}
CONSTANT Boxes <- BoxesQ
CONSTANT StrictBound = FALSE
CONSTANT BoundFromAllStates = TRUE
INVARIANT NoDuplicates
INVARIANT OnlyAdmissible
INVARIANT ExactlyOnce
CHECK_DEADLOCK FALSE
