SPECIFICATION Spec
CONSTANT NMax = 4
CONSTANT Alphabet = {0, 1, 3}
INVARIANT RowsExact
INVARIANT ErrNonNeg
INVARIANT AdjMeanIsRawMean
INVARIANT AdjVarNoLarger
CHECK_DEADLOCK FALSE
