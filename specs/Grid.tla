-------------------------------- MODULE Grid --------------------------------
(***************************************************************************)
(* CTMC state grids (rpylib/grid/spatial.py): construction and in-place    *)
(* refinement.  An axis is a strictly increasing sequence of integers      *)
(* (lattice grids are scaled by 2^K so that K refinements keep mid-points  *)
(* integral; for grids whose cell boundary is not the arithmetic mid-point *)
(* the inserted point is any point strictly inside the gap).               *)
(*                                                                         *)
(* Storage is modelled explicitly because the constructors build           *)
(* `[axis] * dimension`: all dimensions alias ONE array object.  `slot[d]` *)
(* is the object held by dimension d, `store[o]` its content.  refine()    *)
(* reads each slot's array, builds a NEW array by np.insert and rebinds    *)
(* the slot (InPlace = FALSE).  InPlace = TRUE is the deviation where the  *)
(* shared array itself is modified.                                        *)
(*                                                                         *)
(* C13: WellFormed (every state)  and  Nesting (every Refine step).        *)
(***************************************************************************)
EXTENDS Integers, Sequences, FiniteSets, TLC

CONSTANTS Dims,          \* set of dimensions, e.g. 1..2
          Shapes,        \* set of <<nLeft, nRight>> (number of states on each side of 0)
          K,             \* maximum number of refinements
          Shared,        \* set of BOOLEAN: constructor aliases one array / one array per dimension
          MidRule,       \* "arith" (lattice) or "any" (any point strictly inside the gap)
          InPlace

VARIABLES dim, slot, store, nobj, hh, origin, trunc, lvl, prev
gvars == <<dim, slot, store, nobj, hh, origin, trunc, lvl, prev>>

Unit == 2 ^ K                     \* spacing of the initial lattice
Axis(d) == store[slot[d]]
InitAxis(nl, nr) == [i \in 1..(nl + nr + 1) |-> (i - nl - 1) * Unit]

Init ==
    /\ dim \in Dims
    /\ \E sh \in Shapes, s \in Shared :
          IF s THEN /\ nobj = 1 /\ store = <<InitAxis(sh[1], sh[2])>> /\ slot = [d \in 1..dim |-> 1]
                    /\ origin = sh[1] + 1 /\ trunc = [d \in 1..dim |-> <<-sh[1] * Unit, sh[2] * Unit>>]
               ELSE /\ nobj = dim /\ store = [o \in 1..dim |-> InitAxis(sh[1], sh[2])] /\ slot = [d \in 1..dim |-> d]
                    /\ origin = sh[1] + 1 /\ trunc = [d \in 1..dim |-> <<-sh[1] * Unit, sh[2] * Unit>>]
    /\ hh = Unit /\ lvl = 0 /\ prev = <<>>

\* the refined copy of an axis: a new point strictly inside every gap
Mids(a) == IF MidRule = "arith"
           THEN {[i \in 1..(Len(a) - 1) |-> (a[i] + a[i + 1]) \div 2]}
           ELSE [1..(Len(a) - 1) -> Int]    \* constrained below
RefinedWith(a, m) == [j \in 1..(2 * Len(a) - 1) |-> IF j % 2 = 1 THEN a[(j + 1) \div 2] ELSE m[j \div 2]]
\* probability-step grids: any point strictly inside the gap, except next to 0 where the boundary is +-h/2
GapChoices(a, i) == IF a[i] = 0 \/ a[i + 1] = 0 THEN {(a[i] + a[i + 1]) \div 2} ELSE (a[i] + 1)..(a[i + 1] - 1)
RECURSIVE MidSeqs(_, _)
MidSeqs(a, i) == IF i = 0 THEN {<<>>} ELSE {Append(m, x) : m \in MidSeqs(a, i - 1), x \in GapChoices(a, i)}
AnyMid(a) == MidSeqs(a, Len(a) - 1)
Candidates(a) == IF MidRule = "arith" THEN Mids(a) ELSE AnyMid(a)

\* refine(): for every dimension in turn, read the slot's array, insert, rebind; then h /= 2, origin *= 2
RECURSIVE RefineFrom(_, _, _, _)
RefineFrom(d, sl, st, n) ==   \* set of possible <<slot, store, nobj>> after refining dimensions d..dim
    IF d > dim THEN {<<sl, st, n>>}
    ELSE UNION { IF InPlace
                 THEN RefineFrom(d + 1, sl, [st EXCEPT ![sl[d]] = RefinedWith(st[sl[d]], m)], n)
                 ELSE RefineFrom(d + 1, [sl EXCEPT ![d] = n + 1], Append(st, RefinedWith(st[sl[d]], m)), n + 1)
                 : m \in Candidates(st[sl[d]]) }

Refine ==
    /\ lvl < K
    /\ \E r \in RefineFrom(1, slot, store, nobj) : slot' = r[1] /\ store' = r[2] /\ nobj' = r[3]
    /\ hh' = hh \div 2 /\ origin' = 2 * origin - 1      \* 1-based index of 0: 2*(origin-1)+1
    /\ lvl' = lvl + 1
    /\ prev' = [d \in 1..dim |-> Axis(d)]
    /\ UNCHANGED <<dim, trunc>>

Next == Refine
Spec == Init /\ [][Next]_gvars

-----------------------------------------------------------------------------
StrictlyIncreasing(a) == \A i \in 1..(Len(a) - 1) : a[i] < a[i + 1]

WellFormedAxis(a, o, h, t) ==
    /\ StrictlyIncreasing(a)
    /\ o \in 2..(Len(a) - 1)
    /\ a[o] = 0 /\ a[o - 1] = -h /\ a[o + 1] = h
    /\ t = <<a[1], a[Len(a)]>>

WellFormed == \A d \in 1..dim : WellFormedAxis(Axis(d), origin, hh, trunc[d])

NestedAxis(old, new) ==
    /\ Len(new) = 2 * Len(old) - 1
    /\ \A i \in 1..Len(old) : new[2 * i - 1] = old[i]
    /\ \A i \in 1..(Len(old) - 1) : old[i] < new[2 * i] /\ new[2 * i] < old[i + 1]

Nesting == [][Refine => \A d \in 1..dim : NestedAxis(Axis(d), Axis(d)')]_gvars
NestedNow == lvl > 0 => \A d \in 1..dim : NestedAxis(prev[d], Axis(d))
HalvesAndDoubles == hh * (2 ^ lvl) = Unit
=============================================================================
