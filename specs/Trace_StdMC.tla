----------------------------- MODULE Trace_StdMC -----------------------------
(***************************************************************************)
(* Validation of recorded runs of the real standard engine                 *)
(* (harness/drivers/stdmc_run.py) against the definitions of StdMC.tla.    *)
(* hdr: n, dim (payoff components), payoffs ys[component][path], controls  *)
(* xs[control][path] (all integers: notional and discount factor are       *)
(* powers of two and divided out by the sensor).                           *)
(***************************************************************************)
EXTENDS Integers, Sequences, FiniteSets, TLC, Json, IOUtils, TLCExt, SequencesExt

Lines == ndJsonDeserialize(IOEnv.TRACE_FILE)
VARIABLES tid, ln, bad, fin, stored
tvars == <<tid, ln, bad, fin, stored>>
T == Lines[tid].ev
H == Lines[tid].hdr
Id == Lines[tid].tid
E == T[ln]
SumSeq(s) == FoldSeq(LAMBDA x, y : x + y, 0, s)
Sq(s) == [k \in 1..Len(s) |-> s[k] * s[k]]
Mul(s, t) == [k \in 1..Len(s) |-> s[k] * t[k]]
N == H.n

TraceInit == tid \in 1..Len(Lines) /\ ln = 1 /\ bad = 0 /\ fin = FALSE /\ stored = {}
More == ~fin /\ ln <= Len(T)
Viol(name) == PrintT(<<"VIOL", Id, ln, name, H.kind>>)
Judge(checks) ==
    LET failed == SelectSeq(checks, LAMBDA c : ~c[2]) IN
    IF failed = <<>> THEN bad' = bad ELSE (\A i \in 1..Len(failed) : Viol(failed[i][1])) /\ bad' = bad + 1

\* statistics.add(index, path): path `s` (its serial in simulation order) stored at index idx
AddStep ==
    /\ More /\ E.e = "Add"
    \* (several worker processes: which worker simulates which index is not scripted; every path carries the same value)
    /\ Judge(<< <<"EachPathOnceAtItsIndex", E.idx \in 0..(N - 1) /\ E.idx \notin stored
                                             /\ (H.multi \/ E.s = E.idx + 1)
                                             /\ \A c \in 1..H.dim : E.y[c] = H.ys[c][IF H.multi THEN 1 ELSE E.s]>> >>)
    /\ stored' = stored \cup {E.idx} /\ ln' = ln + 1 /\ UNCHANGED <<tid, fin>>

ErrNum(y) == N * SumSeq(Sq(y)) - SumSeq(y) * SumSeq(y)
Bnum(x, y) == N * SumSeq(Mul(x, y)) - SumSeq(x) * SumSeq(y)
Bden(x) == N * SumSeq(Sq(x)) - SumSeq(x) * SumSeq(x)
Adj(x, y, k) == y[k] * Bden(x) * N - Bnum(x, y) * (N * x[k] - SumSeq(x))

RawOK == /\ stored = 0..(N - 1)
         /\ Len(E.rows) = N /\ \A k \in 1..N : \A c \in 1..H.dim : E.rows[k][c] = H.ys[c][k]
         /\ \A c \in 1..H.dim : E.priceN[c] = SumSeq(H.ys[c])
\* (the variance is that of the deviations from any common part: H.yd = H.ys minus a constant, small numbers)
ErrOK == \A c \in 1..H.dim : E.errN[c] = ErrNum(H.yd[c])
\* one control, price = sample mean of the control: adjusted samples exact, mean unchanged
OneControlOK ==
    H.ncv # 1 \/ \A c \in 1..H.dim :
        LET x == H.xs[1][c] y == H.ys[c] IN
        IF Bden(x) = 0 THEN E.cvPriceN[c] = SumSeq(y)
        ELSE /\ \A k \in 1..N : E.adjN[c][k] = Adj(x, y, k)
             /\ E.cvPriceN[c] = SumSeq(y)
\* two controls: b = Cxx^-1 Cxy on the n^2-scaled covariances; adjusted sample times det * n.
\* Named branch of the code (accepted): if any entry of the controls' covariance matrix vanishes the controls are
\* ignored (b = 0); a singular matrix (det = 0) is not judged.
Cov(u, v) == N * SumSeq(Mul(u, v)) - SumSeq(u) * SumSeq(v)
Adj2(x1, x2, y, k) ==
    LET c11 == Cov(x1, x1) c22 == Cov(x2, x2) c12 == Cov(x1, x2) cy1 == Cov(x1, y) cy2 == Cov(x2, y)
        det == c11 * c22 - c12 * c12
        b1 == c22 * cy1 - c12 * cy2
        b2 == c11 * cy2 - c12 * cy1
    IN IF c11 = 0 \/ c22 = 0 \/ c12 = 0 THEN y[k] * det * N
       ELSE y[k] * det * N - b1 * (N * x1[k] - SumSeq(x1)) - b2 * (N * x2[k] - SumSeq(x2))
Small(x) == x < 200000 /\ x > -200000
TwoControlsOK ==
    H.ncv # 2 \/ \A c \in 1..H.dim :
        LET x1 == H.xs[1][c] x2 == H.xs[2][c] y == H.ys[c]
            det == Cov(x1, x1) * Cov(x2, x2) - Cov(x1, x2) * Cov(x1, x2) IN
        det = 0 \/ ~Small(det * N) \/ \A k \in 1..N : E.adj2N[c][k] = Adj2(x1, x2, y, k)
\* any number of controls priced at their sample means: mean unchanged, variance not larger
ControlsOK ==
    H.ncv = 0 \/ \A c \in 1..H.dim : E.cvPriceN[c] = SumSeq(H.ys[c]) /\ E.cvVarQ[c] <= E.rawVarQ[c] + 1

RetStep ==
    /\ More /\ E.e = "Ret"
    /\ Judge(<< <<"Numeric", E.bad = 0>>,
                <<"PriceIsMeanOverExactlyNPaths", E.bad # 0 \/ RawOK>>,
                <<"ErrorIsUnbiasedStdOverSqrtN", E.bad # 0 \/ ErrOK>>,
                <<"ControlVariateAdjustment", E.bad # 0 \/ (OneControlOK /\ TwoControlsOK /\ ControlsOK)>> >>)
    /\ ln' = ln + 1 /\ UNCHANGED <<tid, fin, stored>>
RaiseStep ==
    /\ More /\ E.e = "Raise"
    /\ PrintT(<<"REJECT", Id, ln, "Raise", H.kind>>)
    /\ bad' = bad + 1 /\ ln' = ln + 1 /\ UNCHANGED <<tid, fin, stored>>
Finish ==
    /\ ~fin /\ ln = Len(T) + 1
    /\ IF bad = 0 THEN PrintT(<<"ACCEPT", Id>>) ELSE TRUE
    /\ fin' = TRUE /\ UNCHANGED <<tid, ln, bad, stored>>
TraceNext == AddStep \/ RetStep \/ RaiseStep \/ Finish
TraceSpec == TraceInit /\ [][TraceNext]_tvars
=============================================================================
