SPECIFICATION Spec
CONSTANT Dims <- DimsQ2
CONSTANT Shapes <- ShapesAny
CONSTANT K = 2
CONSTANT Shared <- BOOLEAN
CONSTANT MidRule = "any"
CONSTANT InPlace = FALSE
INVARIANT WellFormed
INVARIANT NestedNow
INVARIANT HalvesAndDoubles
PROPERTY Nesting
CHECK_DEADLOCK FALSE
