SPECIFICATION Spec
CONSTANT Confs <- ConfsQuick
CONSTANT RecordScript = FALSE
INVARIANT ExitOnlyOnCriteria
CHECK_DEADLOCK FALSE
