SPECIFICATION Spec
CONSTANT Family <- FamilyAll
CONSTANT Points <- PointsT
CONSTANT Orders = {0, 1, 2, 3, 4, 5}
CONSTANT MaxDepth = 2
CONSTANT ZeroRule = "ab"
INVARIANT TruncatedIsRestriction
INVARIANT Additive
INVARIANT SignOfMoment
INVARIANT DensityVanishesOutside
INVARIANT NestingIsIntersection
CHECK_DEADLOCK FALSE
