SPECIFICATION Spec
CONSTANT Confs <- ConfsQuick
CONSTANT RecordScript = FALSE
INVARIANT TypeOK
INVARIANT RowsExact
INVARIANT MidRunRows
INVARIANT NoCrash
INVARIANT AllSamplesKept
INVARIANT LevelBound
INVARIANT ReturnMeetsAllocation
INVARIANT ProcessExists
CHECK_DEADLOCK FALSE
