----------------------------- MODULE SamplerLaw -----------------------------
(***************************************************************************)
(* C02, abstract: a discrete sampler, seen as a function of the uniform it *)
(* consumes, sends a subset of [0,1) of length p_k to state k.             *)
(*                                                                         *)
(* Weights W are integers (p_k = W[k]/S).  The uniform ranges over the     *)
(* lattice of mid-points u_i = (2i+1)/(2N), N a multiple of the            *)
(* denominators of every threshold any of the algorithms can form, so no   *)
(* draw sits on a threshold and the number of lattice points sent to k is  *)
(* exactly N*W[k]/S.                                                       *)
(*                                                                         *)
(* Abstract machine: draws arrive in ANY order and may repeat; `memo`      *)
(* records what each lattice point returned.  A draw is allowed iff it     *)
(* returns a state of positive weight, agrees with memo (history           *)
(* independence) and keeps the law reachable (no state gets more lattice   *)
(* points than its share).  Implementation modules (Alias, Bst, ...)       *)
(* refine this machine: their draw function is one particular allowed      *)
(* assignment.                                                             *)
(***************************************************************************)
EXTENDS Integers, Sequences, FiniteSets, TLC

CONSTANTS MaxLen, MaxSum, LatticeFactor

RECURSIVE SumSeq(_)
SumSeq(s) == IF s = <<>> THEN 0 ELSE Head(s) + SumSeq(Tail(s))
Vectors == UNION {{w \in [1..n -> 0..MaxSum] : SumSeq(w) \in 1..MaxSum} : n \in 1..MaxLen}

VARIABLES W, memo
svars == <<W, memo>>
S == SumSeq(W)
K == Len(W)
N == LatticeFactor * K * S
Share(k) == (N * W[k]) \div S            \* exact: S divides N
Count(k) == Cardinality({i \in DOMAIN memo : memo[i] = k})

Init == W \in Vectors /\ memo = <<>>     \* memo: partial function lattice point -> state (as a function with finite domain)

Draw(i, k) ==
    /\ i \in 0..(N - 1) /\ k \in 1..K
    /\ W[k] > 0
    /\ (i \in DOMAIN memo => memo[i] = k)
    /\ (i \notin DOMAIN memo => Count(k) < Share(k))
    /\ memo' = [j \in (DOMAIN memo) \cup {i} |-> IF j = i THEN k ELSE memo[j]]
    /\ UNCHANGED W

Next == \E i \in 0..(N - 1), k \in 1..K : Draw(i, k)
Spec == Init /\ [][Next]_svars

NeverZeroWeight == \A i \in DOMAIN memo : W[memo[i]] > 0
NeverOverShare == \A k \in 1..K : Count(k) <= Share(k)
\* after a full sweep the law is exact
ExactLaw == (DOMAIN memo = 0..(N - 1)) => \A k \in 1..K : Count(k) = Share(k)
=============================================================================
