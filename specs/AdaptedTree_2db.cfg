SPECIFICATION Spec
CONSTANT Shapes <- Shapes2b
CONSTANT MaxW = 1
CONSTANT Mult = 2
INVARIANT ExactLaw
CHECK_DEADLOCK FALSE
