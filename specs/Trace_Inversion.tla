--------------------------- MODULE Trace_Inversion ---------------------------
(***************************************************************************)
(* Validation of the real inversion sampler, observed draw by draw         *)
(* (harness/drivers/inversion_run.py), against Inversion.tla.              *)
(*   faithful layer: the model state (cum, stored, last, before) is        *)
(*     advanced by Inversion!Sample; where the observed internal state     *)
(*     differs a DRIFT notice is printed (not a verdict) and the observed  *)
(*     state is adopted;                                                   *)
(*   verdict layer: LawOK - the returned state is the one whose cumulative *)
(*     interval contains u, whatever was drawn before.                     *)
(***************************************************************************)
EXTENDS Inversion, Json, IOUtils, TLCExt

Lines == ndJsonDeserialize(IOEnv.TRACE_FILE)
VARIABLES tid, ln, bad, fin
tvars == <<tid, ln, bad, fin, ivars>>
T == Lines[tid].ev
H == Lines[tid].hdr
Id == Lines[tid].tid
E == T[ln]
HCfg == [adm |-> [i \in 1..Len(H.adm) |-> H.adm[i] = 1], w |-> H.w, cap |-> H.cap]

TraceInit == /\ tid \in 1..Len(Lines) /\ ln = 1 /\ bad = 0 /\ fin = FALSE
             /\ cfg = <<>> /\ cum = <<>> /\ stored = <<>> /\ last = -1 /\ before = None
             /\ ndraws = 0 /\ lastU = 0 /\ res = None
More == ~fin /\ ln <= Len(T)
Viol(name) == PrintT(<<"VIOL", Id, ln, name, H.kind>>)
Judge(checks) ==
    LET failed == SelectSeq(checks, LAMBDA c : ~c[2]) IN
    IF failed = <<>> THEN bad' = bad ELSE (\A i \in 1..Len(failed) : Viol(failed[i][1])) /\ bad' = bad + 1
Drift(what, model, seen) == IF model = seen THEN TRUE ELSE PrintT(<<"DRIFT", Id, ln, what, model, seen>>)
Adopt == cum' = E.cum /\ stored' = E.stored /\ last' = E.last /\ before' = E.before

BuiltStep ==
    /\ More /\ E.e = "Built"
    /\ LET c == HCfg p == Project(c, 0, -1, None, FALSE) IN
         /\ Judge(<< <<"Numeric", E.bad = 0 /\ H.S = Total(c)>>,
                     <<"PrefixOK", E.bad # 0 \/ Len(E.stored) = 0 \/ (E.stored = <<p[1]>> /\ E.cum = <<c.w[p[1] + 1]>>)>> >>)
         /\ Drift("built", <<p[2], p[3]>>, <<E.last, E.before>>)
         /\ cfg' = c
    /\ Adopt /\ ln' = ln + 1 /\ UNCHANGED <<tid, fin, ndraws, lastU, res>>
\* the stored prefix, when it can be observed, is a prefix of the enumeration with the right cumulative weights
SeenPrefixOK ==
    Len(E.stored) = 0 \/
      (/\ Len(E.cum) = Len(E.stored)
       /\ {E.stored[i] : i \in 1..Len(E.stored)} = FirstAdm(cfg, Len(E.stored))
       /\ \A i \in 1..Len(E.stored) : E.cum[i] = SumW(cfg, {q \in Adm(cfg) : q <= E.stored[i]})
       /\ \A i \in 1..(Len(E.stored) - 1) : E.stored[i] < E.stored[i + 1])
DrawStep ==
    /\ More /\ E.e = "Draw"
    /\ LET r == IF Len(cum) > 0 THEN Sample(cfg, E.u2, cum, stored, last, before) ELSE <<cum, stored, last, before, None>> IN
         /\ Judge(<< <<"Numeric", E.bad = 0>>,
                     <<"ExactLaw", E.bad # 0 \/ E.res = Target(cfg, E.u2)>>,
                     <<"PrefixOK", E.bad # 0 \/ SeenPrefixOK>> >>)
         /\ Drift("state", <<r[1], r[2], r[3], r[4]>>, <<E.cum, E.stored, E.last, E.before>>)
         /\ res' = E.res
    /\ Adopt /\ lastU' = E.u2 /\ ndraws' = ndraws + 1 /\ ln' = ln + 1 /\ UNCHANGED <<tid, fin, cfg>>
RaiseStep ==
    /\ More /\ E.e = "Raise"
    /\ PrintT(<<"REJECT", Id, ln, "Raise", H.kind>>)
    /\ bad' = bad + 1 /\ ln' = ln + 1 /\ UNCHANGED <<tid, fin, ivars>>
Finish ==
    /\ ~fin /\ ln = Len(T) + 1
    /\ IF bad = 0 THEN PrintT(<<"ACCEPT", Id>>) ELSE TRUE
    /\ fin' = TRUE /\ UNCHANGED <<tid, ln, bad, ivars>>
TraceNext == BuiltStep \/ DrawStep \/ RaiseStep \/ Finish
TraceSpec == TraceInit /\ [][TraceNext]_tvars
=============================================================================
