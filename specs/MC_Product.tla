----------------------------- MODULE MC_Product -----------------------------
EXTENDS Product
PathsSmall == {<<6, 8, 4>>, <<6, 2, 10>>, <<6, 6, 6>>, <<6, 12, 7>>}
Kset == {3, 5, 7, 9, 6}
TermsSmall ==
    {[cls |-> "Barrier", kind |-> kd, cp |-> cp, k |-> <<k, b>>] : kd \in {"DI", "DO", "UI", "UO"}, cp \in {"C", "P"}, k \in {5, 7}, b \in {3, 9, 11}}
    \cup {[cls |-> "Vanilla", cp |-> cp, k |-> <<k>>] : cp \in {"C", "P"}, k \in Kset}
    \cup {[cls |-> "Digital", cp |-> cp, k |-> <<k>>] : cp \in {"C", "P"}, k \in Kset}
    \cup {[cls |-> "Forward", k |-> <<k>>] : k \in Kset}
    \cup {[cls |-> "Asian", k |-> <<k>>] : k \in {0, 5}}
=============================================================================
