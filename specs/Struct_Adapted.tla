--------------------------- MODULE Struct_Adapted ---------------------------
(***************************************************************************)
(* Specification -> code for the adapted binary search trees: the descent  *)
(* of AdaptedTree.tla is evaluated by TLC at every lattice uniform of the  *)
(* driver's sweeps (harness/drivers/sampler_run.py, chains built over      *)
(* atomic measures through the public factory) and compared, draw by draw, *)
(* with the state the REAL sampler returned.  A difference is a DRIFT      *)
(* notice (the transcription and the code bisect differently), not a       *)
(* verdict: the law is judged by AdaptedTree.tla (design) and              *)
(* Trace_Sampler.tla (every state exactly N W_k / S times).                *)
(***************************************************************************)
EXTENDS AdaptedTree, TLC, Json, IOUtils, TLCExt
Lines == ndJsonDeserialize(IOEnv.TRACE_FILE)
VARIABLES tid, done
svars == <<tid, done, avars>>
H == Lines[tid].hdr
Sizes == H.ad.sizes
Orgs == H.ad.orgs
OneD == Len(Sizes) = 1
SInit == /\ tid \in 1..Len(Lines) /\ done = FALSE
         /\ shape = <<Lines[tid].hdr.ad.sizes, Lines[tid].hdr.ad.orgs>>
         /\ wts = Lines[tid].hdr.W
Sweeps == SelectSeq(Lines[tid].ev, LAMBDA e : e.e = "Sweep")
S == Total(H.W)
Sc == 2 * (H.N \div S)
Seen == Sweeps[1].ks
\* the first lattice point at which the transcription and the code disagree (-1: none), and how many do
Verdict ==
    LET bs == Buckets(Sizes, Orgs)
        cum == CumTable(H.W, Sizes, bs)
        model == [i \in 0..(H.N - 1) |->
                    IF OneD THEN Descent1(H.W, Sizes[1], Orgs[1], 2 * i + 1, Sc)[1]
                    ELSE Ix(DescentNc(H.W, Sizes, bs, cum, 2 * i + 1, Sc), Sizes)]
        diff == {i \in 0..(H.N - 1) : Seen[i + 1] # model[i]}
    IN IF diff = {} THEN <<0, -1, 0, 0>>
       ELSE LET i == CHOOSE x \in diff : \A y \in diff : x <= y IN <<Cardinality(diff), i, model[i], Seen[i + 1]>>
Compare ==
    /\ ~done
    /\ LET v == IF Sweeps = <<>> THEN <<0, -1, 0, 0>> ELSE Verdict IN
       IF v[1] = 0 THEN TRUE
       ELSE PrintT(<<"DRIFT", Lines[tid].tid, 1, "adapted-descent", v[1], v[2], v[3], v[4]>>)
    /\ PrintT(<<"ACCEPT", Lines[tid].tid>>)
    /\ done' = TRUE /\ UNCHANGED <<tid, avars>>
SNext == Compare
SSpec == SInit /\ [][SNext]_svars
=============================================================================
