------------------------------ MODULE CopulaMass ------------------------------
(***************************************************************************)
(* Rectangle mass of a Levy-copula model (rpylib/model/levycopulamodel.py) *)
(* over an ATOMIC Levy measure on a lattice of Z^d (d = 2, 3), through the  *)
(* exact copula of that measure:                                           *)
(*   tail integral  U_I(x) = prod_i sgn(x_i) * nu( prod_{i in I} I(x_i) ), *)
(*   I(x) = (x, oo) for x >= 0, (-oo, x) for x < 0.                        *)
(* Three definitions of the mass of the rectangle prod (a_i, b_i) of the   *)
(* I-margin:                                                               *)
(*   MassRect - direct sum over the atoms                                  *)
(*   MassNd   - the code's general algorithm: recursion on the first       *)
(*              straddling coordinate + signed volume of the tail integral *)
(*   Mass2d / Mass3d - the hard-coded fast paths, branch by branch         *)
(* C12: all three agree for every rectangle not containing the origin,     *)
(* every sign pattern, finite / infinite ends, every index subset; the     *)
(* mass is non-negative and additive (MassRect is a measure).              *)
(* End points never sit on an atom (even vs odd lattice points); +-Inf are *)
(* the integers +-BIG.  End points exactly at 0 are a recorded finding.    *)
(***************************************************************************)
EXTENDS Integers, Sequences, FiniteSets, TLC, SequencesExt

BIG == 1000000
SumSeq(s) == FoldSeq(LAMBDA x, y : x + y, 0, s)
Sgn(x) == IF x < 0 THEN -1 ELSE 1
\* atom coordinate p lies in I(x)
InHalf(p, x) == IF x < 0 THEN p < x ELSE p > x

\* atoms: sequence of <<position tuple, weight>>; idx: sequence of coordinates (1-based) of the margin
MassRect(atoms, idx, a, b) ==
    SumSeq([k \in 1..Len(atoms) |->
              IF \A i \in 1..Len(idx) : a[i] < atoms[k][1][idx[i]] /\ atoms[k][1][idx[i]] < b[i] THEN atoms[k][2] ELSE 0])
TailInt(atoms, idx, x) ==
    LET s == SumSeq([k \in 1..Len(atoms) |-> IF \A i \in 1..Len(idx) : InHalf(atoms[k][1][idx[i]], x[i]) THEN atoms[k][2] ELSE 0])
        RECURSIVE SgnProd(_)
        SgnProd(n) == IF n = 0 THEN 1 ELSE Sgn(x[n]) * SgnProd(n - 1)
    IN SgnProd(Len(idx)) * s

\* signed volume of f over the corners of the rectangle (levycopulamodel.volume)
RECURSIVE Corners(_)
Corners(n) == IF n = 0 THEN {<<>>} ELSE {Append(c, e) : c \in Corners(n - 1), e \in {0, 1}}
Ones(c) == SumSeq(c)
Volume(atoms, idx, a, b) ==
    LET n == Len(idx)
        cs == SetToSeq(Corners(n))
    IN SumSeq([k \in 1..Len(cs) |->
                 (IF (n - Ones(cs[k])) % 2 = 1 THEN -1 ELSE 1)
                 * TailInt(atoms, idx, [i \in 1..n |-> IF cs[k][i] = 0 THEN a[i] ELSE b[i]])])

DropAt(s, k) == [i \in 1..(Len(s) - 1) |-> IF i < k THEN s[i] ELSE s[i + 1]]
Straddles(a, b, i) == a[i] < 0 /\ 0 < b[i]
RECURSIVE MassNd(_, _, _, _)
MassNd(atoms, idx, a, b) ==
    LET S == {i \in 1..Len(idx) : Straddles(a, b, i)} IN
    IF S # {}
    THEN LET k == CHOOSE i \in S : \A j \in S : i <= j IN
         MassNd(atoms, DropAt(idx, k), DropAt(a, k), DropAt(b, k))
           - MassNd(atoms, idx, [a EXCEPT ![k] = b[k]], [b EXCEPT ![k] = BIG])
           - MassNd(atoms, idx, [a EXCEPT ![k] = -BIG], [b EXCEPT ![k] = a[k]])
    ELSE (IF Len(idx) % 2 = 1 THEN -1 ELSE 1) * Volume(atoms, idx, a, b)

Mass1d(atoms, i, a, b) == TailInt(atoms, <<i>>, <<a>>) - TailInt(atoms, <<i>>, <<b>>)
Mass2d(atoms, idx, a, b) ==
    IF Len(idx) = 1 THEN Mass1d(atoms, idx[1], a[1], b[1])
    ELSE LET aux == IF a[2] < 0 /\ 0 < b[2] THEN Mass1d(atoms, idx[1], a[1], b[1])
                    ELSE IF a[1] < 0 /\ 0 < b[1] THEN Mass1d(atoms, idx[2], a[2], b[2]) ELSE 0
             u(x) == TailInt(atoms, idx, x)
         IN u(a) + u(b) - u(<<a[1], b[2]>>) - u(<<b[1], a[2]>>) + aux
\* u_jk over the corners of the (j, k) coordinates:  u(a_j,a_k) - u(a_j,b_k) - u(b_j,a_k) + u(b_j,b_k)
Box2(atoms, ij, aj, bj, ak, bk) ==
    TailInt(atoms, ij, <<aj, ak>>) - TailInt(atoms, ij, <<aj, bk>>) - TailInt(atoms, ij, <<bj, ak>>) + TailInt(atoms, ij, <<bj, bk>>)
Mass3d(atoms, idx, a, b) ==
    IF Len(idx) < 3 THEN Mass2d(atoms, idx, a, b)
    ELSE LET s1 == Straddles(a, b, 1) s2 == Straddles(a, b, 2) s3 == Straddles(a, b, 3)
             i1 == idx[1] i2 == idx[2] i3 == idx[3]
             aux == IF s1 THEN Mass2d(atoms, <<i2, i3>>, <<a[2], a[3]>>, <<b[2], b[3]>>)
                              + (IF s2 THEN Box2(atoms, <<i1, i3>>, a[1], b[1], a[3], b[3])
                                 ELSE IF s3 THEN Box2(atoms, <<i1, i2>>, a[1], b[1], a[2], b[2]) ELSE 0)
                    ELSE IF s2 THEN Mass2d(atoms, <<i1, i3>>, <<a[1], a[3]>>, <<b[1], b[3]>>)
                              + (IF s3 THEN Box2(atoms, <<i1, i2>>, a[1], b[1], a[2], b[2]) ELSE 0)
                    ELSE IF s3 THEN Mass2d(atoms, <<i1, i2>>, <<a[1], a[2]>>, <<b[1], b[2]>>)
                    ELSE 0
             u(x) == TailInt(atoms, idx, x)
             vol == u(a) - u(b) - u(<<a[1], a[2], b[3]>>) - u(<<a[1], b[2], a[3]>>) + u(<<a[1], b[2], b[3]>>)
                    - u(<<b[1], a[2], a[3]>>) + u(<<b[1], a[2], b[3]>>) + u(<<b[1], b[2], a[3]>>)
         IN aux + vol
=============================================================================
