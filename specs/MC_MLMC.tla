------------------------------ MODULE MC_MLMC ------------------------------
EXTENDS MLMC

C(l0, n0, lmax, vals, fx, nc) ==
    [L0 |-> l0, N0 |-> n0, LMax |-> lmax, NsVals |-> vals, fixed |-> fx, newCounter |-> nc]

\* the code as it is after the fix (new level counter 0)
ConfsQuick ==
    { C(0, 1, 2, {0, 1, 3}, FALSE, 0), C(1, 2, 2, {0, 2, 3}, FALSE, 0), C(2, 1, 3, {1, 2}, FALSE, 0),
      C(1, 2, 3, {0, 2}, TRUE, 0), C(0, 1, 2, {0}, TRUE, 0), C(2, 3, 2, {0}, TRUE, 0) }

ConfsThorough ==
    { C(l0, n0, lmax, vals, FALSE, 0) :
        l0 \in 0..2, n0 \in 1..2, lmax \in 2..3, vals \in {{0, 1, 3}, {0, 2, 4}, {1, 2, 5}} }
    \cup { c \in { C(l0, n0, lmax, {0}, TRUE, 0) : l0 \in 0..2, n0 \in 1..3, lmax \in 0..3 } : c.L0 <= c.LMax }

ConfsLive == { C(0, 1, 2, {0, 1, 3}, FALSE, 0), C(1, 2, 2, {0, 2, 3}, FALSE, 0), C(1, 2, 3, {0, 2}, TRUE, 0) }

\* the code as pinned (new level counter 1): RowsExact must be violated (regression demonstration)
ConfsPinned == { C(1, 2, 3, {0, 2, 3}, FALSE, 1) }

\* script generation by simulation (initial level <= maximum level: above it the loop never meets L = LMax and the number
\* of levels, hence the set of allocation vectors TLC has to enumerate for one step, grows without bound)
ConfsSim ==
    { c \in { C(l0, n0, lmax, vals, fx, 0) :
                l0 \in 0..2, n0 \in 1..3, lmax \in 0..4, vals \in {{0, 1, 3, 6}, {0, 2, 4, 5}, {1, 2, 3, 100, 101}}, fx \in BOOLEAN }
        : c.L0 <= c.LMax }
=============================================================================
