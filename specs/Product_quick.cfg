SPECIFICATION Spec
CONSTANT Paths <- PathsSmall
CONSTANT Terms <- TermsSmall
CONSTANT MaxHist = 4
CONSTANT ResetPerPath = TRUE
CONSTANT Rebind = TRUE
INVARIANT Pure
INVARIANT Identities
CHECK_DEADLOCK FALSE
