------------------------------ MODULE Trace_Run ------------------------------
(***************************************************************************)
(* Validation of real multilevel runs on the real one-dimensional coupling *)
(* (harness/drivers/run_run.py) against Run.tla.                           *)
(***************************************************************************)
EXTENDS Run, TLC, Json, IOUtils, TLCExt

Lines == ndJsonDeserialize(IOEnv.TRACE_FILE)
VARIABLES tid, ln, bad, fin, samples
tvars == <<tid, ln, bad, fin, samples>>
T == Lines[tid].ev
H == Lines[tid].hdr
Id == Lines[tid].tid
E == T[ln]

TraceInit == tid \in 1..Len(Lines) /\ ln = 1 /\ bad = 0 /\ fin = FALSE /\ samples = <<>>
More == ~fin /\ ln <= Len(T)
Viol(name) == PrintT(<<"VIOL", Id, ln, name, H.kind>>)
Judge(checks) ==
    LET failed == SelectSeq(checks, LAMBDA c : ~c[2]) IN
    IF failed = <<>> THEN bad' = bad ELSE (\A i \in 1..Len(failed) : Viol(failed[i][1])) /\ bad' = bad + 1

SampleStep ==
    /\ More /\ E.e = "Sample"
    /\ Judge(<< <<"Numeric", E.bad = 0>>,
                <<"PayoffOfItsOwnPaths", E.bad # 0 \/ (E.T = 1 /\ <<E.pay2[1], E.pay2[2]>> = Payoffs(H.payoff, H.K, E))>>,
                <<"CoarseZeroAtLevelZero", E.bad # 0 \/ (E.coupled <=> E.lvl > 0)>>,
                <<"SampleStoredOnce", \A i \in 1..Len(samples) : ~(samples[i].lvl = E.lvl /\ samples[i].idx = E.idx)>> >>)
    /\ samples' = Append(samples, E)
    /\ ln' = ln + 1 /\ UNCHANGED <<tid, fin>>
RetStep ==
    /\ More /\ E.e = "Ret"
    /\ Judge(<< <<"Numeric", E.bad = 0>>,
                <<"NlExact", IndexedOnce(samples, E.Nl) /\ Len(samples) = SumSeq(E.Nl)>>,
                <<"LevelMeansOverItsOwnSamples", E.bad # 0 \/ \A l \in 1..Len(E.Nl) :
                      E.dpsum2[l] = LevelDiffSum(samples, l - 1) /\ E.finesum2[l] = LevelFineSum(samples, l - 1)>>,
                <<"PriceIsSumOfLevelMeans", E.bad # 0 \/ E.price_scaled = ScaledPrice(samples, E.Nl, E.prodN)>> >>)
    /\ ln' = ln + 1 /\ UNCHANGED <<tid, fin, samples>>
Sample2Step ==
    /\ More /\ E.e = "Sample2"
    /\ Judge(<< <<"Numeric", E.bad = 0>>,
                <<"PayoffOfItsOwnPaths", E.bad # 0 \/ (E.T = 1 /\ <<E.pay4[1], E.pay4[2]>> = Payoffs2(H.payoff, H.K, H.und, E))>>,
                <<"CoarseZeroAtLevelZero", E.bad # 0 \/ (E.coupled <=> E.lvl > 0)>>,
                <<"SampleStoredOnce", \A i \in 1..Len(samples) : ~(samples[i].lvl = E.lvl /\ samples[i].idx = E.idx)>> >>)
    /\ samples' = Append(samples, E)
    /\ ln' = ln + 1 /\ UNCHANGED <<tid, fin>>
Ret2Step ==
    /\ More /\ E.e = "Ret2"
    /\ Judge(<< <<"Numeric", E.bad = 0>>,
                <<"NlExact", IndexedOnce(samples, E.Nl) /\ Len(samples) = SumSeq(E.Nl)>>,
                <<"LevelMeansOverItsOwnSamples", E.bad # 0 \/ \A l \in 1..Len(E.Nl) : E.dpsum4[l] = LevelDiffSum4(samples, l - 1)>>,
                <<"PriceIsSumOfLevelMeans", E.bad # 0 \/ E.price_scaled = ScaledPrice4(samples, E.Nl, E.prodN)>> >>)
    /\ ln' = ln + 1 /\ UNCHANGED <<tid, fin, samples>>
RaiseStep ==
    /\ More /\ E.e = "Raise"
    /\ PrintT(<<"REJECT", Id, ln, "Raise", H.kind>>)
    /\ bad' = bad + 1 /\ ln' = ln + 1 /\ UNCHANGED <<tid, fin, samples>>
Finish ==
    /\ ~fin /\ ln = Len(T) + 1
    /\ IF bad = 0 THEN PrintT(<<"ACCEPT", Id>>) ELSE TRUE
    /\ fin' = TRUE /\ UNCHANGED <<tid, ln, bad, samples>>
TraceNext == SampleStep \/ RetStep \/ Sample2Step \/ Ret2Step \/ RaiseStep \/ Finish
TraceSpec == TraceInit /\ [][TraceNext]_tvars
=============================================================================
