SPECIFICATION Spec
CONSTANT Shapes <- Shapes1
CONSTANT MaxW = 2
CONSTANT Mult = 2
INVARIANT ExactLaw
CHECK_DEADLOCK FALSE
