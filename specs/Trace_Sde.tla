------------------------------ MODULE Trace_Sde ------------------------------
(***************************************************************************)
(* Validation of the real Euler schemes on scripted driver paths and of    *)
(* the discount factors of every model (harness/drivers/sde_run.py).       *)
(***************************************************************************)
EXTENDS Integers, Sequences, FiniteSets, TLC, Json, IOUtils, TLCExt, SequencesExt, Libor

Lines == ndJsonDeserialize(IOEnv.TRACE_FILE)
VARIABLES tid, ln, bad, fin
tvars == <<tid, ln, bad, fin>>
T == Lines[tid].ev
H == Lines[tid].hdr
Id == Lines[tid].tid
E == T[ln]

TraceInit == tid \in 1..Len(Lines) /\ ln = 1 /\ bad = 0 /\ fin = FALSE
More == ~fin /\ ln <= Len(T)
Viol(name) == PrintT(<<"VIOL", Id, ln, name, H.kind>>)
Judge(checks) ==
    LET failed == SelectSeq(checks, LAMBDA c : ~c[2]) IN
    IF failed = <<>> THEN bad' = bad ELSE (\A i \in 1..Len(failed) : Viol(failed[i][1])) /\ bad' = bad + 1

\* expected scaled solution of component k after i steps (Sde.tla): Constant scale 16, DiagX scale 16^i
RECURSIVE XConst(_, _), XDiag(_, _)
RECURSIVE Pow16(_)
Pow16(n) == IF n = 0 THEN 1 ELSE 16 * Pow16(n - 1)
\* bdt16[i] = 16 * (sde drift at the left end point of step i) * dt_i ; it is not multiplied by a(t, X)
X0(k) == IF "x0s" \in DOMAIN H THEN H.x0s[k] ELSE H.x0            \* one initial value per component (2-d drivers)
XConst(k, i) == IF i = 0 THEN 16 * X0(k) ELSE XConst(k, i - 1) + H.c * H.dy16[k][i] + H.bdt16[i]
XDiag(k, i) == IF i = 0 THEN X0(k) ELSE XDiag(k, i - 1) * (16 + H.dy16[k][i]) + H.bdt16[i] * Pow16(i - 1)
Expected(k, i) == IF H.coef = "const" THEN XConst(k, i) ELSE XDiag(k, i)
EulerOK == /\ Len(E.x) = Len(H.dy16)
           /\ \A k \in 1..Len(E.x) : /\ Len(E.x[k]) = Len(H.dy16[k]) + 1
                                     /\ \A i \in 0..Len(H.dy16[k]) : E.x[k][i + 1] = Expected(k, i)
EulerStep ==
    /\ More /\ E.e = "Euler"
    /\ Judge(<< <<"Numeric", E.bad = 0>>,
                <<"EulerRecursion", E.bad # 0 \/ EulerOK>>,
                <<"TimeStepRule", E.bad # 0 \/ (E.eps_u = E.h_u /\ E.eps_drv_u = E.h_u)>> >>)
    /\ ln' = ln + 1 /\ UNCHANGED <<tid, fin>>

Abs(x) == IF x < 0 THEN -x ELSE x
DfStep ==
    /\ More /\ E.e = "Df"
    /\ Judge(<< <<"DfOneAtZero", E.bad = 0 /\ Abs(E.q[1] - E.unit) <= 1>>,
                <<"DfPositive", E.bad = 0 /\ \A i \in 1..Len(E.q) : E.q[i] > 0>>,
                <<"DfNonIncreasing", E.bad = 0 /\ \A i \in 1..(Len(E.q) - 1) : E.q[i + 1] <= E.q[i] + 1>>,
                <<"DfContinuous", E.bad = 0 /\ \A i \in 1..(Len(E.q) - 1) : E.q[i] - E.q[i + 1] <= E.maxdrop[i]>> >>)
    /\ ln' = ln + 1 /\ UNCHANGED <<tid, fin>>

RaiseStep ==
    /\ More /\ E.e = "Raise"
    /\ PrintT(<<"REJECT", Id, ln, "Raise", H.kind>>)
    /\ bad' = bad + 1 /\ ln' = ln + 1 /\ UNCHANGED <<tid, fin>>
Finish ==
    /\ ~fin /\ ln = Len(T) + 1
    /\ IF bad = 0 THEN PrintT(<<"ACCEPT", Id>>) ELSE TRUE
    /\ fin' = TRUE /\ UNCHANGED <<tid, ln, bad>>
\* the Levy Libor model: first step exact; a rate that has fixed (tenor <= time of the step's left end) does not move
LiborFirstOK == LET want == LiborEulerStep(H.x0, H.deltas, H.sig, H.tenors, QZero, H.zz, H.mu, H.dt1, H.dY1) IN
                \A k \in 1..Len(H.x0) : E.first[k][2] # 0 /\ <<E.first[k][1], E.first[k][2]>> = want[k]
LiborFrozenOK == \A k \in 1..Len(H.x0) : \A i \in 1..(Len(H.times4) - 1) :
                    QLeq(H.tenors[k], Q(H.times4[i], 4)) => E.xr[k][i + 1] = E.xr[k][i]
LiborStep ==
    /\ More /\ E.e = "Libor"
    /\ Judge(<< <<"EulerRecursion", LiborFirstOK>>, <<"FixedRatesFrozen", LiborFrozenOK>> >>)
    /\ ln' = ln + 1 /\ UNCHANGED <<tid, fin>>
TraceNext == EulerStep \/ LiborStep \/ DfStep \/ RaiseStep \/ Finish
TraceSpec == TraceInit /\ [][TraceNext]_tvars
=============================================================================
