----------------------------- MODULE Trace_Dates -----------------------------
(***************************************************************************)
(* The observation dates a product hands to the simulators (C15: "for one  *)
(* or many product dates"): Underlying.compute_times_grid for the spot     *)
(* (0 and the maturity) and for the Asian underlying of every              *)
(* discretisation (DAILY 365, WEEKLY 52, MONTHLY 12, YEARLY 1 dates per    *)
(* year): floor(maturity * K) + 1 equally spaced dates from 0 to the       *)
(* maturity.  Maturities are quarters of a year (H.m4); the recorded grid  *)
(* is given by its length, its end points (quantised 1e-6) and the largest *)
(* deviation of a step from the mean step.                                 *)
(***************************************************************************)
EXTENDS Integers, Sequences, FiniteSets, TLC, Json, IOUtils, TLCExt
Lines == ndJsonDeserialize(IOEnv.TRACE_FILE)
VARIABLES tid, ln, bad, fin
tvars == <<tid, ln, bad, fin>>
T == Lines[tid].ev
H == Lines[tid].hdr
Id == Lines[tid].tid
E == T[ln]
PerYear(d) == CASE d = "DAILY" -> 365 [] d = "WEEKLY" -> 52 [] d = "MONTHLY" -> 12 [] d = "YEARLY" -> 1 [] OTHER -> 0
Abs(x) == IF x < 0 THEN -x ELSE x
TraceInit == tid \in 1..Len(Lines) /\ ln = 1 /\ bad = 0 /\ fin = FALSE
More == ~fin /\ ln <= Len(T)
\* expected number of dates: 2 for the spot; floor(m4 K / 4) + 1 for the Asian (which refuses fewer than 2)
Expected(r) == IF r.kind = "spot" THEN 2 ELSE ((r.m4 * PerYear(r.disc)) \div 4) + 1
RowOK(r) == IF r.kind # "spot" /\ Expected(r) < 2 THEN r.raised = 1
            ELSE /\ r.raised = 0 /\ r.n = Expected(r)
                 /\ r.first = 0 /\ r.last = r.m4 * 250000 /\ r.uneven <= 2
DatesStep ==
    /\ More /\ E.e = "Dates"
    /\ LET badrows == {i \in 1..Len(E.rows) : ~RowOK(E.rows[i])} IN
       IF badrows = {} THEN bad' = bad
       ELSE PrintT(<<"VIOL", Id, ln, "OnProductDates", H.kind>>) /\ bad' = bad + 1
    /\ ln' = ln + 1 /\ UNCHANGED <<tid, fin>>
\* jump times of an interval of k / 8 given their number: the sorted values k j / 512 for the scripted uniforms j / 64
SortedSeq(q) == \A i \in 1..(Len(q) - 1) : q[i] <= q[i + 1]
SameBag(a, b) == Len(a) = Len(b) /\ \A v \in {a[i] : i \in 1..Len(a)} \cup {b[i] : i \in 1..Len(b)} :
                    Cardinality({i \in 1..Len(a) : a[i] = v}) = Cardinality({i \in 1..Len(b) : b[i] = v})
JumpRowOK(r) == /\ SortedSeq(r.res) /\ SameBag(r.res, [i \in 1..Len(r.js) |-> r.k * r.js[i]])
JumpTimesStep ==
    /\ More /\ E.e = "JumpTimes"
    /\ IF \A i \in 1..Len(E.rows) : JumpRowOK(E.rows[i]) THEN bad' = bad
       ELSE PrintT(<<"VIOL", Id, ln, "JumpTimesUniformInInterval", H.kind>>) /\ bad' = bad + 1
    /\ ln' = ln + 1 /\ UNCHANGED <<tid, fin>>
RaiseStep ==
    /\ More /\ E.e = "Raise"
    /\ PrintT(<<"REJECT", Id, ln, "Raise", H.kind>>)
    /\ bad' = bad + 1 /\ ln' = ln + 1 /\ UNCHANGED <<tid, fin>>
Finish ==
    /\ ~fin /\ ln = Len(T) + 1
    /\ IF bad = 0 THEN PrintT(<<"ACCEPT", Id>>) ELSE TRUE
    /\ fin' = TRUE /\ UNCHANGED <<tid, ln, bad>>
TraceNext == DatesStep \/ JumpTimesStep \/ RaiseStep \/ Finish
TraceSpec == TraceInit /\ [][TraceNext]_tvars
=============================================================================
