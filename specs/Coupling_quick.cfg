SPECIFICATION Spec
CONSTANT Shapes <- ShapesQ
CONSTANT MaxLevel = 3
CONSTANT CopyCoarse = TRUE
INVARIANT Telescoping
INVARIANT Locality
INVARIANT CoarseIsPrevious
CHECK_DEADLOCK FALSE
