SPECIFICATION TraceSpec
CONSTANT Family = {}
CONSTANT Points = {}
CONSTANT Orders = {}
CONSTANT MaxDepth = 0
CONSTANT ZeroRule = "ab"
CHECK_DEADLOCK FALSE
