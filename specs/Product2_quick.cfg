SPECIFICATION Spec
CONSTANT RateVals <- Rates
CONSTANT StrikeVals <- Strikes
CONSTANT MaxRates = 3
INVARIANT BondIsProductOfAccruals
INVARIANT SwaptionParity
INVARIANT CapNonNegative
INVARIANT CapDecreasingInStrike
INVARIANT RainbowExtremes
CHECK_DEADLOCK FALSE
