----------------------------- MODULE Trace_Series -----------------------------
(***************************************************************************)
(* Validation of paths of the real series-representation simulator         *)
(* (harness/drivers/series_run.py: every random source scripted) against   *)
(* Series.tla.  hdr: the Poisson counts n, the dates (ticks), the stream   *)
(* of uniform numerators, the diffusion coefficients (lattice units).      *)
(* SeriesPath event: times (ticks), the two jump components (lattice       *)
(* units), the squared normalised diffusion increments, how many uniforms  *)
(* and normals were consumed.  The j-th normal drawn is j; the first       *)
(* component draws its len-1 normals first.                                *)
(***************************************************************************)
EXTENDS Series, TLC, Json, IOUtils, TLCExt

Lines == ndJsonDeserialize(IOEnv.TRACE_FILE)
VARIABLES tid, ln, bad, fin
tvars == <<tid, ln, bad, fin, env>>
T == Lines[tid].ev
H == Lines[tid].hdr
Id == Lines[tid].tid
E == T[ln]
HS == H.stream
HD == H.dates
A1 == H.n[1]
A2 == H.n[2]
NI == Len(HD) - 1

TraceInit == /\ tid \in 1..Len(Lines) /\ ln = 1 /\ bad = 0 /\ fin = FALSE
             /\ env = [s |-> <<>>, n |-> <<0, 0>>, d |-> <<0, 1>>]
More == ~fin /\ ln <= Len(T)
Judge(checks) ==
    LET failed == SelectSeq(checks, LAMBDA c : ~c[2]) IN
    IF failed = <<>> THEN bad' = bad
    ELSE (\A i \in 1..Len(failed) : PrintT(<<"VIOL", Id, ln, failed[i][1], H.kind>>)) /\ bad' = bad + 1

\* uniform grid: dt (ticks) = step; increment k of component c uses the normal number (c - 1) NI + k
DiffOK == /\ Len(E.dsq) = 2 /\ E.d0 = <<0, 0>>
          /\ \A c \in 1..2 : /\ Len(E.dsq[c]) = NI
                             /\ \A k \in 1..NI :
                                  E.dsq[c][k] = (IF H.sig[c] = 0 THEN 0
                                                 ELSE (HD[k + 1] - HD[k]) * ((c - 1) * NI + k) * ((c - 1) * NI + k))
PathStep ==
    /\ More /\ E.e = "SeriesPath"
    /\ Judge(<< <<"TimesAreTheProductDates", E.times = HD>>,
                <<"StartsAtZero", E.bad = 0 /\ E.jump[1][1] = 0 /\ E.jump[2][1] = 0>>,
                <<"RunningSum", E.bad = 0 /\ Len(E.jump) = 2 /\ E.jump[1] = Path1(HS, A1, A2, HD) /\ E.jump[2] = Path2(HS, A1, A2, HD)>>,
                <<"VariatesConsumedOnce", E.short = 0 /\ E.used = Consumed(HS, A1, A2, HD) /\ E.normals = 2 * NI>>,
                <<"DiffusionRunningSum", E.bad = 0 /\ DiffOK>> >>)
    /\ ln' = ln + 1 /\ UNCHANGED <<tid, fin, env>>
RaiseStep ==
    /\ More /\ E.e = "Raise"
    /\ PrintT(<<"REJECT", Id, ln, "Raise", H.kind>>)
    /\ bad' = bad + 1 /\ ln' = ln + 1 /\ UNCHANGED <<tid, fin, env>>
Finish ==
    /\ ~fin /\ ln = Len(T) + 1
    /\ IF bad = 0 THEN PrintT(<<"ACCEPT", Id>>) ELSE TRUE
    /\ fin' = TRUE /\ UNCHANGED <<tid, ln, bad, env>>
TraceNext == PathStep \/ RaiseStep \/ Finish
TraceSpec == TraceInit /\ [][TraceNext]_tvars
=============================================================================
