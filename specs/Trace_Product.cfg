SPECIFICATION TraceSpec
CONSTANT Paths = {}
CONSTANT Terms = {}
CONSTANT MaxHist = 1000
CONSTANT ResetPerPath = TRUE
CONSTANT Rebind = TRUE
CHECK_DEADLOCK FALSE
