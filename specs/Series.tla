-------------------------------- MODULE Series --------------------------------
(***************************************************************************)
(* The series-representation simulator of a two-dimensional Levy copula    *)
(* process (rpylib/process/levycopulaseries.py) as a function of the       *)
(* random numbers it consumes, in the order it consumes them.              *)
(*                                                                         *)
(* Environment: N1, N2 (the two Poisson counts) and the stream of uniforms *)
(* (numerators over Den), drawn in this order: U11 (N1 values), U22 (N2),  *)
(* Y1 (N1), Y2 (N2), V (max(N1, N2) jump times), then for every interval   *)
(* of the product's time grid that contains at least one jump time: W1     *)
(* (one per index of the interval below N1), W2 (one per index below N2).  *)
(* The copula's inverse conditional distribution and the marginal inverse  *)
(* tail integrals are environment functions too (Inv, Ivt: integer stand-  *)
(* ins the driver installs on the model object).                           *)
(*                                                                         *)
(* C15 for this simulator: the jump path starts at zero, and at each date  *)
(* carries the running sum of the accepted terms whose time lies in the    *)
(* intervals up to that date; every term belongs to exactly one interval;  *)
(* every uniform of the stream is consumed exactly once.                   *)
(***************************************************************************)
EXTENDS Integers, Sequences, FiniteSets, FiniteSetsExt

Den == 64
Tau == 32
Abs(x) == IF x < 0 THEN -x ELSE x
Max2(x, y) == IF x >= y THEN x ELSE y
Gam(u) == u - 32                                        \* tau (2 U - 1), U = u / 64
Inv(g, y) == g + y - 32                                 \* stand-in inverse conditional distribution (y = numerator of Y)
Ivt(i, x) == (i + 1) * x + (IF x >= 0 THEN 3 ELSE -3)   \* stand-in inverse tail integral of margin i (0, 1), lattice units

\* ---- the environment, cut out of the stream --------------------------------------------------------------------------
M(n1, n2) == Max2(n1, n2)
U11(S, n1, n2) == SubSeq(S, 1, n1)
U22(S, n1, n2) == SubSeq(S, n1 + 1, n1 + n2)
Y1(S, n1, n2) == SubSeq(S, n1 + n2 + 1, 2 * n1 + n2)
Y2(S, n1, n2) == SubSeq(S, 2 * n1 + n2 + 1, 2 * n1 + 2 * n2)
V(S, n1, n2) == SubSeq(S, 2 * n1 + 2 * n2 + 1, 2 * n1 + 2 * n2 + M(n1, n2))
Head0(n1, n2) == 2 * n1 + 2 * n2 + M(n1, n2)            \* uniforms consumed before the first interval

G11(S, n1, n2, i) == Gam(U11(S, n1, n2)[i])
G22(S, n1, n2, i) == Gam(U22(S, n1, n2)[i])
G12(S, n1, n2, i) == Inv(G11(S, n1, n2, i), Y1(S, n1, n2)[i])
G21(S, n1, n2, i) == Inv(G22(S, n1, n2, i), Y2(S, n1, n2)[i])

\* ---- intervals: dates in ticks, D[1] = 0; a jump time V = v / Den * maturity lies in (D[k], D[k+1]] -----------------------
InUpTo(v, D, k) == v * D[Len(D)] <= Den * D[k]
Slice(S, n1, n2, D, k) == {i \in 1..M(n1, n2) : InUpTo(V(S, n1, n2)[i], D, k + 1) /\ (k = 1 \/ ~InUpTo(V(S, n1, n2)[i], D, k))}
Sl1(S, n1, n2, D, k) == {i \in Slice(S, n1, n2, D, k) : i <= n1}
Sl2(S, n1, n2, D, k) == {i \in Slice(S, n1, n2, D, k) : i <= n2}
\* position in the stream of the first W of interval k
RECURSIVE Pos(_, _, _, _, _)
Pos(S, n1, n2, D, k) ==
    IF k = 1 THEN Head0(n1, n2)
    ELSE Pos(S, n1, n2, D, k - 1) + Cardinality(Sl1(S, n1, n2, D, k - 1)) + Cardinality(Sl2(S, n1, n2, D, k - 1))
Rank(set, i) == Cardinality({j \in set : j < i})          \* the W's are handed out in increasing index order
W1(S, n1, n2, D, k, i) == S[Pos(S, n1, n2, D, k) + Rank(Sl1(S, n1, n2, D, k), i) + 1]
W2(S, n1, n2, D, k, i) == S[Pos(S, n1, n2, D, k) + Cardinality(Sl1(S, n1, n2, D, k)) + Rank(Sl2(S, n1, n2, D, k), i) + 1]
Mult(g) == IF Abs(g) <= Tau THEN 2 ELSE 1
Acc1(S, n1, n2, D, k) == {i \in Sl1(S, n1, n2, D, k) : Mult(G12(S, n1, n2, i)) * W1(S, n1, n2, D, k, i) <= Den}
Acc2(S, n1, n2, D, k) == {i \in Sl2(S, n1, n2, D, k) : Mult(G21(S, n1, n2, i)) * W2(S, n1, n2, D, k, i) <= Den}
SumOver(set, f(_)) == FoldSet(LAMBDA x, acc : acc + f(x), 0, set)
\* increments of the two components over interval k
Inc1(S, n1, n2, D, k) == SumOver(Acc1(S, n1, n2, D, k), LAMBDA i : Ivt(0, G11(S, n1, n2, i)))
                         + SumOver(Acc2(S, n1, n2, D, k), LAMBDA i : Ivt(0, G21(S, n1, n2, i)))
Inc2(S, n1, n2, D, k) == SumOver(Acc2(S, n1, n2, D, k), LAMBDA i : Ivt(1, G22(S, n1, n2, i)))
                         + SumOver(Acc1(S, n1, n2, D, k), LAMBDA i : Ivt(1, G12(S, n1, n2, i)))
RECURSIVE Cum1(_, _, _, _, _)
Cum1(S, n1, n2, D, k) == IF k = 0 THEN 0 ELSE Cum1(S, n1, n2, D, k - 1) + Inc1(S, n1, n2, D, k)
RECURSIVE Cum2(_, _, _, _, _)
Cum2(S, n1, n2, D, k) == IF k = 0 THEN 0 ELSE Cum2(S, n1, n2, D, k - 1) + Inc2(S, n1, n2, D, k)
\* the path on the dates D[1..]: value at D[k + 1] = Cum(k)
Path1(S, n1, n2, D) == [k \in 1..Len(D) |-> Cum1(S, n1, n2, D, k - 1)]
Path2(S, n1, n2, D) == [k \in 1..Len(D) |-> Cum2(S, n1, n2, D, k - 1)]
Consumed(S, n1, n2, D) == Pos(S, n1, n2, D, Len(D))

\* ---- design check: a small family of environments ------------------------------------------------------------------
CONSTANTS Streams, Counts, DateSets
VARIABLES env
Init == env \in [s : Streams, n : Counts, d : DateSets]
Next == UNCHANGED env
Spec == Init /\ [][Next]_env
ES == env.s
N1 == env.n[1]
N2 == env.n[2]
ED == env.d
EveryTermInOneInterval ==
    \A i \in 1..M(N1, N2) : Cardinality({k \in 1..(Len(ED) - 1) : i \in Slice(ES, N1, N2, ED, k)}) = 1
StreamSuffices == Consumed(ES, N1, N2, ED) <= Len(ES)
StartsAtZero == Path1(ES, N1, N2, ED)[1] = 0 /\ Path2(ES, N1, N2, ED)[1] = 0
\* with a single interval nothing depends on the dates: the terminal value is the sum over all accepted terms
TerminalIsTotal ==
    Len(ED) = 2 => Path1(ES, N1, N2, ED)[2] = SumOver(Acc1(ES, N1, N2, ED, 1), LAMBDA i : Ivt(0, G11(ES, N1, N2, i)))
                                             + SumOver(Acc2(ES, N1, N2, ED, 1), LAMBDA i : Ivt(0, G21(ES, N1, N2, i)))
=============================================================================
