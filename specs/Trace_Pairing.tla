---------------------------- MODULE Trace_Pairing ----------------------------
(***************************************************************************)
(* Validation of recorded calls of the real pairing functions, signed      *)
(* extensions, lazy product and StatesManager enumeration against the      *)
(* C14 property: mutually inverse bijections / every state exactly once.   *)
(* Large integers are limb-encoded (<<sign, limbs...>>): TLC compares them *)
(* for equality only.  Small indices are additionally compared with the    *)
(* exact definitions of Pairing.tla (transcription check: DRIFT only).     *)
(***************************************************************************)
EXTENDS Pairing, Json, IOUtils, TLCExt

Lines == ndJsonDeserialize(IOEnv.TRACE_FILE)
VARIABLES tid, ln, bad, fin
tvars == <<pvars, tid, ln, bad, fin>>
T == Lines[tid].ev
H == Lines[tid].hdr
Id == Lines[tid].tid
E == T[ln]

TraceInit == tid \in 1..Len(Lines) /\ ln = 1 /\ bad = 0 /\ fin = FALSE /\ kind = "trace" /\ z = 0 /\ iv = <<0, 0>>
More == ~fin /\ ln <= Len(T)
Viol(name, sig) == PrintT(<<"VIOL", Id, ln, name, sig>>)
NonNeg(b) == b[1] >= 0                       \* limb-encoded integer: first entry is the sign

\* projection then pairing: RT = {z, p (tuple of big ints), zz}
RTStep ==
    /\ More /\ E.e = "RT"
    /\ IF E.ok = 1 /\ E.zz = E.z /\ (\A i \in 1..Len(E.p) : NonNeg(E.p[i])) /\ (~("dim" \in DOMAIN H) \/ Len(E.p) = H.dim)
       THEN bad' = bad ELSE Viol("ProjectionThenPairing", H.kind) /\ bad' = bad + 1
    /\ ln' = ln + 1 /\ UNCHANGED <<pvars, tid, fin>>
\* pairing then projection: TR = {x (tuple), z, xx}
TRStep ==
    /\ More /\ E.e = "TR"
    /\ IF E.ok = 1 /\ E.xx = E.x /\ NonNeg(E.z)
       THEN bad' = bad ELSE Viol("PairingThenProjection", H.kind) /\ bad' = bad + 1
    /\ ln' = ln + 1 /\ UNCHANGED <<pvars, tid, fin>>
\* a block of consecutive small indices 0..n-1 with their projections: all distinct, and (DRIFT) equal to the spec's
SpecKind == H.kind \in {"cantor", "rs", "szudzik", "pepis", "rs3", "sz3", "zrs2", "zrs3"}
BlockStep ==
    /\ More /\ E.e = "Block"
    /\ IF E.ok = 1 /\ Cardinality({E.ps[i] : i \in 1..Len(E.ps)}) = Len(E.ps)
            /\ (H.signed = 1 => \A i \in 1..Len(E.ps) : \E j \in 1..Len(E.ps[i]) : E.ps[i][j] # 0)
            /\ (H.signed = 0 => \A i \in 1..Len(E.ps) : \A j \in 1..Len(E.ps[i]) : E.ps[i][j] >= 0)
       THEN bad' = bad ELSE Viol("EveryTupleOnce", H.kind) /\ bad' = bad + 1
    /\ IF SpecKind /\ E.ok = 1 /\ \E i \in 1..Len(E.ps) : E.ps[i] # Proj(H.kind, i - 1)
       THEN PrintT(<<"DRIFT", Id, ln, H.kind>>) ELSE TRUE
    /\ ln' = ln + 1 /\ UNCHANGED <<pvars, tid, fin>>
\* asymmetric interval: calls (k, v, pk) in the recorded order: v in [-L,R]\{0}, index-of-state inverts, and the
\* value does not depend on the call order (it is the state the closed form assigns to k)
Z1Step ==
    /\ More /\ E.e = "Z1"
    /\ IF E.ok = 1 /\ \A i \in 1..Len(E.calls) :
            LET k == E.calls[i][1] v == E.calls[i][2] pk == E.calls[i][3] IN
            /\ v # 0 /\ v >= -H.L /\ v <= H.R /\ pk = k /\ v = Z1Proj(k, H.L, H.R)
       THEN bad' = bad ELSE Viol("IntervalEnumeration", H.order) /\ bad' = bad + 1
    /\ ln' = ln + 1 /\ UNCHANGED <<pvars, tid, fin>>
\* lazy cartesian product
LazyStep ==
    /\ More /\ E.e = "Lazy"
    /\ LET N == ProdTo(E.sizes, Len(E.sizes)) IN
       IF E.ok = 1 /\ Len(E.tuples) = N /\ Cardinality({E.tuples[i] : i \in 1..N}) = N
            /\ \A i \in 1..N : Len(E.tuples[i]) = Len(E.sizes) /\ \A k \in 1..Len(E.sizes) : E.tuples[i][k] \in 0..(E.sizes[k] - 1)
       THEN bad' = bad ELSE Viol("LazyProduct", IF \A k \in 1..Len(E.sizes) : E.sizes[k] = E.sizes[1] THEN "equal" ELSE "unequal") /\ bad' = bad + 1
    /\ ln' = ln + 1 /\ UNCHANGED <<pvars, tid, fin>>
\* StatesManager: states returned before exhaustion was signalled
BoxStates(Ls, Rs) ==
    IF Len(Ls) = 1 THEN {<<a>> : a \in (-Ls[1])..Rs[1]}
    ELSE IF Len(Ls) = 2 THEN {<<a, b>> : a \in (-Ls[1])..Rs[1], b \in (-Ls[2])..Rs[2]}
    ELSE {<<a, b, c>> : a \in (-Ls[1])..Rs[1], b \in (-Ls[2])..Rs[2], c \in (-Ls[3])..Rs[3]}
EnumStep ==
    /\ More /\ E.e = "Enum"
    /\ LET want == {x \in BoxStates(E.Ls, E.Rs) : \E i \in 1..Len(x) : x[i] # 0}
           got == {E.out[i] : i \in 1..Len(E.out)}
           \* a second pass on the same manager from the storage cap on: the states from that position on, again
           restartOK == E.cap < 0 \/ E.exhausted = 0 \/
                        (E.again = 1 /\ E.out2 = (IF E.cap >= Len(E.out) THEN <<>> ELSE SubSeq(E.out, E.cap + 1, Len(E.out)))) IN
       IF E.ok = 1 /\ E.exhausted = 1 /\ got = want /\ Cardinality(got) = Len(E.out) /\ restartOK
       THEN bad' = bad
       ELSE Viol("ExactlyOnce", IF E.ok = 0 THEN "raise" ELSE IF Cardinality(got) # Len(E.out) THEN "duplicate"
                                ELSE IF got # want /\ got \subseteq want THEN "missing"
                                ELSE IF got = want THEN "restart" ELSE "inadmissible") /\ bad' = bad + 1
    /\ ln' = ln + 1 /\ UNCHANGED <<pvars, tid, fin>>

Finish ==
    /\ ~fin /\ ln = Len(T) + 1
    /\ IF bad = 0 THEN PrintT(<<"ACCEPT", Id>>) ELSE TRUE
    /\ fin' = TRUE /\ UNCHANGED <<pvars, tid, ln, bad>>
Unknown ==
    /\ More /\ E.e \notin {"RT", "TR", "Block", "Z1", "Lazy", "Enum"}
    /\ PrintT(<<"REJECT", Id, ln, "UnknownEvent", "">>) /\ bad' = bad + 1 /\ ln' = ln + 1 /\ UNCHANGED <<pvars, tid, fin>>

TraceNext == RTStep \/ TRStep \/ BlockStep \/ Z1Step \/ LazyStep \/ EnumStep \/ Finish \/ Unknown
TraceSpec == TraceInit /\ [][TraceNext]_tvars
=============================================================================
