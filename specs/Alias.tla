-------------------------------- MODULE Alias --------------------------------
(***************************************************************************)
(* Walker / Vose alias method as rpylib builds it (alias.py: two LIFO      *)
(* stacks, both leftover loops) on integers: q_l = K*W[l] in units of 1/S. *)
(* Draw with the lattice uniform u_i = (2i+1)/(2N), N = 2*K*S:             *)
(*   ku = K*u = (2i+1)/(4S);  x = floor(ku);  v = ku - x;                  *)
(*   return x if v < q[x] (i.e. (2i+1) mod 4S < 4*q[x] in units 1/(4S))    *)
(*   else J[x].                                                            *)
(* TLC checks, for every weight vector, that the induced assignment is one *)
(* SamplerLaw allows: the number of lattice points sent to k is N*W[k]/S,  *)
(* never a zero-weight state.                                              *)
(***************************************************************************)
EXTENDS Integers, Sequences, FiniteSets, TLC

CONSTANTS MaxLen, MaxSum
RECURSIVE SumSeq(_)
SumSeq(s) == IF s = <<>> THEN 0 ELSE Head(s) + SumSeq(Tail(s))
Vectors == UNION {{w \in [1..n -> 0..MaxSum] : SumSeq(w) \in 1..MaxSum} : n \in 1..MaxLen}

VARIABLES W, q, J, smaller, greater, pc
avars == <<W, q, J, smaller, greater, pc>>
S == SumSeq(W)
K == Len(W)

InitFor(w) ==
    /\ W = w
    /\ q = [l \in 1..Len(w) |-> Len(w) * w[l]]          \* scaled by S: q_l < 1  <=>  q[l] < S
    /\ J = [l \in 1..Len(w) |-> 1]                       \* np.zeros: alias 0 (state 1 here)
    /\ smaller = SelectSeq([l \in 1..Len(w) |-> l], LAMBDA l : Len(w) * w[l] < SumSeq(w))
    /\ greater = SelectSeq([l \in 1..Len(w) |-> l], LAMBDA l : Len(w) * w[l] >= SumSeq(w))
    /\ pc = "pair"
Init == \E w \in Vectors : InitFor(w)

Last(s) == s[Len(s)]
Front(s) == SubSeq(s, 1, Len(s) - 1)

\* while smaller and greater: pop both (LIFO), alias small -> great, move the remainder of great
PairStep ==
    /\ pc = "pair" /\ smaller # <<>> /\ greater # <<>>
    /\ LET g == Last(greater) s == Last(smaller)
           qg == q[g] + q[s] - S IN
       /\ J' = [J EXCEPT ![s] = g]
       /\ q' = [q EXCEPT ![g] = qg]
       /\ IF qg < S THEN smaller' = Append(Front(smaller), g) /\ greater' = Front(greater)
                    ELSE smaller' = Front(smaller) /\ greater' = Append(Front(greater), g)
    /\ UNCHANGED <<W, pc>>
PairDone == pc = "pair" /\ (smaller = <<>> \/ greater = <<>>) /\ pc' = "left" /\ UNCHANGED <<W, q, J, smaller, greater>>
\* leftover loops: everything still on a stack gets q = 1
LeftOver ==
    /\ pc = "left"
    /\ q' = [l \in 1..K |-> IF (\E i \in 1..Len(greater) : greater[i] = l) \/ (\E i \in 1..Len(smaller) : smaller[i] = l)
                            THEN S ELSE q[l]]
    /\ smaller' = <<>> /\ greater' = <<>> /\ pc' = "ready" /\ UNCHANGED <<W, J>>

Next == PairStep \/ PairDone \/ LeftOver
Spec == Init /\ [][Next]_avars

N == 2 * K * S
DrawOf(i) == LET x == (2 * i + 1) \div (4 * S) r == (2 * i + 1) % (4 * S) IN
             IF r < 4 * q[x + 1] THEN x + 1 ELSE J[x + 1]
CountOf(k) == Cardinality({i \in 0..(N - 1) : DrawOf(i) = k})

\* refinement of SamplerLaw at the end of the construction
ExactLaw == pc = "ready" => \A k \in 1..K : CountOf(k) * S = N * W[k]
NeverZeroWeight == pc = "ready" => \A i \in 0..(N - 1) : W[DrawOf(i)] > 0
=============================================================================
