SPECIFICATION ISpec
CONSTANT Configs <- ConfigsQ
CONSTANT Restart = "reset"
CONSTANT MaxDraws = 3
INVARIANT LawOK
INVARIANT PrefixOK
CHECK_DEADLOCK FALSE
