SPECIFICATION TraceSpec
CONSTANT NMax = 0
CONSTANT Kinds = {}
CONSTANT Intervals = {}
CHECK_DEADLOCK FALSE
