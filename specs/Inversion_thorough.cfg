SPECIFICATION ISpec
CONSTANT Configs <- ConfigsQ
CONSTANT Restart = "rewind"
CONSTANT MaxDraws = 4
INVARIANT LawOK
INVARIANT PrefixOK
CHECK_DEADLOCK FALSE
