------------------------------ MODULE Allocation ------------------------------
(***************************************************************************)
(* Giles' sample allocation and stopping test                              *)
(* (rpylib/montecarlo/multilevel/criteria.py), over exact data:            *)
(* level variances V_l = a_l^2 and costs C_l = b_l^2 (perfect squares, so  *)
(* every square root is an integer), rmse^2 = p/q.                         *)
(*                                                                         *)
(*   N_l = ceil( sqrt(V_l/C_l) * Sum_k sqrt(V_k C_k) / (VarShare*rmse^2) ) *)
(*                                                                         *)
(* VarShare = vn/vd and BiasShare = bn/bd are CONSTANTS whose values are   *)
(* measured on the code by the driver before TLC is started, so a change   *)
(* of either constant in the code changes what TLC is asked to check.      *)
(*                                                                         *)
(* C06:  Budget      Sum_{V_l>0} V_l / N_l  <=  VarShare * rmse^2          *)
(*       SharesFit   BiasShare + VarShare <= 1                             *)
(* The zero-cost branch of the code (C_l = 0 is replaced by 1e30) is a     *)
(* named deviation: ZeroCost levels get N_l = 1 when anything has positive *)
(* variance*cost, else 0; Budget is stated for vectors without such levels *)
(* and BudgetZeroCost shows what happens with them.                        *)
(***************************************************************************)
EXTENDS Integers, Sequences, FiniteSets, TLC

CONSTANTS MaxLevels, AVals, BVals, PQ,   \* enumeration bounds: a_l \in AVals, b_l \in BVals, <<p, q>> \in PQ
          vn, vd, bn, bd                 \* measured shares

VARIABLES a, b, pq, N, done
avars == <<a, b, pq, N, done>>

RECURSIVE SumTo(_, _)
SumTo(f, n) == IF n = 0 THEN 0 ELSE f[n] + SumTo(f, n - 1)
CeilDiv(x, y) == (x + y - 1) \div y          \* x >= 0, y > 0

S(aa, bb) == SumTo([k \in 1..Len(aa) |-> aa[k] * bb[k]], Len(aa))

\* the allocation as the code computes it (exact arithmetic)
AllocOne(aa, bb, p, q, k) ==
    IF bb[k] = 0
    THEN (IF aa[k] * S(aa, bb) > 0 THEN 1 ELSE 0)               \* cl_zerocost = 1e30: ceil(tiny) = 1
    ELSE CeilDiv(aa[k] * S(aa, bb) * vd * q, bb[k] * vn * p)
Alloc(aa, bb, p, q) == [k \in 1..Len(aa) |-> AllocOne(aa, bb, p, q, k)]

\* Sum_{V_l > 0} V_l / N_l <= (vn/vd) * (p/q), cross-multiplied; a level with V_l > 0 and N_l = 0 has infinite variance
RECURSIVE Prod(_, _)
Prod(f, n) == IF n = 0 THEN 1 ELSE f[n] * Prod(f, n - 1)
Pos(aa) == {k \in 1..Len(aa) : aa[k] > 0}
BudgetHolds(aa, nn, p, q) ==
    /\ \A k \in Pos(aa) : nn[k] > 0
    /\ LET M == [k \in 1..Len(aa) |-> IF k \in Pos(aa) THEN nn[k] ELSE 1]
           P == Prod(M, Len(aa))
           lhs == SumTo([k \in 1..Len(aa) |-> IF k \in Pos(aa) THEN aa[k] * aa[k] * (P \div nn[k]) ELSE 0], Len(aa))
       IN lhs * vd * q <= vn * p * P

HasZeroCost(aa, bb) == \E k \in 1..Len(aa) : bb[k] = 0 /\ aa[k] > 0

Init ==
    /\ \E n \in 1..MaxLevels : a \in [1..n -> AVals] /\ b \in [1..n -> BVals]
    /\ pq \in PQ
    /\ N = <<>> /\ done = FALSE
Allocate ==
    /\ ~done /\ N' = Alloc(a, b, pq[1], pq[2]) /\ done' = TRUE /\ UNCHANGED <<a, b, pq>>
Next == Allocate
Spec == Init /\ [][Next]_avars

Budget == (done /\ ~HasZeroCost(a, b)) => BudgetHolds(a, N, pq[1], pq[2])
BudgetZeroCost == (done /\ HasZeroCost(a, b)) => BudgetHolds(a, N, pq[1], pq[2])   \* known to fail
SharesFit == done => (bn * vd + vn * bd <= bd * vd)
ZeroVarianceGetsNothing == done => \A k \in 1..Len(a) : a[k] = 0 => N[k] = 0

(***************************************************************************)
(* The stopping test: remaining bias estimated by extrapolating the last   *)
(* three level means with rate alpha (integers m, alpha \in {1, 2}).       *)
(*   rem = max(m[n], m[n-1]/2^alpha, m[n-2]/4^alpha) / (2^alpha - 1)       *)
(*   passes  iff  rem^2 <= BiasShare * rmse^2                              *)
(* Compared as rationals with denominator 4^alpha * (2^alpha - 1).         *)
(***************************************************************************)
Pow2(e) == IF e = 1 THEN 2 ELSE IF e = 2 THEN 4 ELSE IF e = 4 THEN 16 ELSE 1
Max2(x, y) == IF x >= y THEN x ELSE y
RemNum(m, al) ==          \* numerator of rem over the denominator RemDen(al)
    LET n == Len(m)
        t1 == m[n] * Pow2(2 * al)
        t2 == IF n >= 2 THEN m[n - 1] * Pow2(al) ELSE 0
        t3 == IF n >= 3 THEN m[n - 2] ELSE 0
    IN Max2(t1, Max2(t2, t3))
RemDen(al) == Pow2(2 * al) * (Pow2(al) - 1)
\* sign of rem^2 - BiasShare*rmse^2 : -1 passes strictly, 0 boundary, 1 fails strictly
BiasCmp(m, al, p, q) ==
    LET lhs == RemNum(m, al) * RemNum(m, al) * bd * q
        rhs == bn * p * RemDen(al) * RemDen(al)
    IN IF lhs < rhs THEN -1 ELSE IF lhs = rhs THEN 0 ELSE 1
=============================================================================
