SPECIFICATION Spec
CONSTANT Shapes <- Shapes1
CONSTANT Dims = {3}
CONSTANT Levels = 0
INVARIANT Tiling
INVARIANT StateInOwnCell
INVARIANT SumRatesIsIntensity
CHECK_DEADLOCK FALSE
