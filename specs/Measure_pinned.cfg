SPECIFICATION Spec
CONSTANT Family <- FamilyAll
CONSTANT Points <- PointsQ
CONSTANT Orders = {0, 1, 2, 3, 4}
CONSTANT MaxDepth = 1
CONSTANT ZeroRule = "aa"
INVARIANT TruncatedIsRestriction
INVARIANT Additive
INVARIANT SignOfMoment
INVARIANT DensityVanishesOutside
INVARIANT NestingIsIntersection
CHECK_DEADLOCK FALSE
