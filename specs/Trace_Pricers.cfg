SPECIFICATION TraceSpec
CONSTANT Support = {}
CONSTANT MaxWeight = 0
CONSTANT Ladders = {}
CONSTANT DfNum = 1
CHECK_DEADLOCK FALSE
