SPECIFICATION Spec
CONSTANT Names <- NamesQ
CONSTANT Values <- ValuesQ
CONSTANT Admissible <- Adm
CONSTANT MaxSteps = 5
CONSTANT Reinitialises = FALSE
PROPERTY InitialisationRefreshes
PROPERTY RejectedAssignmentChangesNothing
CHECK_DEADLOCK FALSE
