SPECIFICATION TraceSpec
CONSTANT Configs = {}
CONSTANT Restart = "rewind"
CONSTANT MaxDraws = 0
CHECK_DEADLOCK FALSE
