SPECIFICATION Spec
CONSTANT Paths <- PathsSmall
CONSTANT Terms <- TermsSmall
CONSTANT MaxHist = 4
CONSTANT ResetPerPath = TRUE
CONSTANT Rebind = FALSE
INVARIANT Pure
CHECK_DEADLOCK FALSE
