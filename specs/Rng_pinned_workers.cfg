SPECIFICATION Spec
CONSTANT NWorkers = 2
CONSTANT NPaths = 3
CONSTANT NPhases = 1
CONSTANT SeedGiven = FALSE
CONSTANT SeedBeforePreDraw = TRUE
CONSTANT SeedOncePerRun = TRUE
CONSTANT SharedDeque = FALSE
INVARIANT NoSharedVariates
INVARIANT PreDrawnOnce
INVARIANT NoReseedToUsedState
INVARIANT Reproducible
CHECK_DEADLOCK FALSE
