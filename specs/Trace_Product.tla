---------------------------- MODULE Trace_Product ----------------------------
(***************************************************************************)
(* Trace validation of evaluation histories of real rpylib product objects *)
(* (harness/drivers/product_run.py) against Product.tla.  One trace = one  *)
(* product object; events are product.update(r) and evaluations of a path. *)
(* The verdict: every recorded value equals notional * PureValue(terms,    *)
(* path), whatever happened to the object before.                          *)
(***************************************************************************)
EXTENDS Product, Json, IOUtils, TLCExt

Lines == ndJsonDeserialize(IOEnv.TRACE_FILE)
VARIABLES tid, ln, bad, fin
tvars == <<pvars, tid, ln, bad, fin>>
T == Lines[tid].ev
H == Lines[tid].hdr
Id == Lines[tid].tid
E == T[ln]

TraceInit ==
    /\ tid \in 1..Len(Lines)
    /\ term = Lines[tid].hdr.t /\ flag = FALSE /\ bound = "id" /\ want = "id" /\ lastOut = 0 /\ lastWant = 0 /\ n = 0
    /\ ln = 1 /\ bad = 0 /\ fin = FALSE

More == ~fin /\ ln <= Len(T)

UpdStep == /\ More /\ E.e = "Upd" /\ Update(E.r)
           /\ ln' = ln + 1 /\ UNCHANGED <<tid, bad, fin>>

\* multi-name default times: not part of the stateful model, evaluated as pure functions
TimeOf(i, ts) == IF i = Never THEN Never ELSE ts[i + 1]
NthDefaultValue(pp, k, ts) ==
    KthSmallest([i \in 1..Len(pp) |-> TimeOf(FirstBelow(pp[i], k[i]), ts)], k[Len(pp) + 1])
NameDefaultValue(pp, k, ts) == TimeOf(FirstBelow(pp[k[Len(pp) + 1]], k[k[Len(pp) + 1]]), ts)

Expected ==
    CASE term.cls = "NthDefault"  -> NthDefaultValue(E.pp, term.k, E.ts)
      [] term.cls = "NameDefault" -> NameDefaultValue(E.pp, term.k, E.ts)
      [] OTHER -> H.notional * PureValueT(term, E.p, E.ts)

\* under the log representation exp(log(x)) is x only up to rounding: a spot exactly on a strike / barrier is a tie
\* whose side is not determined; such evaluations are not judged
LogTie == /\ want = "log" /\ term.cls \notin {"NthDefault", "NameDefault", "DefaultTime"}
          /\ \E i \in 1..Len(E.p), j \in 1..Len(term.k) : E.p[i] = term.k[j]

EvalStep ==
    /\ More /\ E.e = "Eval"
    /\ IF term.cls \in {"NthDefault", "NameDefault"} THEN UNCHANGED pvars ELSE Evaluate(E.p)
    /\ IF (E.bad = 0 /\ E.v = Expected) \/ LogTie
       THEN bad' = bad
       ELSE PrintT(<<"VIOL", Id, ln, "Pure", term.cls>>) /\ bad' = bad + 1
    /\ ln' = ln + 1 /\ UNCHANGED <<tid, fin>>

\* n-th-to-default times are non-decreasing in n (evaluated on the recorded values of one path)
MonoStep ==
    /\ More /\ E.e = "Mono"
    /\ IF \A i \in 1..(Len(E.vs) - 1) : E.vs[i] <= E.vs[i + 1]
       THEN bad' = bad
       ELSE PrintT(<<"VIOL", Id, ln, "NthDefaultMonotone", term.cls>>) /\ bad' = bad + 1
    /\ ln' = ln + 1 /\ UNCHANGED <<pvars, tid, fin>>

RaiseStep ==
    /\ More /\ E.e = "Raise"
    /\ PrintT(<<"REJECT", Id, ln, "Raise", term.cls>>)
    /\ bad' = bad + 1 /\ ln' = ln + 1 /\ UNCHANGED <<pvars, tid, fin>>

Finish ==
    /\ ~fin /\ ln = Len(T) + 1
    /\ IF bad = 0 THEN PrintT(<<"ACCEPT", Id>>) ELSE TRUE
    /\ fin' = TRUE /\ UNCHANGED <<pvars, tid, ln, bad>>

TraceNext == UpdStep \/ EvalStep \/ MonoStep \/ RaiseStep \/ Finish
TraceSpec == TraceInit /\ [][TraceNext]_tvars
=============================================================================
