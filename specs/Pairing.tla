------------------------------- MODULE Pairing -------------------------------
(***************************************************************************)
(* Pairing functions of rpylib/distribution/pairing.py in exact integer    *)
(* arithmetic (shell coordinates), their folding to signed states, the     *)
(* asymmetric interval enumeration, the mixed-radix "lazy product", and    *)
(* the stateful enumeration of admissible chain states (StatesManager).    *)
(*                                                                         *)
(* The state machine walks an index z upwards (one pairing at a time) and  *)
(* TLC checks in every state that projection and pairing are mutually      *)
(* inverse and that no earlier index gave the same tuple: C14.             *)
(***************************************************************************)
EXTENDS Integers, Sequences, FiniteSets, TLC

CONSTANTS NMax,        \* indices 0..NMax are walked
          Kinds,       \* subset of {"cantor", "rs", "szudzik", "pepis", "rs3", "sz3", "zrs2", "zrs3", "z1d"}
          Intervals    \* set of <<L, R>> for "z1d"

ISqrt(n) == CHOOSE m \in 0..n : m * m <= n /\ (m + 1) * (m + 1) > n
ICbrt(n) == CHOOSE m \in 0..n : m * m * m <= n /\ (m + 1) * (m + 1) * (m + 1) > n
Max(a, b) == IF a >= b THEN a ELSE b
Abs(a) == IF a < 0 THEN -a ELSE a

\* --- two-dimensional pairings ------------------------------------------------------------------------------------
RSPair(x, y) == LET m == Max(x, y) IN m * (m + 1) + x - y
RSProj(z) == LET m == ISqrt(z) r == z - m * m IN IF r < m THEN <<r, m>> ELSE <<m, 2 * m - r>>
SzPair(x, y) == IF x >= y THEN x * x + x + y ELSE x + y * y
SzProj(z) == LET m == ISqrt(z) r == z - m * m IN IF r < m THEN <<r, m>> ELSE <<m, r - m>>
CantorPair(x, y) == ((x + y) * (x + y) + 3 * x + y) \div 2
CantorProj(z) == LET w == (ISqrt(8 * z + 1) - 1) \div 2 IN <<z - (w * (w + 1)) \div 2, (w * (w + 3)) \div 2 - z>>
RECURSIVE Pow2(_)
Pow2(e) == IF e = 0 THEN 1 ELSE 2 * Pow2(e - 1)
PepisPair(x, y) == Pow2(y) * (2 * x + 1) - 1
RECURSIVE TwoAdic(_)
TwoAdic(n) == IF n % 2 = 1 THEN 0 ELSE 1 + TwoAdic(n \div 2)      \* n >= 1
PepisProj(z) == LET y == TwoAdic(z + 1) IN <<(((z + 1) \div Pow2(y)) - 1) \div 2, y>>

\* --- three dimensions --------------------------------------------------------------------------------------------
\* generic recursion of class Pairing: pairing(x1,x2,x3) = P2(P2(x1,x2), x3); projection splits the first component
SzPair3(x) == SzPair(SzPair(x[1], x[2]), x[3])
SzProj3(z) == LET t == SzProj(z) IN SzProj(t[1]) \o <<t[2]>>
\* Rosenberg-Strong in d = 3 (shells are cubes): pairing(x) = P(x1,x2) + m^3 + (m - x3) * ((m+1)^2 - m^2)
RSPair3(x) == LET m == Max(x[1], Max(x[2], x[3])) IN RSPair(x[1], x[2]) + m * m * m + (m - x[3]) * ((m + 1) * (m + 1) - m * m)
RSProj3(z) == LET m == ICbrt(z)
                  aux == (m + 1) * (m + 1) - m * m
                  x3 == m - (Max(0, z - m * m * m - m * m) \div aux)
              IN RSProj(z - m * m * m - (m - x3) * aux) \o <<x3>>

\* --- signed states -------------------------------------------------------------------------------------------------
Fold(n) == IF n > 0 THEN 2 * n - 1 ELSE -2 * n          \* 0,1,-1,2,-2,... -> 0,1,2,3,4,...
Unfold(z) == IF z % 2 = 1 THEN (z + 1) \div 2 ELSE -(z \div 2)
\* Z^d \ {0} <-> N through the N^d pairing, omitting index 0 (the origin)
ZProj2(k) == LET t == RSProj(k + 1) IN <<Unfold(t[1]), Unfold(t[2])>>
ZPair2(x) == RSPair(Fold(x[1]), Fold(x[2])) - 1
\* the inversion sampler uses Szudzik in two dimensions and Rosenberg-Strong in three
ZProj2S(k) == LET t == SzProj(k + 1) IN <<Unfold(t[1]), Unfold(t[2])>>
ZPair2S(x) == SzPair(Fold(x[1]), Fold(x[2])) - 1
ZProj3(k) == LET t == RSProj3(k + 1) IN <<Unfold(t[1]), Unfold(t[2]), Unfold(t[3])>>
ZPair3(x) == RSPair3(<<Fold(x[1]), Fold(x[2]), Fold(x[3])>>) - 1

\* --- asymmetric interval [-L, R] \ {0} ---------------------------------------------------------------------------
\* indices alternate 1,-1,2,-2,... while both sides last, then run along the longer side
Z1Pair(x, L, R) == LET m == IF L < R THEN L ELSE R IN
                   (IF Abs(x) <= m THEN Fold(x) ELSE IF R > L THEN x + L ELSE R - x) - 1
Z1Proj(k, L, R) == LET m == IF L < R THEN L ELSE R  n == k + 1 IN
                   IF n <= 2 * m THEN Unfold(n) ELSE IF R > L THEN n - L ELSE -(n - R)
Z1Count(L, R) == L + R

\* --- lazy cartesian product (mixed radix, first index fastest) ----------------------------------------------------
RECURSIVE ProdTo(_, _)
ProdTo(s, k) == IF k = 0 THEN 1 ELSE s[k] * ProdTo(s, k - 1)
LazyTuple(n, sizes) == [k \in 1..Len(sizes) |-> (n \div ProdTo(sizes, k - 1)) % sizes[k]]

-----------------------------------------------------------------------------
VARIABLES kind, z, iv
pvars == <<kind, z, iv>>
Init == kind \in Kinds /\ z = 0 /\ iv \in (IF kind = "z1d" THEN Intervals ELSE {<<0, 0>>})
Limit == IF kind = "z1d" THEN Z1Count(iv[1], iv[2]) - 1 ELSE NMax
Next == z < Limit /\ z' = z + 1 /\ UNCHANGED <<kind, iv>>
Spec == Init /\ [][Next]_pvars

Proj(k, n) == CASE k = "cantor" -> CantorProj(n) [] k = "rs" -> RSProj(n) [] k = "szudzik" -> SzProj(n)
                [] k = "pepis" -> PepisProj(n) [] k = "rs3" -> RSProj3(n) [] k = "sz3" -> SzProj3(n)
                [] k = "zrs2" -> ZProj2(n) [] k = "zrs3" -> ZProj3(n) [] k = "z1d" -> <<Z1Proj(n, iv[1], iv[2])>>
Pair(k, x) == CASE k = "cantor" -> CantorPair(x[1], x[2]) [] k = "rs" -> RSPair(x[1], x[2]) [] k = "szudzik" -> SzPair(x[1], x[2])
                [] k = "pepis" -> PepisPair(x[1], x[2]) [] k = "rs3" -> RSPair3(x) [] k = "sz3" -> SzPair3(x)
                [] k = "zrs2" -> ZPair2(x) [] k = "zrs3" -> ZPair3(x) [] k = "z1d" -> Z1Pair(x[1], iv[1], iv[2])
Signed(k) == k \in {"zrs2", "zrs3", "z1d"}

\* C14: index-of-state inverts state-of-index; states are naturals (or non-zero signed states inside the interval)
RoundTrip == Pair(kind, Proj(kind, z)) = z
InRange == LET x == Proj(kind, z) IN
           /\ (~Signed(kind) => \A i \in 1..Len(x) : x[i] >= 0)
           /\ (Signed(kind) => \E i \in 1..Len(x) : x[i] # 0)
           /\ (kind = "z1d" => x[1] >= -iv[1] /\ x[1] <= iv[2])
\* C14: every tuple exactly once (no earlier index gives the same tuple)
Injective == \A w \in 0..(z - 1) : Proj(kind, w) # Proj(kind, z)
\* C14: the interval enumeration is onto: at the last index every non-zero state of [-L, R] has been produced
Z1Onto == (kind = "z1d" /\ z = Limit) => {Proj(kind, w)[1] : w \in 0..z} = ((-iv[1])..iv[2]) \ {0}
=============================================================================
