SPECIFICATION Spec
CONSTANT Streams <- StreamsAll
CONSTANT Counts <- CountsAll
CONSTANT DateSets <- DateSetsAll
INVARIANT EveryTermInOneInterval
INVARIANT StreamSuffices
INVARIANT StartsAtZero
INVARIANT TerminalIsTotal
CHECK_DEADLOCK FALSE
