-------------------------------- MODULE Chain --------------------------------
(***************************************************************************)
(* The continuous-time Markov chain approximating a Levy (copula) process  *)
(* on a state grid, over an ATOMIC Levy measure: finitely many atoms with  *)
(* integer weights.  Positions are integers (ranks, or lattice units): a   *)
(* mass is a plain sum over the atoms strictly inside an interval / box.   *)
(*                                                                         *)
(*   ax[d]   states of axis d (strictly increasing)                        *)
(*   bd[d]   cell boundaries of axis d: bd[d][i] between ax[d][i] and      *)
(*           ax[d][i+1] (the grid's own `middle`)                          *)
(*   org     1-based index of the origin state (same on every axis)        *)
(*   atoms   sequence of <<position tuple, weight>>                        *)
(*                                                                         *)
(* C01: cells tile the truncation box minus the central cell, each state   *)
(* lies in its own cell, rate(state) = mass(cell), sum of rates =          *)
(* intensity = sum over the 3^d - 1 blocks around the central cell.        *)
(***************************************************************************)
EXTENDS Integers, Sequences, FiniteSets, TLC, SequencesExt

SumSeq(s) == FoldSeq(LAMBDA x, y : x + y, 0, s)

\* one axis: the cell of state k is [CellLo, CellHi]; the end cells stop at the end states (= the truncation)
CellLo(a, b, k) == IF k = 1 THEN a[1] ELSE b[k - 1]
CellHi(a, b, k) == IF k = Len(a) THEN a[Len(a)] ELSE b[k]

Inside(p, lo, hi) == lo < p /\ p < hi
\* mass of the box prod_d (los[d], his[d]) : sum of the weights of the atoms strictly inside
MassBox(atoms, los, his) ==
    SumSeq([i \in 1..Len(atoms) |->
              IF \A d \in 1..Len(los) : Inside(atoms[i][1][d], los[d], his[d]) THEN atoms[i][2] ELSE 0])
\* cell of the state with (1-based) index tuple ks
CellLos(ax, bd, ks) == [d \in 1..Len(ks) |-> CellLo(ax[d], bd[d], ks[d])]
CellHis(ax, bd, ks) == [d \in 1..Len(ks) |-> CellHi(ax[d], bd[d], ks[d])]
Rate(atoms, ax, bd, ks) == MassBox(atoms, CellLos(ax, bd, ks), CellHis(ax, bd, ks))

IsOrigin(ks, org) == \A d \in 1..Len(ks) : ks[d] = org
\* the intensity: everything inside the truncation box except the central cell
InBox(p, ax) == \A d \in 1..Len(ax) : Inside(p[d], ax[d][1], ax[d][Len(ax[d])])
InCentral(p, bd, org) == \A d \in 1..Len(bd) : Inside(p[d], bd[d][org - 1], bd[d][org])
Intensity(atoms, ax, bd, org) ==
    SumSeq([i \in 1..Len(atoms) |-> IF InBox(atoms[i][1], ax) /\ ~InCentral(atoms[i][1], bd, org) THEN atoms[i][2] ELSE 0])

\* well-placed boundaries: every boundary strictly between its two states (cells tile, states in own cells)
BoundariesBetween(ax, bd) ==
    \A d \in 1..Len(ax) : /\ Len(bd[d]) = Len(ax[d]) - 1
                          /\ \A i \in 1..Len(bd[d]) : ax[d][i] < bd[d][i] /\ bd[d][i] < ax[d][i + 1]
\* no atom on a state or on a boundary (precondition of the atomic world)
AtomsOffGrid(atoms, ax, bd) ==
    \A i \in 1..Len(atoms), d \in 1..Len(ax) :
        /\ \A j \in 1..Len(ax[d]) : atoms[i][1][d] # ax[d][j]
        /\ \A j \in 1..Len(bd[d]) : atoms[i][1][d] # bd[d][j]
=============================================================================
