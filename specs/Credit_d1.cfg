SPECIFICATION Spec
CONSTANT Dim = 1
INVARIANT InclusionExclusion
INVARIANT Monotone
CHECK_DEADLOCK FALSE
