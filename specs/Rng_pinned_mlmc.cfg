SPECIFICATION Spec
CONSTANT NWorkers = 0
CONSTANT NPaths = 3
CONSTANT NPhases = 2
CONSTANT SeedGiven = TRUE
CONSTANT SeedBeforePreDraw = TRUE
CONSTANT SeedOncePerRun = FALSE
CONSTANT SharedDeque = TRUE
INVARIANT NoSharedVariates
INVARIANT PreDrawnOnce
INVARIANT NoReseedToUsedState
INVARIANT Reproducible
CHECK_DEADLOCK FALSE
