SPECIFICATION Spec
CONSTANT Tenors <- TenorsQ
CONSTANT Rates <- RatesQ
CONSTANT Multiply = FALSE
INVARIANT DfOneAtZero
INVARIANT DfPositive
INVARIANT DfMonotone
CHECK_DEADLOCK FALSE
