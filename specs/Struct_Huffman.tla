--------------------------- MODULE Struct_Huffman ---------------------------
(***************************************************************************)
(* Specification -> code: the construction of Huffman.tla is run by TLC for   *)
(* the weight vectors the driver used (harness/drivers/struct_run.py) and  *)
(* the structure it ends with is compared with the structure of the REAL   *)
(* object built by rpylib for the same vector.  A difference is a DRIFT    *)
(* notice (the transcription and the code took different steps), not a     *)
(* verdict: the law is judged by Huffman.tla (design) and Trace_Sampler.tla.   *)
(***************************************************************************)
EXTENDS Huffman, Json, IOUtils, TLCExt
Lines == ndJsonDeserialize(IOEnv.TRACE_FILE)
VARIABLES tid, done
svars == <<tid, done, hvars>>
Mine == {i \in 1..Len(Lines) : Lines[i].hdr.kind = "huffman"}
SInit == tid \in Mine /\ done = FALSE /\ InitFor(Lines[tid].hdr.W)
Seen == Lines[tid].ev[1]
Model == Shape(nodes[1])
Compare ==
    /\ pc = "ready" /\ ~done
    /\ IF Model = Seen.shape THEN TRUE ELSE PrintT(<<"DRIFT", Lines[tid].tid, 1, "huffman", Model, Seen.shape>>)
    /\ PrintT(<<"ACCEPT", Lines[tid].tid>>)
    /\ done' = TRUE /\ UNCHANGED <<tid, hvars>>
SNext == (Next /\ UNCHANGED <<tid, done>>) \/ Compare
SSpec == SInit /\ [][SNext]_svars
=============================================================================
