SPECIFICATION Spec
CONSTANT Tenors <- TenorsQ
CONSTANT Rates <- RatesQ
CONSTANT Multiply = TRUE
INVARIANT DfOneAtZero
INVARIANT DfPositive
INVARIANT DfMonotone
CHECK_DEADLOCK FALSE
