SPECIFICATION TraceSpec
CHECK_DEADLOCK FALSE
