------------------------------- MODULE Measure -------------------------------
(***************************************************************************)
(* Levy measures with a density, seen through their moment integrals       *)
(* (rpylib/model/levymodel/levymodel.py: LevyMeasure and the wrapper       *)
(* TruncatedLevyMeasure), C09.                                             *)
(*                                                                         *)
(* Exact world: step densities - a measure is a sequence of cells          *)
(* <<lo, hi, h>> (integer end points lo < hi in lattice units, no cell     *)
(* straddling zero, height h >= 0).  Its n-th moment over [a, b] is the    *)
(* rational  sum_cells h (B^(n+1) - A^(n+1)) / (n+1)  over the clipped     *)
(* cells.                                                                  *)
(*                                                                         *)
(* The state is what a program holds: the underlying measure and the       *)
(* STACK of truncation wrappers around it (LevyModel.truncate wraps the    *)
(* current measure, so wrappers nest).  Eval / DensEval transcribe the     *)
(* wrappers as written (each clips the query with its own                  *)
(* _truncated_interval and hands it to the measure inside); Xn is the      *)
(* dispatch of integrate_against_xn.  The invariants state C09: whatever   *)
(* the stack, the result is the moment of the density restricted to the    *)
(* intersection of all windows; it is additive, has the stated sign and    *)
(* the density vanishes outside the window.                                *)
(***************************************************************************)
EXTENDS Rationals, FiniteSets

CONSTANTS Family,     \* set of step measures
          Points,     \* query and truncation end points (lattice units; -Inf and Inf allowed)
          Orders,     \* the orders n of the moments
          MaxDepth,   \* nesting depth of truncations explored
          ZeroRule    \* "ab": xn(n = 0) = integrate(a, b) (the code after its repair) ; "aa": the code as found

VARIABLES meas, stack
mvars == <<meas, stack>>

Inf == 1000
Max2(x, y) == IF x >= y THEN x ELSE y
Min2(x, y) == IF x <= y THEN x ELSE y
RECURSIVE Pow(_, _)
Pow(x, k) == IF k = 0 THEN 1 ELSE x * Pow(x, k - 1)

CellMoment(c, n, a, b) ==
    LET A == Max2(a, c[1])
        B == Min2(b, c[2])
    IN IF A < B THEN Q(c[3] * (Pow(B, n + 1) - Pow(A, n + 1)), n + 1) ELSE QZero
Moment(m, n, a, b) == QSum([i \in 1..Len(m) |-> CellMoment(m[i], n, a, b)])
\* density away from the break points
Density(m, x) == LET hit == SelectSeq(m, LAMBDA c : c[1] < x /\ x < c[2]) IN IF hit = <<>> THEN 0 ELSE hit[1][3]
IsBreak(m, x) == \E i \in 1..Len(m) : x = m[i][1] \/ x = m[i][2]

\* ---- the wrappers as written -----------------------------------------------------------------------------------
\* TruncatedLevyMeasure._truncated_interval(a, b) for the window w = <<l, r>>
Clip(w, a, b) == <<Max2(Min2(a, w[2]), w[1]), Min2(Max2(b, w[1]), w[2])>>
RECURSIVE Eval(_, _, _, _, _)
Eval(m, st, n, a, b) ==
    IF st = <<>> THEN Moment(m, n, a, b)
    ELSE LET c == Clip(st[Len(st)], a, b) IN Eval(m, SubSeq(st, 1, Len(st) - 1), n, c[1], c[2])
RECURSIVE ClipAll(_, _, _)
ClipAll(st, a, b) == IF st = <<>> THEN <<a, b>> ELSE LET c == Clip(st[Len(st)], a, b) IN ClipAll(SubSeq(st, 1, Len(st) - 1), c[1], c[2])
\* integrate_against_xn: the wrappers clip and hand over; the measure inside dispatches on n
Xn(m, st, n, a, b) ==
    IF n = 0 /\ ZeroRule = "aa" THEN LET c == ClipAll(st, a, b) IN Moment(m, 0, c[1], c[1])
    ELSE Eval(m, st, n, a, b)
RECURSIVE DensEval(_, _, _)
DensEval(m, st, x) ==
    IF st = <<>> THEN Density(m, x)
    ELSE LET w == st[Len(st)] IN IF x > w[2] \/ x < w[1] THEN 0 ELSE DensEval(m, SubSeq(st, 1, Len(st) - 1), x)

\* ---- what C09 states ---------------------------------------------------------------------------------------------
RECURSIVE Window(_)
Window(st) == IF st = <<>> THEN <<-Inf, Inf>>
              ELSE LET w == Window(Tail(st)) IN <<Max2(st[1][1], w[1]), Min2(st[1][2], w[2])>>
Restricted(m, st, n, a, b) ==
    LET w == Window(st)
        A == Max2(a, w[1])
        B == Min2(b, w[2])
    IN IF A < B THEN Moment(m, n, A, B) ELSE QZero

Pairs == {p \in Points \X Points : p[1] <= p[2]}
Triples == {t \in Points \X Points \X Points : t[1] <= t[2] /\ t[2] <= t[3]}

TruncatedIsRestriction ==
    \A n \in Orders : \A p \in Pairs : Xn(meas, stack, n, p[1], p[2]) = Restricted(meas, stack, n, p[1], p[2])
Additive ==
    \A n \in Orders : \A t \in Triples :
        QAdd(Xn(meas, stack, n, t[1], t[2]), Xn(meas, stack, n, t[2], t[3])) = Xn(meas, stack, n, t[1], t[3])
SignOfMoment ==
    \A n \in Orders : \A p \in Pairs :
        LET v == Xn(meas, stack, n, p[1], p[2]) IN
        /\ (n % 2 = 0 => v[1] >= 0)
        /\ (n % 2 = 1 /\ p[2] <= 0 => v[1] <= 0)
        /\ (n % 2 = 1 /\ p[1] >= 0 => v[1] >= 0)
DensityVanishesOutside ==
    \A x \in Points : ~IsBreak(meas, x) /\ x # Inf /\ x # -Inf =>
        LET w == Window(stack) IN
        DensEval(meas, stack, x) = (IF x < w[1] \/ x > w[2] THEN 0 ELSE Density(meas, x))
\* a truncated measure is again a measure of the same kind: truncating twice is truncating to the intersection
NestingIsIntersection ==
    Len(stack) >= 2 /\ Window(stack)[1] < Window(stack)[2] =>
        \A n \in Orders : \A p \in Pairs :
            Eval(meas, stack, n, p[1], p[2]) = Eval(meas, <<Window(stack)>>, n, p[1], p[2])

\* ---- transitions ---------------------------------------------------------------------------------------------------
Init == meas \in Family /\ stack = <<>>
Truncate(l, r) == /\ Len(stack) < MaxDepth /\ l < r
                  /\ stack' = Append(stack, <<l, r>>) /\ UNCHANGED meas
Next == \E l, r \in Points : Truncate(l, r)
Spec == Init /\ [][Next]_mvars
=============================================================================
