---------------------------- MODULE Trace_Measure ----------------------------
(***************************************************************************)
(* Validation of the real Levy measures (harness/drivers/measure_run.py)   *)
(* against Measure.tla (C09).                                              *)
(*  step traces (exact): the measure is a step density; every recorded     *)
(*    query - through the real truncation wrappers, nested as the history  *)
(*    of Trunc events says, and through the real dispatch on the order -   *)
(*    equals the moment of the density restricted to the intersection of   *)
(*    the windows (reduced fractions); orders n >= 3 reach the quadrature  *)
(*    fall-back of the base class and are compared within 2/1000 + 1e-4;          *)
(*  real traces (thin): HEM, Merton, VG, CGMY: the closed forms on a       *)
(*    lattice of end points, quantised: closed form = quadrature of x^n    *)
(*    times the model's own density (relative 2e-6), additivity over       *)
(*    adjacent intervals, signs, truncated = restriction, density of the   *)
(*    truncated measure.  End points are known to TLC by their index.      *)
(***************************************************************************)
EXTENDS Measure, Json, IOUtils, TLCExt, TLC

Lines == ndJsonDeserialize(IOEnv.TRACE_FILE)
VARIABLES tid, ln, bad, fin
tvars == <<tid, ln, bad, fin, mvars>>
T == Lines[tid].ev
H == Lines[tid].hdr
Id == Lines[tid].tid
E == T[ln]

CellsOf(h) == [i \in 1..Len(h.cells) |-> <<h.cells[i][1], h.cells[i][2], h.cells[i][3]>>]
TraceInit == /\ tid \in 1..Len(Lines) /\ ln = 1 /\ bad = 0 /\ fin = FALSE
             /\ meas = (IF "cells" \in DOMAIN Lines[tid].hdr THEN CellsOf(Lines[tid].hdr) ELSE <<>>)
             /\ stack = <<>>
More == ~fin /\ ln <= Len(T)
Viol(name) == PrintT(<<"VIOL", Id, ln, name, H.kind>>)
Judge(checks) ==
    LET failed == SelectSeq(checks, LAMBDA c : ~c[2]) IN
    IF failed = <<>> THEN bad' = bad ELSE (\A i \in 1..Len(failed) : Viol(failed[i][1])) /\ bad' = bad + 1
\* the same with the class of the event appended to the signature ("" closed form, ":fallback" through the generic
\* quadrature on a finite interval, ":fallback-halfline" through the generic quadrature on a half-line)
JudgeC(checks, cls) ==
    LET failed == SelectSeq(checks, LAMBDA c : ~c[2]) IN
    IF failed = <<>> THEN bad' = bad
    ELSE (\A i \in 1..Len(failed) : PrintT(<<"VIOL", Id, ln, failed[i][1], H.kind \o cls>>)) /\ bad' = bad + 1
Same(v, r) == v[2] # 0 /\ <<v[1], v[2]>> = r
Abs(x) == IF x < 0 THEN -x ELSE x

\* ---- the history of wrappers -----------------------------------------------------------------------------------
TruncStep ==
    /\ More /\ E.e = "Trunc"
    /\ stack' = Append(stack, <<E.l, E.r>>)
    /\ ln' = ln + 1 /\ UNCHANGED <<tid, fin, bad, meas>>
ResetStep ==
    /\ More /\ E.e = "Reset"
    /\ stack' = <<>>
    /\ ln' = ln + 1 /\ UNCHANGED <<tid, fin, bad, meas>>

\* ---- step densities (exact) --------------------------------------------------------------------------------------
\* row = <<route, n, a, b, value>>; route 3 = integrate_against_xn, otherwise the dedicated method of order n
QueryStep ==
    /\ More /\ E.e = "Query"
    /\ Judge(<< <<"MomentIsIntegralOfDensity",
                    stack # <<>> \/ \A i \in 1..Len(E.rows) :
                        Same(E.rows[i][5], Moment(meas, E.rows[i][2], E.rows[i][3], E.rows[i][4]))>>,
                <<"TruncatedIsRestriction",
                    stack = <<>> \/ \A i \in 1..Len(E.rows) :
                        Same(E.rows[i][5], Restricted(meas, stack, E.rows[i][2], E.rows[i][3], E.rows[i][4]))>> >>)
    /\ ln' = ln + 1 /\ UNCHANGED <<tid, fin, mvars>>
\* quadrature fall-back (scipy defaults, over the jumps of a step density): |v / S - r| <= 2 / S + 1e-4 |v|
NearQ(vq, r, S) == Abs(vq * r[2] - r[1] * S) <= (2 + Abs(vq) \div 10000) * r[2]
QueryQStep ==
    /\ More /\ E.e = "QueryQ"
    /\ Judge(<< <<"QuadratureFallback",
                    \A i \in 1..Len(E.rows) :
                        NearQ(E.rows[i][4], Restricted(meas, stack, E.rows[i][1], E.rows[i][2], E.rows[i][3]), E.S)>> >>)
    /\ ln' = ln + 1 /\ UNCHANGED <<tid, fin, mvars>>
DensStep ==
    /\ More /\ E.e = "Dens"
    /\ Judge(<< <<"DensityVanishesOutside",
                    \A i \in 1..Len(E.rows) :
                        LET x == E.rows[i][1] w == Window(stack) IN
                        E.rows[i][2] = (IF x < w[1] \/ x > w[2] THEN 0 ELSE Density(meas, x))>> >>)
    /\ ln' = ln + 1 /\ UNCHANGED <<tid, fin, mvars>>

\* ---- real models (thin): end points by index 1..np, zero at index H.zero ------------------------------------------
NP == H.np
Def(i, j) == E.def[i][j] = 1
AdditiveQ ==
    \A i \in 1..NP : \A j \in (i + 1)..NP : \A k \in (j + 1)..NP :
        Def(i, j) /\ Def(j, k) /\ Def(i, k) => Abs(E.v[i][j] + E.v[j][k] - E.v[i][k]) <= 3
SignQ ==
    \A i \in 1..NP : \A j \in (i + 1)..NP : Def(i, j) =>
        /\ (E.n % 2 = 0 => E.v[i][j] >= -1)
        /\ (E.n % 2 = 1 /\ j <= H.zero => E.v[i][j] <= 1)
        /\ (E.n % 2 = 1 /\ i >= H.zero => E.v[i][j] >= -1)
TableStep ==
    /\ More /\ E.e = "Table"
    /\ JudgeC(<< <<"Additive", AdditiveQ>>, <<"SignOfMoment", SignQ>> >>, E.cls)
    /\ ln' = ln + 1 /\ UNCHANGED <<tid, fin, mvars>>
\* row = <<n, i, j, closed form, quadrature>> on the row's own scale (1e-6 of the larger of the two)
VersusStep ==
    /\ More /\ E.e = "Versus"
    /\ JudgeC(<< <<"ClosedFormIsIntegralOfDensity",
                    \A i \in 1..Len(E.rows) : Abs(E.rows[i][4] - E.rows[i][5]) <= 2>> >>, E.cls)
    /\ ln' = ln + 1 /\ UNCHANGED <<tid, fin, mvars>>
\* truncated real measure: the same table through the wrappers (same scale): the restriction, looked up in the table
WinIx == Window(stack)
Lo(i) == Max2(i, Max2(WinIx[1], 1))
Hi(j) == Min2(j, Min2(WinIx[2], NP))
TableTStep ==
    /\ More /\ E.e = "TableT"
    /\ Judge(<< <<"TruncatedIsRestriction",
                    \A i \in 1..NP : \A j \in (i + 1)..NP : Def(i, j) =>
                        E.tv[i][j] = (IF Lo(i) < Hi(j) THEN E.v[Lo(i)][Hi(j)] ELSE 0)>> >>)
    /\ ln' = ln + 1 /\ UNCHANGED <<tid, fin, mvars>>
\* row = <<rank of x (end point i has rank 2i), truncated density, density>>
DensTStep ==
    /\ More /\ E.e = "DensT"
    /\ Judge(<< <<"DensityVanishesOutside",
                    \A i \in 1..Len(E.rows) :
                        E.rows[i][2] = (IF E.rows[i][1] < 2 * WinIx[1] \/ E.rows[i][1] > 2 * WinIx[2] THEN 0 ELSE E.rows[i][3])>> >>)
    /\ ln' = ln + 1 /\ UNCHANGED <<tid, fin, mvars>>

\* x_nu(x) = x * density(x): row = <<x_nu, x * nu(x)>> in units of 1e-9 of the larger
XNuStep ==
    /\ More /\ E.e = "XNu"
    /\ Judge(<< <<"XNuIsXTimesDensity", \A i \in 1..Len(E.rows) : Abs(E.rows[i][1] - E.rows[i][2]) <= 2>> >>)
    /\ ln' = ln + 1 /\ UNCHANGED <<tid, fin, mvars>>
RaiseStep ==
    /\ More /\ E.e = "Raise"
    /\ PrintT(<<"REJECT", Id, ln, "Raise", H.kind>>)
    /\ bad' = bad + 1 /\ ln' = ln + 1 /\ UNCHANGED <<tid, fin, mvars>>
Finish ==
    /\ ~fin /\ ln = Len(T) + 1
    /\ IF bad = 0 THEN PrintT(<<"ACCEPT", Id>>) ELSE TRUE
    /\ fin' = TRUE /\ UNCHANGED <<tid, ln, bad, mvars>>

TraceNext == TruncStep \/ ResetStep \/ QueryStep \/ QueryQStep \/ DensStep \/ TableStep \/ VersusStep \/ TableTStep
             \/ DensTStep \/ XNuStep \/ RaiseStep \/ Finish
TraceSpec == TraceInit /\ [][TraceNext]_tvars
=============================================================================
