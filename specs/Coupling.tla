------------------------------- MODULE Coupling -------------------------------
(***************************************************************************)
(* The level coupling of the one-dimensional chain                         *)
(* (rpylib/process/coupling/couplingmarkovchain.py) over an atomic Levy    *)
(* measure on a lattice grid.                                              *)
(*                                                                         *)
(* State: the level, the diffusion coefficients and drifts of the fine and *)
(* coarse components.  NextLevel as the code does it: freeze the fine      *)
(* drift as coarse drift, copy the fine diffusion coefficient to the       *)
(* coarse one, refine the grid in place, rebuild the fine chain.           *)
(* The coupling sends a fine state of even increment to itself and a fine  *)
(* state x of odd increment to its right coarse neighbour with probability *)
(*   mass(x, mid_right) / (mass(mid_left, x) + mass(x, mid_right)).        *)
(*                                                                         *)
(* C03: Telescoping (as a statement about SETS of atoms, hence for any     *)
(* weights): the atoms the coupling sends to coarse state y are exactly    *)
(* the atoms of y's cell in the level-(l-1) chain; Locality;               *)
(* CoarseIsPrevious.                                                       *)
(***************************************************************************)
EXTENDS Integers, Sequences, FiniteSets, TLC

CONSTANTS Shapes, MaxLevel,
          CopyCoarse        \* TRUE: next_level copies the fine coefficient / drift to the coarse side (the code)

VARIABLES shape, lvl, sigF, sigC, muF, muC
cvars == <<shape, lvl, sigF, sigC, muF, muC>>

StepAt(l) == 2 ^ (MaxLevel + 2 - l)
NLAt(l) == shape[1] * (2 ^ l)
NRAt(l) == shape[2] * (2 ^ l)
AxisAt(l) == [i \in 1..(NLAt(l) + NRAt(l) + 1) |-> (i - NLAt(l) - 1) * StepAt(l)]
OrgAt(l) == NLAt(l) + 1
Atoms == {p \in (AxisAt(0)[1] - 3)..(AxisAt(0)[Len(AxisAt(0))] + 3) : p % 2 # 0}
\* abstract per-level quantities (any injective functions of the level would do)
SigOf(l) == 100 + l
MuOf(l) == 200 + l

Init == shape \in Shapes /\ lvl = 0 /\ sigF = SigOf(0) /\ sigC = 0 /\ muF = MuOf(0) /\ muC = 0
NextLevel ==
    /\ lvl < MaxLevel
    /\ lvl' = lvl + 1
    /\ sigC' = (IF CopyCoarse THEN sigF ELSE sigC) /\ muC' = (IF CopyCoarse THEN muF ELSE muC)
    /\ sigF' = SigOf(lvl + 1) /\ muF' = MuOf(lvl + 1)
    /\ UNCHANGED shape
Spec == Init /\ [][NextLevel]_cvars

\* cells at level l (end cells stop at the end states)
Lo(a, k) == IF k = 1 THEN a[1] ELSE (a[k - 1] + a[k]) \div 2
Hi(a, k) == IF k = Len(a) THEN a[Len(a)] ELSE (a[k] + a[k + 1]) \div 2
CellSet(a, k) == {p \in Atoms : Lo(a, k) < p /\ p < Hi(a, k)}
LeftPart(a, k) == {p \in CellSet(a, k) : p < a[k]}
RightPart(a, k) == {p \in CellSet(a, k) : p > a[k]}

\* atoms whose jump the coupling sends to the coarse state of coarse index j (fine index 2j-1), level l >= 1
SentTo(l, j) ==
    LET a == AxisAt(l) k == 2 * j - 1 IN
    CellSet(a, k)
      \cup (IF k - 1 >= 1 THEN RightPart(a, k - 1) ELSE {})
      \cup (IF k + 1 <= Len(a) THEN LeftPart(a, k + 1) ELSE {})
Telescoping ==
    lvl >= 1 => \A j \in 1..Len(AxisAt(lvl - 1)) :
                   j # OrgAt(lvl - 1) => SentTo(lvl, j) = CellSet(AxisAt(lvl - 1), j)
\* the central coarse cell receives what is left (its own fine cell is not a jump)
Locality ==
    lvl >= 1 => \A k \in 1..Len(AxisAt(lvl)) :
                   IF k % 2 = 1 THEN AxisAt(lvl)[k] = AxisAt(lvl - 1)[(k + 1) \div 2]            \* copied unchanged
                   ELSE /\ AxisAt(lvl)[k - 1] = AxisAt(lvl - 1)[k \div 2]                          \* moved to an adjacent
                        /\ AxisAt(lvl)[k + 1] = AxisAt(lvl - 1)[k \div 2 + 1]                      \* coarse state only
CoarseIsPrevious == (lvl = 0 => sigC = 0 /\ muC = 0) /\ (lvl >= 1 => sigC = SigOf(lvl - 1) /\ muC = MuOf(lvl - 1))
=============================================================================
