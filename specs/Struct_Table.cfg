SPECIFICATION SSpec
CONSTANT MaxLen = 1
CONSTANT MaxSum = 1
CHECK_DEADLOCK FALSE
