----------------------------- MODULE Trace_Credit -----------------------------
(***************************************************************************)
(* Validation of the real credit closed forms and of the chain's           *)
(* default-region rate (harness/drivers/credit_run.py) against Credit.tla. *)
(* Positions are per-axis ranks; masses exact integers.                    *)
(***************************************************************************)
EXTENDS Credit, Json, IOUtils, TLCExt

Lines == ndJsonDeserialize(IOEnv.TRACE_FILE)
VARIABLES tid, ln, bad, fin
tvars == <<tid, ln, bad, fin>>
T == Lines[tid].ev
H == Lines[tid].hdr
Id == Lines[tid].tid
E == T[ln]

TraceInit == tid \in 1..Len(Lines) /\ ln = 1 /\ bad = 0 /\ fin = FALSE
More == ~fin /\ ln <= Len(T)
Viol(name) == PrintT(<<"VIOL", Id, ln, name, H.kind>>)
Judge(checks) ==
    LET failed == SelectSeq(checks, LAMBDA c : ~c[2]) IN
    IF failed = <<>> THEN bad' = bad ELSE (\A i \in 1..Len(failed) : Viol(failed[i][1])) /\ bad' = bad + 1
Abs(x) == IF x < 0 THEN -x ELSE x

Lo == [i \in 1..H.d |-> H.ax[i][1]]
Hi == [i \in 1..H.d |-> H.ax[i][Len(H.ax[i])]]
Want == ThetaBox(H.atoms, H.levels, Lo, Hi)

ThetaStep ==
    /\ More /\ E.e = "Theta"
    /\ Judge(<< <<"Numeric", E.bad = 0>>,
                <<"ClosedFormIsMassOfDefaultRegion", E.bad # 0 \/ (E.theta = Want /\ E.theta = InclExcl(
                      SelectSeq(H.atoms, LAMBDA at : InBox(at[1], Lo, Hi)), H.levels))>>,
                <<"DefaultRegionRateOfChain", E.bad # 0 \/ E.default_rate = Want>>,
                <<"SurvivalAndSpreadAreFunctionsOfTheta", E.bad # 0 \/ (E.sp_theta = E.theta /\ E.spread2 = E.theta
                                                                       /\ Abs(E.s0q - E.thetaq) <= 2)>>,
                <<"ImpliedMapsInvert", E.bad # 0 \/ (E.theta_at_implied = E.theta
                                                     \* (magnitudes first: a wild value must fail the clause, not overflow TLC's integers)
                                                     /\ Abs(E.A1) <= 20000 /\ Abs(E.A2) <= 20000 /\ Abs(E.x) <= 90000
                                                     /\ Abs(E.A2 * 10000 - E.A1 * (10000 + E.x)) <= 6 * 10000
                                                     /\ Abs(E.A1m) <= 2000 /\ Abs(E.RTm) <= 1000000
                                                     /\ Abs(E.A1m * E.RTm - E.omx) <= E.RTm + Abs(E.A1m) + 10)>> >>)
    /\ ln' = ln + 1 /\ UNCHANGED <<tid, fin>>
RaiseStep ==
    /\ More /\ E.e = "Raise"
    /\ PrintT(<<"REJECT", Id, ln, "Raise", H.kind>>)
    /\ bad' = bad + 1 /\ ln' = ln + 1 /\ UNCHANGED <<tid, fin>>
Finish ==
    /\ ~fin /\ ln = Len(T) + 1
    /\ IF bad = 0 THEN PrintT(<<"ACCEPT", Id>>) ELSE TRUE
    /\ fin' = TRUE /\ UNCHANGED <<tid, ln, bad>>
TraceNext == ThetaStep \/ RaiseStep \/ Finish
TraceSpec == TraceInit /\ [][TraceNext]_tvars
=============================================================================
