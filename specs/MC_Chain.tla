------------------------------ MODULE MC_Chain ------------------------------
(***************************************************************************)
(* Design check of Chain.tla on lattice grids: every small grid shape,     *)
(* dimension 1..2 (3 with the smallest shapes), refinement level 0..2,     *)
(* one unit atom at every odd lattice point of the box (and beyond it).    *)
(***************************************************************************)
EXTENDS Chain
CONSTANTS Shapes, Dims, Levels
ShapesQ == {<<1, 1>>, <<2, 1>>, <<1, 3>>, <<2, 2>>}
Shapes1 == {<<1, 1>>}

VARIABLES shape, dim, lvl
mvars == <<shape, dim, lvl>>
Init == shape \in Shapes /\ dim \in Dims /\ lvl = 0
Refine == lvl < Levels /\ lvl' = lvl + 1 /\ UNCHANGED <<shape, dim>>
Spec == Init /\ [][Refine]_mvars

Step == 2 ^ (Levels + 2 - lvl)                      \* spacing of the states at this level (>= 4)
NL == shape[1] * (2 ^ lvl)
NR == shape[2] * (2 ^ lvl)
Axis == [i \in 1..(NL + NR + 1) |-> (i - NL - 1) * Step]
Bnd == [i \in 1..(NL + NR) |-> ((i - NL - 1) * Step) + (Step \div 2)]
Ax == [d \in 1..dim |-> Axis]
Bd == [d \in 1..dim |-> Bnd]
Org == NL + 1
Odds == {p \in (Axis[1] - 3)..(Axis[NL + NR + 1] + 3) : p % 2 # 0}
Tuples(n) == IF n = 1 THEN {<<p>> : p \in Odds} ELSE IF n = 2 THEN {<<p, q>> : p \in Odds, q \in Odds}
             ELSE {<<p, q, r>> : p \in Odds, q \in Odds, r \in Odds}
States(n) == IF n = 1 THEN {<<k>> : k \in 1..Len(Axis)} ELSE IF n = 2 THEN {<<k, j>> : k \in 1..Len(Axis), j \in 1..Len(Axis)}
             ELSE {<<k, j, m>> : k \in 1..Len(Axis), j \in 1..Len(Axis), m \in 1..Len(Axis)}
InCell(p, ks) == \A d \in 1..dim : Inside(p[d], CellLo(Ax[d], Bd[d], ks[d]), CellHi(Ax[d], Bd[d], ks[d]))

\* C01: the cells tile the truncation box: every atom of the box is in exactly one cell, the central one iff ...
Tiling == \A p \in Tuples(dim) :
            LET cells == {ks \in States(dim) : InCell(p, ks)} IN
            IF InBox(p, Ax) THEN /\ Cardinality(cells) = 1
                                 /\ (InCentral(p, Bd, Org) <=> \A ks \in cells : IsOrigin(ks, Org))
            ELSE cells = {}
StateInOwnCell == \A ks \in States(dim) : \A d \in 1..dim :
                     CellLo(Ax[d], Bd[d], ks[d]) <= Ax[d][ks[d]] /\ Ax[d][ks[d]] <= CellHi(Ax[d], Bd[d], ks[d])
AtomSeq == LET S == Tuples(dim) IN
           CHOOSE s \in [1..Cardinality(S) -> S] : \A i, j \in 1..Cardinality(S) : i # j => s[i] # s[j]
\* (cheaper than building a sequence: count directly)
CountWhere(P(_)) == Cardinality({p \in Tuples(dim) : P(p)})
SumRatesIsIntensity ==
    LET rate(ks) == CountWhere(LAMBDA p : InCell(p, ks))
        total == CountWhere(LAMBDA p : InBox(p, Ax) /\ ~InCentral(p, Bd, Org))
        S == {ks \in States(dim) : ~IsOrigin(ks, Org)}
    IN Cardinality({<<p, ks>> \in Tuples(dim) \X S : InCell(p, ks)}) = total
BoundariesOK == BoundariesBetween(Ax, Bd)
=============================================================================
