----------------------------- MODULE Enumeration -----------------------------
(***************************************************************************)
(* StatesManager.project_index_to_state_increment (pairing.py): the        *)
(* stateful enumeration of the admissible states of a chain, as used by    *)
(* the inversion sampler.  Box = product of [-Ls[i], Rs[i]]; the raw index *)
(* runs through the Z^d pairing, indices whose state is outside the box    *)
(* are skipped with the skip pointer `last`; exhaustion is signalled when  *)
(* the raw index passes the largest frontier index.                        *)
(*   StrictBound = TRUE  : `while xx <  max_frontier` (pinned code)        *)
(*   StrictBound = FALSE : `while xx <= max_frontier`                      *)
(* C14: ExactlyOnce - at exhaustion every in-box non-origin state has been *)
(* returned exactly once.                                                  *)
(***************************************************************************)
EXTENDS Pairing

CONSTANTS Boxes,        \* set of <<Ls, Rs>> (sequences of equal length 2 or 3, or 1)
          StrictBound,
          BoundFromAllStates  \* TRUE: the loop bound is the largest index of ANY admissible state; FALSE: of the frontier only (pinned code)

VARIABLES box, last, cnt, out, exhausted
evars == <<box, last, cnt, out, exhausted, kind, z, iv>>

Dim == Len(box[1])
InBox(x) == \A i \in 1..Dim : x[i] >= -box[1][i] /\ x[i] <= box[2][i]
ProjD(k) == IF Dim = 1 THEN <<Z1Proj(k, box[1][1], box[2][1])>> ELSE IF Dim = 2 THEN ZProj2S(k) ELSE ZProj3(k)
PairD(x) == IF Dim = 1 THEN Z1Pair(x[1], box[1][1], box[2][1]) ELSE IF Dim = 2 THEN ZPair2S(x) ELSE ZPair3(x)
AllStates == IF Dim = 1 THEN {<<a>> : a \in (-box[1][1])..box[2][1]}
             ELSE IF Dim = 2 THEN {<<a, b>> : a \in (-box[1][1])..box[2][1], b \in (-box[1][2])..box[2][2]}
             ELSE {<<a, b, c>> : a \in (-box[1][1])..box[2][1], b \in (-box[1][2])..box[2][2], c \in (-box[1][3])..box[2][3]}
NonOrigin == {x \in AllStates : \E i \in 1..Dim : x[i] # 0}
\* the frontier as Domain.compute_total_number_of_states_and_frontier collects it (no boundary): both ends of
\* every line parallel to the last axis; in one dimension the two end points
Frontier == {x \in NonOrigin : x[Dim] = -box[1][Dim] \/ x[Dim] = box[2][Dim]}
MaxOfSet(S) == CHOOSE m \in S : \A y \in S : m >= y
MaxFrontier == MaxOfSet({PairD(x) : x \in Frontier})
MaxIndex == MaxOfSet({PairD(x) : x \in NonOrigin})

EInit == kind = "enum" /\ z = 0 /\ iv = <<0, 0>> /\ box \in Boxes /\ last = -1 /\ cnt = 0 /\ out = <<>> /\ exhausted = FALSE

\* first raw index >= s whose state is in the box, or -1 when the bound is passed first
RECURSIVE Scan(_)
Bound == IF BoundFromAllStates THEN MaxIndex ELSE MaxFrontier
Scan(s) == IF (IF StrictBound THEN s < Bound ELSE s <= Bound)
           THEN (IF InBox(ProjD(s)) THEN s ELSE Scan(s + 1))
           ELSE -1

ProjectNext ==
    /\ ~exhausted
    /\ LET start == IF cnt >= last + 1 THEN cnt ELSE last + 1
           hit == Scan(start)
       IN IF hit >= 0
          THEN last' = hit /\ out' = Append(out, ProjD(hit)) /\ exhausted' = FALSE
          ELSE exhausted' = TRUE /\ UNCHANGED <<last, out>>
    /\ cnt' = cnt + 1 /\ UNCHANGED <<box, pvars>>

ENext == ProjectNext
ESpec == EInit /\ [][ENext]_evars

NoDuplicates == \A i, j \in 1..Len(out) : i # j => out[i] # out[j]
OnlyAdmissible == \A i \in 1..Len(out) : out[i] \in NonOrigin
ExactlyOnce == exhausted => {out[i] : i \in 1..Len(out)} = NonOrigin
FrontierIsLast == MaxFrontier = MaxIndex
=============================================================================
