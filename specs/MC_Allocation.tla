---------------------------- MODULE MC_Allocation ----------------------------
EXTENDS Allocation, IOUtils
AQuick == 0..3
BQuick == 0..3
AThorough == 0..4
BThorough == 0..3
PQs == {<<1, 1>>, <<2, 1>>, <<4, 1>>, <<1, 2>>}
PQsThorough == {<<1, 1>>, <<2, 1>>, <<4, 1>>, <<1, 2>>, <<3, 2>>, <<9, 4>>}
EnvInt(name) == atoi(IOEnv[name])
Vn == atoi(IOEnv.ALLOC_VN)
Vd == atoi(IOEnv.ALLOC_VD)
Bn == atoi(IOEnv.ALLOC_BN)
Bd == atoi(IOEnv.ALLOC_BD)
=============================================================================
