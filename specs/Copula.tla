------------------------------- MODULE Copula -------------------------------
(***************************************************************************)
(* The Levy copulas of rpylib/distribution/levycopula.py where they are    *)
(* exactly representable: the independent copula, the complete-dependence  *)
(* copula (for every argument) and the Clayton copula at theta = 1 (a      *)
(* rational function), with eta any rational in [0, 1], dimensions 2, 3.   *)
(* What is transcribed is the CASE ANALYSIS of the code: zero arguments,   *)
(* infinite arguments, sign patterns (orthant weights eta / -(1 - eta)),   *)
(* the 2^(2-d) scaling.                                                    *)
(*                                                                         *)
(* Arguments: integers, INF = +infinity, -INF = -infinity (limit value).   *)
(* Values: reduced rationals <<num, den>>, den > 0.                        *)
(*                                                                         *)
(* C11 on a lattice of arguments: Grounded, DIncreasing (every rectangle   *)
(* of the lattice has a non-negative volume), UniformMargins (every        *)
(* one-dimensional margin is the identity).                                *)
(***************************************************************************)
EXTENDS Integers, Sequences, FiniteSets, TLC

CONSTANTS Kinds,        \* subset of {"clayton1", "indep", "dep"}
          Etas,         \* set of <<num, den>> in [0, 1]
          Dims,         \* subset of {2, 3}
          Lattice2, Lattice3,      \* sets of integers (INF / -INF allowed)
          SignRule      \* "product": orthant weight by the product of the signs (the code);
                        \* "same": by "all arguments of one sign" (a deviation that agrees in dimension 2 only)

INF == 1000000
IsInf(u) == u = INF \/ u = -INF
AbsI(x) == IF x < 0 THEN -x ELSE x
SgnI(x) == IF x > 0 THEN 1 ELSE IF x < 0 THEN -1 ELSE 0

\* ---- rationals -----------------------------------------------------------------------------------------------------
GCD(m, n) == LET RECURSIVE G(_, _)
                 G(u, v) == IF v = 0 THEN u ELSE G(v, u % v)
             IN G(AbsI(m), AbsI(n))
Red(r) == IF r[1] = 0 THEN <<0, 1>>
          ELSE LET g == GCD(r[1], r[2]) s == IF r[2] < 0 THEN -1 ELSE 1 IN <<s * (r[1] \div g), s * (r[2] \div g)>>
RAdd(r, s) == Red(<<r[1] * s[2] + s[1] * r[2], r[2] * s[2]>>)
RMul(r, s) == Red(<<r[1] * s[1], r[2] * s[2]>>)
RNeg(r) == <<-r[1], r[2]>>
RSub(r, s) == RAdd(r, RNeg(s))
RInv(r) == Red(<<r[2], r[1]>>)
RInt(n) == <<n, 1>>
RGeq0(r) == r[1] >= 0
ROne == <<1, 1>>
RZero == <<0, 1>>
RECURSIVE RSumSeq(_)
RSumSeq(s) == IF s = <<>> THEN RZero ELSE RAdd(Head(s), RSumSeq(Tail(s)))

\* ---- the copulas ---------------------------------------------------------------------------------------------------
D(u) == Len(u)
AllInf(u) == \A i \in 1..D(u) : IsInf(u[i])
SignProd(u) == LET RECURSIVE P(_)
                   P(k) == IF k = 0 THEN 1 ELSE SgnI(u[k]) * P(k - 1)
               IN P(D(u))
Scale(d) == IF d = 2 THEN ROne ELSE <<1, 2>>                 \* 2^(2-d)
\* Clayton, theta = 1:  2^(2-d) * (sum 1/|u_i|)^(-1) * (eta if the product of the signs >= 0 else -(1-eta))
Clayton1(eta, u) ==
    IF \E i \in 1..D(u) : u[i] = 0 THEN RZero
    ELSE LET s == RSumSeq([i \in 1..D(u) |-> IF IsInf(u[i]) THEN RZero ELSE <<1, AbsI(u[i])>>])
             pos == IF SignRule = "product" THEN SignProd(u) >= 0
                    ELSE (\A i \in 1..D(u) : u[i] > 0) \/ (\A i \in 1..D(u) : u[i] < 0)
             f == IF pos THEN eta ELSE RNeg(RSub(ROne, eta))
         IN RMul(RMul(Scale(D(u)), RInv(s)), f)
\* independence: sum_i u_i prod_{j # i} 1{u_j = +inf}
Indep(u) == RSumSeq([i \in 1..D(u) |-> IF IsInf(u[i]) THEN RZero
                                       ELSE IF \A j \in (1..D(u)) \ {i} : u[j] = INF THEN RInt(u[i]) ELSE RZero])
\* complete dependence: min |u_i| on the two orthants of equal signs, times the product of the signs
MinAbs(u) == LET S == {AbsI(u[i]) : i \in 1..D(u)} IN CHOOSE m \in S : \A x \in S : m <= x
Dep(u) == IF (\A i \in 1..D(u) : u[i] > 0) \/ (\A i \in 1..D(u) : u[i] < 0) THEN RInt(MinAbs(u) * SignProd(u)) ELSE RZero
F(kind, eta, u) == IF kind = "clayton1" THEN Clayton1(eta, u) ELSE IF kind = "indep" THEN Indep(u) ELSE Dep(u)
\* where the value is finite (the copulas are +-infinite only when every argument is infinite)
Finite(kind, u) == IF kind = "dep" THEN ~(\A i \in 1..D(u) : IsInf(u[i])) \/ TRUE ELSE ~AllInf(u)

\* ---- volume of (a, b] and margins ----------------------------------------------------------------------------------
Corners(d) == [1..d -> {0, 1}]
CornerOf(a, b, c) == [i \in 1..Len(a) |-> IF c[i] = 0 THEN a[i] ELSE b[i]]
NumA(c) == Cardinality({i \in DOMAIN c : c[i] = 0})
Volume(kind, eta, a, b) ==
    LET cs == Corners(Len(a))
        RECURSIVE Acc(_)
        Acc(S) == IF S = {} THEN RZero
                  ELSE LET c == CHOOSE c \in S : TRUE
                           v == F(kind, eta, CornerOf(a, b, c))
                       IN RAdd(IF NumA(c) % 2 = 0 THEN v ELSE RNeg(v), Acc(S \ {c}))
    IN Acc(cs)
\* one-dimensional margin in coordinate k at x: sum over the other coordinates in {-inf, +inf} of F * product of their signs
Margin1(kind, eta, d, k, x) ==
    LET others == [((1..d) \ {k}) -> {-INF, INF}]
        RECURSIVE Acc(_)
        Acc(S) == IF S = {} THEN RZero
                  ELSE LET o == CHOOSE o \in S : TRUE
                           u == [i \in 1..d |-> IF i = k THEN x ELSE o[i]]
                           neg == Cardinality({i \in DOMAIN o : o[i] = -INF})
                           v == F(kind, eta, u)
                       IN RAdd(IF neg % 2 = 0 THEN v ELSE RNeg(v), Acc(S \ {o}))
    IN Acc(others)

\* ---- configurations ------------------------------------------------------------------------------------------------
VARIABLES kind, eta, dim
cvars == <<kind, eta, dim>>
Init == kind \in Kinds /\ dim \in Dims /\ eta \in (IF kind = "clayton1" THEN Etas ELSE {<<1, 2>>})
Spec == Init /\ [][FALSE]_cvars
Lat == IF dim = 2 THEN Lattice2 ELSE Lattice3
Points == [1..dim -> Lat]
Grounded == \A u \in Points : (\E i \in 1..dim : u[i] = 0) => F(kind, eta, u) = RZero
Rects == {ab \in Points \X Points : /\ \A i \in 1..dim : ab[1][i] < ab[2][i]
                                   \* no corner with all arguments infinite (the value there is infinite)
                                   /\ \E j \in 1..dim : ~IsInf(ab[1][j]) /\ ~IsInf(ab[2][j])}
\* every corner of such a rectangle has a finite argument
DIncreasing == \A ab \in Rects : RGeq0(Volume(kind, eta, ab[1], ab[2]))
UniformMargins == \A k \in 1..dim : \A x \in Lat : (~IsInf(x)) => Margin1(kind, eta, dim, k, x) = RInt(x)
=============================================================================
