--------------------------------- MODULE Sde ---------------------------------
(***************************************************************************)
(* Euler scheme of dX = a(t,X) dY on the driver's own time grid            *)
(* (rpylib/process/markovchain/markovchainsde.py, coupling/couplingsde.py).*)
(* Driver increments are quarters: dY4[i] = 4 * (mu*dt + dW + dL)_i.       *)
(*   Constant a = c :  X4[i+1] = X4[i] + c * dY4[i]           (scale 4)    *)
(*   DiagX          :  Xn[i+1] = Xn[i] * (4 + dY4[i])         (scale 4^i)  *)
(* C16: the recursion, and its closed forms x0 + c*Y_T, x0 * prod(1+dY_i). *)
(***************************************************************************)
EXTENDS Integers, Sequences, FiniteSets, TLC

CONSTANTS Incs, MaxLen, X0s, Cs

VARIABLES x0, c, dy, i, xc, xd
svars == <<x0, c, dy, i, xc, xd>>
RECURSIVE SumTo(_, _), ProdTo(_, _), Pow4(_)
SumTo(s, n) == IF n = 0 THEN 0 ELSE s[n] + SumTo(s, n - 1)
ProdTo(s, n) == IF n = 0 THEN 1 ELSE (4 + s[n]) * ProdTo(s, n - 1)
Pow4(n) == IF n = 0 THEN 1 ELSE 4 * Pow4(n - 1)

Init == /\ x0 \in X0s /\ c \in Cs
        /\ dy \in UNION {[1..n -> Incs] : n \in 1..MaxLen}
        /\ i = 0 /\ xc = 4 * x0 /\ xd = x0
EulerStep == /\ i < Len(dy)
             /\ xc' = xc + c * dy[i + 1]                 \* X += a * dY, a = c
             /\ xd' = xd * (4 + dy[i + 1])               \* X += X * dY   (numerator over 4^(i+1))
             /\ i' = i + 1 /\ UNCHANGED <<x0, c, dy>>
Spec == Init /\ [][EulerStep]_svars

ConstantClosedForm == xc = 4 * x0 + c * SumTo(dy, i)
DiagClosedForm == xd = x0 * ProdTo(dy, i)
=============================================================================
