------------------------------ MODULE Trace_Grid ------------------------------
(***************************************************************************)
(* Trace validation of real grid constructions and refinements             *)
(* (harness/drivers/grid_run.py) against the predicates of Grid.tla.       *)
(* Floats are rank-encoded per trace: order and equality are exact.        *)
(* Events: Construct (state := recorded grid), Refine (Nesting between the *)
(* previous recorded grid and this one, inserted points = the grid's own   *)
(* cell boundaries computed BEFORE the refinement), TimeGrid.              *)
(***************************************************************************)
EXTENDS Integers, Sequences, FiniteSets, TLC, Json, IOUtils, TLCExt

Lines == ndJsonDeserialize(IOEnv.TRACE_FILE)
VARIABLES tid, ln, bad, fin, cur      \* cur: the previous Construct / Refine record
tvars == <<tid, ln, bad, fin, cur>>
T == Lines[tid].ev
H == Lines[tid].hdr
Id == Lines[tid].tid
E == T[ln]

StrictlyIncreasing(a) == \A i \in 1..(Len(a) - 1) : a[i] < a[i + 1]
\* origin index o is 0-based in the records
WellFormedAxis(a, o, zero, hm, hp, t) ==
    /\ StrictlyIncreasing(a)
    /\ o >= 1 /\ o + 2 <= Len(a)
    /\ a[o + 1] = zero /\ a[o] = hm /\ a[o + 2] = hp
    /\ t[1] = a[1] /\ t[2] = a[Len(a)]
WellFormed(r) == /\ Len(r.axes) = r.dim /\ Len(r.origin) = r.dim /\ Len(r.trunc) = r.dim
                 /\ \A d \in 1..r.dim : WellFormedAxis(r.axes[d], r.origin[d], r.zero, r.hm, r.hp, r.trunc[d])
                 /\ r.hq = 1
\* the grid's own neighbour helpers (left_point / right_point / outside) agree with its axes: the cells of every state
\* are built from them (C01), also after refinements
Max2(a, b) == IF a >= b THEN a ELSE b
Min2(a, b) == IF a <= b THEN a ELSE b
NeighbourHelpers(r) ==
    /\ \A d \in 1..r.dim : LET a == r.axes[d] n == Len(r.nbrs.left[d]) IN
          /\ Len(r.nbrs.right[d]) = n /\ n >= 1
          /\ \A k \in 1..n : r.nbrs.left[d][k] = a[Max2(k - 1, 1)] /\ r.nbrs.right[d][k] = a[Min2(k + 1, Len(a))]
    /\ \A k \in 1..Len(r.nbrs.inside) : r.nbrs.inside[k] = 1
    /\ \A k \in 1..Len(r.nbrs.beyond) : r.nbrs.beyond[k] = 1
NestedAxis(old, new, mids) ==
    /\ Len(new) = 2 * Len(old) - 1
    /\ \A i \in 1..Len(old) : new[2 * i - 1] = old[i]
    /\ \A i \in 1..(Len(old) - 1) : old[i] < new[2 * i] /\ new[2 * i] < old[i + 1]
    /\ Len(mids) = Len(old) - 1
    /\ \A i \in 1..(Len(old) - 1) : new[2 * i] = mids[i]
Nested(o, r) ==
    /\ r.dim = o.dim
    /\ \A d \in 1..r.dim : /\ NestedAxis(o.axes[d], r.axes[d], r.mids[d])
                           /\ r.origin[d] = 2 * o.origin[d]
                           /\ r.trunc[d] = o.trunc[d]
Abs(x) == IF x < 0 THEN -x ELSE x
\* promised tail probability: exact (|dev| <= 1e-8) for one margin, at least the promise for several
TailOK(r) == \A i \in 1..Len(r.tailq) : IF r.tail_exact THEN Abs(r.tailq[i]) <= 10000 ELSE r.tailq[i] >= -10000
\* promised per-step probability: no step above it; interior steps (not the two outermost on each side, not
\* next to the origin) carry exactly the promised probability (|dev| <= 1e-5)
StepOK(r) == LET a == r.axes[1] n == Len(r.stepq) o == r.origin[1] IN
    /\ \A i \in 1..n : (i # o /\ i # o + 1) => r.stepq[i] <= 10000
    /\ \A i \in 3..(n - 2) : (i # o /\ i # o + 1 /\ i # o - 1 /\ i # o + 2) => Abs(r.stepq[i]) <= 10000

TraceInit == tid \in 1..Len(Lines) /\ ln = 1 /\ bad = 0 /\ fin = FALSE /\ cur = <<>>
More == ~fin /\ ln <= Len(T)
Viol(name) == PrintT(<<"VIOL", Id, ln, name, H.kind>>)
Judge(checks) ==      \* checks: sequence of <<name, bool>>
    LET failed == SelectSeq(checks, LAMBDA c : ~c[2]) IN
    IF failed = <<>> THEN bad' = bad
    ELSE (\A i \in 1..Len(failed) : Viol(failed[i][1])) /\ bad' = bad + 1
HasField(r, f) == f \in DOMAIN r

\* the number of states the grid reports = product of the lengths of its axes, checked through its residues modulo three
\* primes below 2^15 (so that every product stays below 2^31)
Primes == <<32749, 32719, 32717>>
RECURSIVE ProdMod(_, _, _)
ProdMod(sizes, k, p) == IF k = 0 THEN 1 ELSE (ProdMod(sizes, k - 1, p) * (sizes[k] % p)) % p
CountOK(sizes, cnt) == \A i \in 1..3 : cnt[i] = ProdMod(sizes, Len(sizes), Primes[i])
GridCountOK(r) == ~HasField(r, "cnt") \/ CountOK([d \in 1..r.dim |-> Len(r.axes[d])], r.cnt)
CountStep ==
    /\ More /\ E.e = "Count"
    /\ Judge(<< <<"NumberOfPoints", CountOK(E.sizes, E.cnt)>> >>)
    /\ ln' = ln + 1 /\ UNCHANGED <<tid, fin, cur>>

ConstructStep ==
    /\ More /\ E.e = "Construct"
    /\ Judge(<< <<"WellFormed", WellFormed(E) /\ NeighbourHelpers(E)>>, <<"NumberOfPoints", GridCountOK(E)>>,
                <<"TailProbability", ~HasField(E, "tailq") \/ TailOK(E)>>,
                <<"StepProbability", ~HasField(E, "stepq") \/ StepOK(E)>> >>)
    /\ cur' = E /\ ln' = ln + 1 /\ UNCHANGED <<tid, fin>>

RefineStep ==
    /\ More /\ E.e = "Refine" /\ cur # <<>>
    /\ Judge(<< <<"WellFormed", WellFormed(E) /\ NeighbourHelpers(E)>>, <<"NumberOfPoints", GridCountOK(E)>>,
                <<"Nesting", Nested(cur, E)>> >>)
    /\ cur' = E /\ ln' = ln + 1 /\ UNCHANGED <<tid, fin>>

TimeStep ==
    /\ More /\ E.e = "TimeGrid"
    /\ Judge(<< <<"TimeGrid", /\ E.len = E.num /\ Len(E.grid) = E.num
                              /\ E.grid[1] = E.start /\ E.grid[E.num] = E.end
                              /\ (E.start < E.end => StrictlyIncreasing(E.grid))
                              /\ \A i \in 1..Len(E.stepq) : Abs(E.stepq[i]) <= 1000>> >>)
    /\ ln' = ln + 1 /\ UNCHANGED <<tid, fin, cur>>
TimeRefused  == More /\ E.e = "TimeGridRefused" /\ ln' = ln + 1 /\ UNCHANGED <<tid, fin, cur, bad>>
TimeAccepted == /\ More /\ E.e = "TimeGridAccepted" /\ Viol("TimeGridArguments") /\ bad' = bad + 1
                /\ ln' = ln + 1 /\ UNCHANGED <<tid, fin, cur>>

RaiseStep ==
    /\ More /\ E.e = "Raise"
    /\ PrintT(<<"REJECT", Id, ln, "Raise", H.kind>>)
    /\ bad' = bad + 1 /\ ln' = ln + 1 /\ UNCHANGED <<tid, fin, cur>>

Finish ==
    /\ ~fin /\ ln = Len(T) + 1
    /\ IF bad = 0 THEN PrintT(<<"ACCEPT", Id>>) ELSE TRUE
    /\ fin' = TRUE /\ UNCHANGED <<tid, ln, bad, cur>>

TraceNext == ConstructStep \/ RefineStep \/ CountStep \/ TimeStep \/ TimeRefused \/ TimeAccepted \/ RaiseStep \/ Finish
TraceSpec == TraceInit /\ [][TraceNext]_tvars
=============================================================================
