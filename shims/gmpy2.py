"""Offline stand-in for gmpy2 (not installable in this sandbox).

rpylib only uses ``gmpy2.qdiv(a, b)``: exact rational division.  ``fractions.Fraction``
has the same meaning.  Only ever put on PYTHONPATH of the /verif drivers; never installed
into /venv, so the pinned baseline is untouched.
"""
from fractions import Fraction


def qdiv(a, b=1):
    q = Fraction(a) / Fraction(b)
    return int(q) if q.denominator == 1 else q


def mpz(x):
    return int(x)


def mpq(a, b=1):
    return Fraction(a, b)
