"""Offline stand-in for tqdm: progress bars are the identity on iterables."""


def tqdm(iterable=None, *args, **kwargs):
    return iterable


def trange(*args, **kwargs):
    return range(*args)
