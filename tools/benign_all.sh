cd "$VP_SNAP"
P="/venv/bin/python -m harness.benigntool"
$P mlmc 1 B-mlmc-engine-helpers C05 C06 C08
$P mlmc 2 B-mlmc-statistics-helper C05 C06 C07
$P mlmc 3 B-mlmc-std-engine-density C07 C08
$P mlmc 4 B-mlmc-config-path-helpers C05 C07 C08 C16
$P models 1 B-models-default-time-helpers C17 C19
$P models 2 B-models-barrier-any C17 C07
$P models 3 B-models-triplet-compensators C10 C04 C01 C20
$P models 4 B-models-cgmy-dedup C20 C10 C13
$P chains 1 B-chains-refine-interleave C13 C01 C03 C04
$P chains 2 B-chains-jump-times-generator C15 C08 C16
$P chains 3 B-chains-coupling1d-helpers C03 C15 C16 C08
$P chains 4 B-chains-copula-coupling-direct C03 C15
$P samplers 1 B-samplers-alias-bst-lists C02
$P samplers 2 B-samplers-huffman-renames C02
$P samplers 3 B-samplers-inversion-lists C02 C14
$P samplers 4 B-samplers-pairing-renames C02 C14
$P copulas 1 B-copulas-clayton-conditional-kernel C11 C12
$P copulas 2 B-copulas-mass3d-corner-helper C12 C01 C19
$P copulas 3 B-copulas-margin-precomputed-signs C11 C12 C03
$P copulas 4 B-copulas-implied-spread-helper C19
$P samplers2 1 B-samplers2-table-method C02
$P samplers2 2 B-samplers2-alias-lists C02
$P samplers2 3 B-samplers2-adapted-trees C02 C01
$P samplers2 4 B-samplers2-factory-lazy-product C02 C01 C14
$P products2 1 B-products2-rate-payoff-helpers C17 C19
$P products2 2 B-products2-underlying-base-class C17 C07
$P products2 3 B-products2-control-variates-helpers C07 C05
$P products2 4 B-products2-sde-shared-helpers C16 C03
$P numerics 1 B-numerics-cos-renames C18 C20
$P numerics 2 B-numerics-fft-helpers C18
$P numerics 3 B-numerics-measure-dedup C09 C01 C04 C10
$P numerics 4 B-numerics-hem-guards C09 C10 C20 C15
$P misc 1 B-misc-series-helpers C15
$P misc 2 B-misc-clayton-dedup C11 C12 C15
$P misc 3 B-misc-adapted-tree-renames C02 C01
$P misc 4 B-misc-utils-helpers C20 C10
